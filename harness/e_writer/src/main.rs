//! Correspondence harness for engine `writer` (property C09): drives the real `rlib_io::Writer`
//! (and reads the produced text back through the real `rlib_io::Reader`).
//!
//! Case line (see `lean/Driver/Writer.lean` for the grammar):
//!   `w buf=<BUF> dbg=<0|1|*> k=<n> j=<n> rt=<0|1> rc=<n> ; op ; op ; …`
//! Sink: accepts at most `k` bytes per `write` call (`0` = everything) and answers every `j`-th call
//! with `ErrorKind::Interrupted` (`0` = never).  `rc` = chunk size of the source the text is read
//! back from (`0` = one piece); every 3rd `read` call of that source is `Interrupted` when `rc` is odd.
//!
//! Answer: `I <view> | V <view>` with
//! `view = obs=[len:fnv,…] drop=len:fnv[:hex] fmt=ok|bad rt=ok|na|bad@i|skip ub=ok|na|bad@i`.
//!   * `obs`  : the sink's contents after every explicit `flush()`;
//!   * `drop` : the sink's contents after the writer was dropped;
//!   * `fmt`  : the sink's contents equal `format!("{}")` / verbatim strings / `' '`-joined sequences
//!              (oracle written here, independent of the Lean model);
//!   * `rt`   : the leaves read back through `Reader` equal the values written;
//!   * `ub`   : debug build only — after every operation the sink already held everything written so far;
//!   * `fl`   : number of `write_all` calls the sink saw — printed (raw part) only for diagnostic lines whose
//!              header says `fl=1`; never compared by `check` (logged in the evidence by `checks/C09.py`).
//!
//! Second line kind (C09 bridge): `r buf=<BUF> dbg=<0|1|*> rbuf=<n> rc=<n> alt=<0|1> ; op ; op ; …` — the same
//! ops are written through the real `Writer` (plain sink), the sink bytes are read back through the real
//! `Reader` from a source with chunk size `rc` (as above) and the *values read* are printed:
//! `I rb drop=len:fnv vals=<v>,<v>,…,eof=<bool> | V <same>` with `<v>` = decimal integer, `s:<hex>` (`String`),
//! `c:<hex>` (`char`), `(…)` a tuple read, `[…]` a `read_vec`. `alt=1`: one-byte words are read as `char`,
//! sequences of integers of one type as `read::<($t,…)>()` (tuples) / `read_vec::<$t>(n)`. The driver answers
//! the same line by running the Reader *model* on the Writer *model's* sink (`rbuf` = its buffer size).
//! Scripts outside the read-back domain answer `INVALID` on both sides.
//!
//! Third line kind (several live objects on one thread): `m buf=<BUF> dbg=<0|1|*> rbuf=<n> ; <slot> <step> ; …` with steps
//! `N k j` (new Writer over a fresh sink), `W…|C…|F|O…|L…` (inherent API), `T <val>` (the trait method `Writable::write(&val, &mut w)`
//! called directly: no debug flush), `MV` (moved to another address), `D` (drop), `LK` (`mem::forget`), `RN rc <string>` (new Reader),
//! `RS|RC|RI <ty>|RE` (reads). Answer: `I mw ev=[<slot>:F=len:fnv,<slot>:R=<v>,<slot>:D=len:fnv[:hex],…] fmt=ok|bad ub=ok|na|bad@i | V <same>`
//! (see `run_mcase`; model and specification: `lean/RlibModel/Model/IoMulti.lean`).
//!
//! Fourth line kind (characters): `c buf= dbg= rbuf= rc= k= j= ; C n ; …` — `write_char`, drop, one `read::<char>()` per
//! non-whitespace byte, `is_eof()`: `I cb drop=len:fnv[:hex] vals=c:<hex>,…,eof=<bool> | V <same>`.
#[path = "../../common/mod.rs"]
mod common;
use common::*;
// `make_output_macro!` expands to an unqualified `make_output_macro_!` call, so that name must be in scope.
#[allow(unused_imports)]
use rlib_io::make_output_macro_;
use rlib_io::{Reader, Writable, Writer};
use std::cell::{Cell, RefCell};
use std::io::{self, Read, Write};
use std::mem::ManuallyDrop;
use std::rc::Rc;

// ------------------------------------------------------------------------------------------------
// values
// ------------------------------------------------------------------------------------------------

macro_rules! int_types {
    ($m:ident) => {
        $m!(
            (I8, i8, "i8"),
            (I16, i16, "i16"),
            (I32, i32, "i32"),
            (I64, i64, "i64"),
            (I128, i128, "i128"),
            (Isize, isize, "isize"),
            (U8, u8, "u8"),
            (U16, u16, "u16"),
            (U32, u32, "u32"),
            (U64, u64, "u64"),
            (U128, u128, "u128"),
            (Usize, usize, "usize")
        );
    };
}

macro_rules! def_hval {
    ($(($v:ident, $t:ty, $n:expr)),*) => {
        #[derive(Clone, Debug, PartialEq)]
        enum HVal {
            $($v($t),)*
            /// bytes are valid UTF-8; `true` = written as `String`, `false` = as `&str`
            Str(String, bool),
            /// `true` = tuple (arity 2..=8), `false` = `Vec`
            Seq(bool, Vec<HVal>),
        }

        impl Writable for HVal {
            fn write(&self, w: &mut Writer) {
                match self {
                    $(HVal::$v(x) => Writable::write(x, w),)*
                    HVal::Str(s, false) => Writable::write(&s.as_str(), w),
                    HVal::Str(s, true) => Writable::write(s, w),
                    HVal::Seq(false, v) => Writable::write(v, w),
                    HVal::Seq(true, v) => write_tuple(v, w),
                }
            }
        }

        fn parse_int(ty: &str, v: &str) -> Option<HVal> {
            match ty {
                $($n => v.parse::<$t>().ok().map(HVal::$v),)*
                _ => None,
            }
        }

        /// `format!("{}")` of an integer leaf.
        fn fmt_int(v: &HVal) -> Option<String> {
            match v {
                $(HVal::$v(x) => Some(format!("{}", x)),)*
                _ => None,
            }
        }

        /// top-level `writer.write(&x)` with the concrete type where there is one
        fn write_top(w: &mut Writer, v: &HVal) {
            match v {
                $(HVal::$v(x) => w.write(x),)*
                HVal::Str(s, false) => w.write(&s.as_str()),
                HVal::Str(s, true) => w.write(s),
                HVal::Seq(false, xs) => {
                    // a homogeneous integer vector is written as a real `Vec<T>`
                    $(
                        if !xs.is_empty() && xs.iter().all(|x| matches!(x, HVal::$v(_))) {
                            let mono: Vec<$t> = xs.iter().map(|x| if let HVal::$v(y) = x { *y } else { unreachable!() }).collect();
                            w.write(&mono);
                            return;
                        }
                    )*
                    w.write(xs)
                }
                HVal::Seq(true, _) => w.write(v),
            }
        }

        /// the public trait method called directly: `Writable::write(&x, &mut w)` with the concrete type where there is one
        /// (no `#[cfg(debug_assertions)] flush` of `Writer::write` behind it)
        fn trait_top(w: &mut Writer, v: &HVal) {
            match v {
                $(HVal::$v(x) => Writable::write(x, w),)*
                HVal::Str(s, false) => Writable::write(&s.as_str(), w),
                HVal::Str(s, true) => Writable::write(s, w),
                HVal::Seq(false, xs) => {
                    $(
                        if !xs.is_empty() && xs.iter().all(|x| matches!(x, HVal::$v(_))) {
                            let mono: Vec<$t> = xs.iter().map(|x| if let HVal::$v(y) = x { *y } else { unreachable!() }).collect();
                            Writable::write(&mono, w);
                            return;
                        }
                    )*
                    Writable::write(xs, w)
                }
                HVal::Seq(true, _) => Writable::write(v, w),
            }
        }

        /// `reader.read::<ty>()` for an integer type given by name, printed in decimal
        fn read_int_named(r: &mut Reader, ty: &str) -> Option<String> {
            match ty {
                $($n => Some(r.read::<$t>().to_string()),)*
                _ => None,
            }
        }

        /// read one leaf / homogeneous sequence back and compare
        fn read_back(r: &mut Reader, v: &HVal, alt: bool) -> bool {
            match v {
                $(HVal::$v(x) => r.read::<$t>() == *x,)*
                HVal::Str(s, _) => {
                    if alt && s.len() == 1 {
                        r.read::<char>() == s.chars().next().unwrap()
                    } else {
                        r.read::<String>() == *s
                    }
                }
                HVal::Seq(tuple, xs) => {
                    $(
                        if alt && !xs.is_empty() && xs.iter().all(|x| matches!(x, HVal::$v(_))) {
                            let want: Vec<$t> = xs.iter().map(|x| if let HVal::$v(y) = x { *y } else { unreachable!() }).collect();
                            let got: Vec<$t> = if *tuple {
                                match xs.len() {
                                    2 => { let (a, b) = r.read::<($t, $t)>(); vec![a, b] }
                                    3 => { let (a, b, c) = r.read::<($t, $t, $t)>(); vec![a, b, c] }
                                    4 => { let (a, b, c, d) = r.read::<($t, $t, $t, $t)>(); vec![a, b, c, d] }
                                    5 => { let (a, b, c, d, e) = r.read::<($t, $t, $t, $t, $t)>(); vec![a, b, c, d, e] }
                                    6 => { let (a, b, c, d, e, f) = r.read::<($t, $t, $t, $t, $t, $t)>(); vec![a, b, c, d, e, f] }
                                    7 => { let (a, b, c, d, e, f, g) = r.read::<($t, $t, $t, $t, $t, $t, $t)>(); vec![a, b, c, d, e, f, g] }
                                    8 => { let (a, b, c, d, e, f, g, h) = r.read::<($t, $t, $t, $t, $t, $t, $t, $t)>(); vec![a, b, c, d, e, f, g, h] }
                                    _ => r.read_vec::<$t>(xs.len()),
                                }
                            } else {
                                r.read_vec::<$t>(xs.len())
                            };
                            return got == want;
                        }
                    )*
                    xs.iter().all(|x| read_back(r, x, alt))
                }
            }
        }
        /// (signed, bits) of an integer leaf (`isize`/`usize` are 64-bit: the model does not distinguish them from `i64`/`u64`)
        fn int_class(v: &HVal) -> Option<(bool, u32)> {
            match v {
                $(HVal::$v(_) => Some((<$t>::MIN != 0, <$t>::BITS)),)*
                _ => None,
            }
        }

        /// `r` lines: read one written value back and append what was read to `out`
        fn read_show(r: &mut Reader, v: &HVal, alt: bool, out: &RefCell<Vec<String>>) {
            match v {
                $(HVal::$v(_) => {
                    let x = r.read::<$t>();
                    out.borrow_mut().push(x.to_string());
                })*
                HVal::Str(s, _) => {
                    if alt && s.len() == 1 {
                        let c = r.read::<char>();
                        out.borrow_mut().push(format!("c:{:02x}", c as u32));
                    } else {
                        let t = r.read::<String>();
                        let hex: String = t.chars().map(|c| format!("{:02x}", c as u32)).collect();
                        out.borrow_mut().push(format!("s:{}", hex));
                    }
                }
                HVal::Seq(tuple, xs) => {
                    if alt && !xs.is_empty() && int_class(&xs[0]).is_some() && xs.iter().all(|x| int_class(x) == int_class(&xs[0])) {
                        $(
                            if let HVal::$v(_) = &xs[0] {
                                let as_tuple = *tuple && (2..=8).contains(&xs.len());
                                let got: Vec<$t> = if as_tuple {
                                    match xs.len() {
                                        2 => { let (a, b) = r.read::<($t, $t)>(); vec![a, b] }
                                        3 => { let (a, b, c) = r.read::<($t, $t, $t)>(); vec![a, b, c] }
                                        4 => { let (a, b, c, d) = r.read::<($t, $t, $t, $t)>(); vec![a, b, c, d] }
                                        5 => { let (a, b, c, d, e) = r.read::<($t, $t, $t, $t, $t)>(); vec![a, b, c, d, e] }
                                        6 => { let (a, b, c, d, e, f) = r.read::<($t, $t, $t, $t, $t, $t)>(); vec![a, b, c, d, e, f] }
                                        7 => { let (a, b, c, d, e, f, g) = r.read::<($t, $t, $t, $t, $t, $t, $t)>(); vec![a, b, c, d, e, f, g] }
                                        _ => { let (a, b, c, d, e, f, g, h) = r.read::<($t, $t, $t, $t, $t, $t, $t, $t)>(); vec![a, b, c, d, e, f, g, h] }
                                    }
                                } else {
                                    r.read_vec::<$t>(xs.len())
                                };
                                let items: Vec<String> = got.iter().map(|x| x.to_string()).collect();
                                out.borrow_mut().push(if as_tuple { format!("({})", items.join(",")) } else { format!("[{}]", items.join(",")) });
                                return;
                            }
                        )*
                    }
                    for x in xs {
                        read_show(r, x, alt, out);
                    }
                }
            }
        }
    };
}
int_types!(def_hval);

impl<'x> Writable for &'x HVal {
    fn write(&self, w: &mut Writer) {
        Writable::write(*self, w)
    }
}

fn write_tuple(v: &[HVal], w: &mut Writer) {
    match v.len() {
        2 => Writable::write(&(&v[0], &v[1]), w),
        3 => Writable::write(&(&v[0], &v[1], &v[2]), w),
        4 => Writable::write(&(&v[0], &v[1], &v[2], &v[3]), w),
        5 => Writable::write(&(&v[0], &v[1], &v[2], &v[3], &v[4]), w),
        6 => Writable::write(&(&v[0], &v[1], &v[2], &v[3], &v[4], &v[5]), w),
        7 => Writable::write(&(&v[0], &v[1], &v[2], &v[3], &v[4], &v[5], &v[6]), w),
        8 => Writable::write(&(&v[0], &v[1], &v[2], &v[3], &v[4], &v[5], &v[6], &v[7]), w),
        _ => unreachable!("tuple arity is checked by the parser"),
    }
}

/// Oracle: what the user expects to find in the sink.
fn fmt_val(v: &HVal, out: &mut Vec<u8>) {
    match v {
        HVal::Str(s, _) => out.extend_from_slice(s.as_bytes()),
        HVal::Seq(_, xs) => {
            for (i, x) in xs.iter().enumerate() {
                if i != 0 {
                    out.push(b' ');
                }
                fmt_val(x, out);
            }
        }
        _ => out.extend_from_slice(fmt_int(v).unwrap().as_bytes()),
    }
}

fn leaves<'a>(v: &'a HVal, out: &mut Vec<&'a HVal>) {
    match v {
        HVal::Seq(_, xs) => xs.iter().for_each(|x| leaves(x, out)),
        _ => out.push(v),
    }
}

fn leaf_text(v: &HVal) -> Vec<u8> {
    let mut o = Vec::new();
    fmt_val(v, &mut o);
    o
}

// ------------------------------------------------------------------------------------------------
// case parsing
// ------------------------------------------------------------------------------------------------

fn pat_byte(kind: u64, seed: u64, len: u64, i: u64) -> u8 {
    match kind {
        0 => (33 + (seed + i * 7) % 94) as u8,
        1 => {
            let x = (seed + i * 11) % 97;
            if x < 94 {
                (33 + x) as u8
            } else if x == 94 {
                32
            } else if x == 95 {
                10
            } else {
                9
            }
        }
        3 => non_ws_ascii((seed + i * 7) % 123),
        _ => {
            if len % 2 == 1 && i == 0 {
                120
            } else {
                let i2 = i - len % 2;
                if i2 % 2 == 0 {
                    0xC3
                } else {
                    (0xA0 + (seed + i2 / 2) % 16) as u8
                }
            }
        }
    }
}

/// The `x`-th ASCII byte that is not whitespace (`x < 123`): 0..8, 11, 14..31, 33..127 (NUL, control characters, DEL included).
fn non_ws_ascii(x: u64) -> u8 {
    (if x < 9 {
        x
    } else if x == 9 {
        11
    } else if x < 28 {
        x + 4
    } else {
        x + 5
    }) as u8
}

/// Kind 4: valid UTF-8 made of 1-, 2-, 3- and 4-byte characters in rotation (every byte value a `String` can contain
/// occurs); a character that no longer fits into `len` bytes is replaced by a one-byte one.
fn pat4_string(seed: u64, len: u64) -> String {
    let mut out = String::with_capacity(len as usize);
    let mut remaining = len;
    let mut n: u64 = 0;
    while remaining > 0 {
        let small = (seed * 5 + n * 13) % 128;
        let (cp, sz) = match (seed + n) % 4 {
            0 => (small, 1),
            1 => (0x80 + (seed * 31 + n * 61) % 0x780, 2),
            2 => {
                let cp = 0x800 + (seed * 257 + n * 1021) % 0xF000;
                (if cp >= 0xD800 { cp + 0x800 } else { cp }, 3)
            }
            _ => (0x10000 + (seed * 65537 + n * 69061) % 0x100000, 4),
        };
        if sz <= remaining {
            out.push(char::from_u32(cp as u32).expect("pattern code points are scalar values"));
            remaining -= sz;
        } else {
            out.push(small as u8 as char);
            remaining -= 1;
        }
        n += 1;
    }
    out
}

fn pat_string(kind: u64, seed: u64, len: u64) -> Option<String> {
    if kind == 4 {
        return Some(pat4_string(seed, len));
    }
    let bytes: Vec<u8> = (0..len).map(|i| pat_byte(kind, seed, len, i)).collect();
    String::from_utf8(bytes).ok()
}

fn parse_scalar(tok: &str) -> Option<HVal> {
    let parts: Vec<&str> = tok.split(':').collect();
    match parts.as_slice() {
        [ty, v] if *ty == "x" || *ty == "X" => {
            if v.len() % 2 != 0 {
                return None;
            }
            let mut bytes = Vec::new();
            for i in (0..v.len()).step_by(2) {
                bytes.push(u8::from_str_radix(v.get(i..i + 2)?, 16).ok()?);
            }
            String::from_utf8(bytes).ok().map(|s| HVal::Str(s, *ty == "X"))
        }
        [ty, v] => parse_int(ty, v),
        [ty, k, l, s] if *ty == "s" || *ty == "S" => {
            let (k, l, s) = (k.parse::<u64>().ok()?, l.parse::<u64>().ok()?, s.parse::<u64>().ok()?);
            if k > 4 || l > (1 << 26) || (k == 4 && s > (1 << 32)) {
                return None;
            }
            pat_string(k, s, l).map(|st| HVal::Str(st, *ty == "S"))
        }
        _ => None,
    }
}

fn parse_val<'a>(ts: &'a [&'a str], depth: usize) -> Option<(HVal, &'a [&'a str])> {
    if depth > 300 || ts.is_empty() {
        return None;
    }
    let (t, rest) = (ts[0], &ts[1..]);
    if t == "v" || t == "t" {
        let n: usize = rest.first()?.parse().ok()?;
        if t == "t" && !(2..=8).contains(&n) {
            return None;
        }
        let (xs, rest2) = parse_vals(&rest[1..], n, depth + 1)?;
        Some((HVal::Seq(t == "t", xs), rest2))
    } else {
        parse_scalar(t).map(|v| (v, rest))
    }
}

fn parse_vals<'a>(mut ts: &'a [&'a str], n: usize, depth: usize) -> Option<(Vec<HVal>, &'a [&'a str])> {
    let mut xs = Vec::new();
    for _ in 0..n {
        let (v, rest) = parse_val(ts, depth)?;
        xs.push(v);
        ts = rest;
    }
    Some((xs, ts))
}

enum Op {
    Write(HVal),
    Char(char),
    Flush,
    Out(bool, Vec<HVal>),
}

const MAX_OUT_ARITY: usize = 6;

fn parse_op(s: &str) -> Option<Op> {
    let ts: Vec<&str> = s.split_whitespace().collect();
    match ts.as_slice() {
        ["F"] => Some(Op::Flush),
        ["C", n] => char::from_u32(n.parse().ok()?).map(Op::Char),
        ["W", rest @ ..] => match parse_val(rest, 0)? {
            (v, []) => Some(Op::Write(v)),
            _ => None,
        },
        [o, n, rest @ ..] if *o == "O" || *o == "L" => {
            let n: usize = n.parse().ok()?;
            if (*o == "O" && n == 0) || n > MAX_OUT_ARITY {
                return None;
            }
            match parse_vals(rest, n, 0)? {
                (vs, []) => Some(Op::Out(*o == "L", vs)),
                _ => None,
            }
        }
        _ => None,
    }
}

struct Hdr {
    buf: usize,
    dbg: Option<bool>,
    k: usize,
    j: usize,
    rt: bool,
    rc: usize,
    /// `fl=1`: diagnostic line — append the number of `write_all` calls to the raw part (never generated,
    /// only used by the non-compared flush-count diagnostic of `checks/C09.py`)
    fl: bool,
}

fn parse_hdr(s: &str) -> Option<Hdr> {
    let ts: Vec<&str> = s.split_whitespace().collect();
    if ts.first() != Some(&"w") {
        return None;
    }
    let get = |key: &str| -> Option<&str> {
        ts.iter().find_map(|t| t.split_once('=').and_then(|(k, v)| if k == key { Some(v) } else { None }))
    };
    let dbg = match get("dbg")? {
        "0" => Some(false),
        "1" => Some(true),
        "*" => None,
        _ => return None,
    };
    Some(Hdr {
        buf: get("buf")?.parse().ok()?,
        dbg,
        k: get("k").unwrap_or("0").parse().ok()?,
        j: get("j").unwrap_or("0").parse().ok()?,
        rt: get("rt")? == "1",
        rc: get("rc").unwrap_or("0").parse().ok()?,
        fl: get("fl") == Some("1"),
    })
}

// ------------------------------------------------------------------------------------------------
// sinks and sources
// ------------------------------------------------------------------------------------------------

/// Accepts at most `k` bytes per call, `Interrupted` on every `j`-th call.
struct Sink {
    data: Rc<RefCell<Vec<u8>>>,
    k: usize,
    j: usize,
    calls: usize,
}

impl Write for Sink {
    fn write(&mut self, buf: &[u8]) -> io::Result<usize> {
        self.calls += 1;
        if self.j > 0 && self.calls % self.j == 0 {
            return Err(io::Error::new(io::ErrorKind::Interrupted, "interrupted"));
        }
        let n = if self.k == 0 { buf.len() } else { buf.len().min(self.k) };
        self.data.borrow_mut().extend_from_slice(&buf[..n]);
        Ok(n)
    }
    fn flush(&mut self) -> io::Result<()> {
        Ok(())
    }
}

/// Counts `write_all` calls, then lets std's own `write_all` drive the inner sink's `write`.
struct Counting {
    inner: Sink,
    n: Rc<Cell<usize>>,
}

impl Write for Counting {
    fn write(&mut self, buf: &[u8]) -> io::Result<usize> {
        self.inner.write(buf)
    }
    fn write_all(&mut self, buf: &[u8]) -> io::Result<()> {
        self.n.set(self.n.get() + 1);
        self.inner.write_all(buf) // the provided method of `std::io::Write`
    }
    fn flush(&mut self) -> io::Result<()> {
        Ok(())
    }
}

struct Src {
    data: Vec<u8>,
    pos: usize,
    chunk: usize,
    calls: usize,
}

impl Read for Src {
    fn read(&mut self, buf: &mut [u8]) -> io::Result<usize> {
        self.calls += 1;
        if self.chunk % 2 == 1 && self.calls % 3 == 0 {
            return Err(io::Error::new(io::ErrorKind::Interrupted, "interrupted"));
        }
        let mut n = (self.data.len() - self.pos).min(buf.len());
        if self.chunk > 0 {
            n = n.min(self.chunk);
        }
        buf[..n].copy_from_slice(&self.data[self.pos..self.pos + n]);
        self.pos += n;
        Ok(n)
    }
}

// ------------------------------------------------------------------------------------------------
// running one case
// ------------------------------------------------------------------------------------------------

fn fnv(bs: &[u8]) -> u64 {
    let mut h: u64 = 0xcbf29ce484222325;
    for &b in bs {
        h = (h ^ b as u64).wrapping_mul(0x100000001b3);
    }
    h
}

fn obs_str(bs: &[u8]) -> String {
    format!("{}:{:016x}", bs.len(), fnv(bs))
}

fn drop_str(bs: &[u8]) -> String {
    if bs.len() <= 32 {
        let hex: String = bs.iter().map(|b| format!("{:02x}", b)).collect();
        format!("{}:{}", obs_str(bs), hex)
    } else {
        obs_str(bs)
    }
}

fn run_case(line: &str) -> String {
    if line.starts_with("r ") {
        return run_rcase(line);
    }
    if line.starts_with("m ") {
        return run_mcase(line);
    }
    if line.starts_with("c ") {
        return run_ccase(line);
    }
    let mut parts = line.split(';').map(|p| p.trim());
    let hdr = match parts.next().and_then(parse_hdr) {
        Some(h) => h,
        None => return out1("INVALID"),
    };
    let mut ops = Vec::new();
    for p in parts {
        if p.is_empty() {
            continue;
        }
        match parse_op(p) {
            Some(o) => ops.push(o),
            None => return out1("INVALID"),
        }
    }
    if hdr.buf == 0 || hdr.j == 1 {
        return out1("INVALID");
    }

    // oracle: expected text (and its length after every op)
    let mut want = Vec::new();
    let mut lv: Vec<&HVal> = Vec::new();
    let mut cum: Vec<usize> = Vec::new();
    for op in &ops {
        match op {
            Op::Write(v) => {
                fmt_val(v, &mut want);
                leaves(v, &mut lv);
            }
            Op::Char(c) => want.push(*c as u32 as u8),
            Op::Flush => {}
            Op::Out(nl, vs) => {
                for (i, v) in vs.iter().enumerate() {
                    if i != 0 {
                        want.push(b' ');
                    }
                    fmt_val(v, &mut want);
                    leaves(v, &mut lv);
                }
                if *nl {
                    want.push(b'\n');
                }
            }
        }
        cum.push(want.len());
    }

    let data = Rc::new(RefCell::new(Vec::<u8>::new()));
    let count = Rc::new(Cell::new(0usize));
    // first op after which the sink did not yet hold everything written so far (flush-per-write builds: none)
    let behind = Rc::new(Cell::new(None::<usize>));
    let res = {
        let data = data.clone();
        let count = count.clone();
        let behind = behind.clone();
        let cum = &cum;
        let ops = &ops;
        let (k, j) = (hdr.k, hdr.j);
        catch(move || {
            let sink = Counting { inner: Sink { data: data.clone(), k, j, calls: 0 }, n: count };
            // ManuallyDrop: a panic inside a write must not run `Drop` (= flush) during unwinding.
            let writer = ManuallyDrop::new(Writer::new(Box::new(sink)));
            let reader = ();
            rlib_io::make_output_macro!(reader, writer);
            let mut obs: Vec<String> = Vec::new();
            for (i, op) in ops.iter().enumerate() {
                match op {
                    Op::Write(v) => write_top(&mut writer, v),
                    Op::Char(c) => writer.write_char(*c),
                    Op::Flush => {
                        writer.flush();
                        obs.push(obs_str(&data.borrow()));
                    }
                    Op::Out(false, vs) => match vs.len() {
                        1 => { out!(vs[0]); }
                        2 => { out!(vs[0], vs[1]); }
                        3 => { out!(vs[0], vs[1], vs[2]); }
                        4 => { out!(vs[0], vs[1], vs[2], vs[3]); }
                        5 => { out!(vs[0], vs[1], vs[2], vs[3], vs[4]); }
                        6 => { out!(vs[0], vs[1], vs[2], vs[3], vs[4], vs[5]); }
                        _ => unreachable!(),
                    },
                    Op::Out(true, vs) => match vs.len() {
                        0 => { outln!(); }
                        1 => { outln!(vs[0]); }
                        2 => { outln!(vs[0], vs[1]); }
                        3 => { outln!(vs[0], vs[1], vs[2]); }
                        4 => { outln!(vs[0], vs[1], vs[2], vs[3]); }
                        5 => { outln!(vs[0], vs[1], vs[2], vs[3], vs[4]); }
                        6 => { outln!(vs[0], vs[1], vs[2], vs[3], vs[4], vs[5]); }
                        _ => unreachable!(),
                    },
                }
                if behind.get().is_none() && data.borrow().len() != cum[i] {
                    behind.set(Some(i));
                }
            }
            // the writer goes out of scope
            unsafe { ManuallyDrop::drop(&mut writer) };
            obs
        })
    };
    let obs = match res {
        Ok(o) => o,
        Err(p) => return out1(&p),
    };
    let got = data.borrow().clone();

    let fmt_ok = got == want;

    // read back
    let rt = if !hdr.rt {
        "na".to_string()
    } else {
        let toks: Vec<&[u8]> = want.split(|b| b.is_ascii_whitespace()).filter(|t| !t.is_empty()).collect();
        // (the reader returns bytes as Latin-1 characters, so only ASCII words read back as themselves)
        let eligible = toks.len() == lv.len()
            && toks.iter().zip(lv.iter()).all(|(t, l)| *t == &leaf_text(l)[..])
            && lv.iter().all(|l| if let HVal::Str(s, _) = l { s.is_ascii() } else { true });
        if !eligible {
            "na".to_string()
        } else if !fmt_ok {
            "skip".to_string()
        } else {
            let src = Src { data: got.clone(), pos: 0, chunk: hdr.rc, calls: 0 };
            let alt = hdr.rc % 4 >= 2;
            let ops = &ops;
            let r = catch(move || {
                let mut reader = Reader::new(Box::new(src));
                let mut idx = 0usize;
                for op in ops {
                    let vs: &[HVal] = match op {
                        Op::Write(v) => std::slice::from_ref(v),
                        Op::Out(_, vs) => vs,
                        _ => &[],
                    };
                    for v in vs {
                        if !read_back(&mut reader, v, alt) {
                            return Err(idx);
                        }
                        idx += 1;
                    }
                }
                if reader.is_eof() {
                    Ok(())
                } else {
                    Err(usize::MAX)
                }
            });
            match r {
                Ok(Ok(())) => "ok".to_string(),
                Ok(Err(i)) => format!("bad@{}", i),
                Err(p) => format!("bad:{}", p),
            }
        }
    };

    // `ub` (unbuffered): in a flush-per-write (debug) build nothing is pending after any operation.
    // Only stated for lines generated for the debug build and run on it; `na` otherwise (a release build
    // may deliver early or late as it likes — only flush/drop are promised).
    let ub = match hdr.dbg {
        Some(true) if cfg!(debug_assertions) => match behind.get() {
            None => "ok".to_string(),
            Some(i) => format!("bad@{}", i),
        },
        Some(true) => "na(profile-mismatch)".to_string(),
        _ => "na".to_string(),
    };
    let view = format!(
        "obs=[{}] drop={} fmt={} rt={} ub={}",
        obs.join(","),
        drop_str(&got),
        if fmt_ok { "ok" } else { "bad" },
        rt,
        ub
    );
    // The number of `write_all` calls is NOT part of the compared result (when bytes reach the sink before
    // flush/drop is not promised); it is reported only on diagnostic lines (`fl=1` in the header).
    if hdr.fl {
        out2(&format!("{} fl={}", view, count.get()), &view)
    } else {
        out1(&view)
    }
}

// ------------------------------------------------------------------------------------------------
// `r` lines: write, drop, read back, print the values read
// ------------------------------------------------------------------------------------------------

struct RHdr {
    buf: usize,
    rbuf: usize,
    rc: usize,
    alt: bool,
}

fn parse_rhdr(s: &str) -> Option<RHdr> {
    let ts: Vec<&str> = s.split_whitespace().collect();
    if ts.first() != Some(&"r") {
        return None;
    }
    let get = |key: &str| -> Option<&str> {
        ts.iter().find_map(|t| t.split_once('=').and_then(|(k, v)| if k == key { Some(v) } else { None }))
    };
    if !matches!(get("dbg")?, "0" | "1" | "*") {
        return None;
    }
    let alt = match get("alt")? {
        "0" => false,
        "1" => true,
        _ => return None,
    };
    Some(RHdr { buf: get("buf")?.parse().ok()?, rbuf: get("rbuf")?.parse().ok()?, rc: get("rc")?.parse().ok()?, alt })
}

/// One inherent operation on a real `Writer` reached through a reference (`out!` / `outln!` are the real macros, bound to
/// the reference by `make_output_macro!`).
fn exec_pub(w: &mut Writer, op: &Op) {
    let writer = w;
    let reader = ();
    rlib_io::make_output_macro!(reader, writer);
    match op {
        Op::Write(v) => write_top(&mut *writer, v),
        Op::Char(c) => writer.write_char(*c),
        Op::Flush => writer.flush(),
        Op::Out(false, vs) => match vs.len() {
            1 => { out!(vs[0]); }
            2 => { out!(vs[0], vs[1]); }
            3 => { out!(vs[0], vs[1], vs[2]); }
            4 => { out!(vs[0], vs[1], vs[2], vs[3]); }
            5 => { out!(vs[0], vs[1], vs[2], vs[3], vs[4]); }
            6 => { out!(vs[0], vs[1], vs[2], vs[3], vs[4], vs[5]); }
            _ => unreachable!(),
        },
        Op::Out(true, vs) => match vs.len() {
            0 => { outln!(); }
            1 => { outln!(vs[0]); }
            2 => { outln!(vs[0], vs[1]); }
            3 => { outln!(vs[0], vs[1], vs[2]); }
            4 => { outln!(vs[0], vs[1], vs[2], vs[3]); }
            5 => { outln!(vs[0], vs[1], vs[2], vs[3], vs[4]); }
            6 => { outln!(vs[0], vs[1], vs[2], vs[3], vs[4], vs[5]); }
            _ => unreachable!(),
        },
    }
}

/// All ops on a real `Writer` over `sink`, then drop.
fn exec_ops_plain(ops: &[Op], sink: Box<dyn Write>) {
    let mut writer = ManuallyDrop::new(Writer::new(sink));
    for op in ops {
        exec_pub(&mut writer, op);
    }
    unsafe { ManuallyDrop::drop(&mut writer) };
}

fn run_rcase(line: &str) -> String {
    let mut parts = line.split(';').map(|p| p.trim());
    let hdr = match parts.next().and_then(parse_rhdr) {
        Some(h) => h,
        None => return out1("INVALID"),
    };
    let mut ops = Vec::new();
    for p in parts {
        if p.is_empty() {
            continue;
        }
        match parse_op(p) {
            Some(o) => ops.push(o),
            None => return out1("INVALID"),
        }
    }
    if hdr.buf < 39 || hdr.rbuf == 0 || ops.iter().any(|o| matches!(o, Op::Char(c) if *c as u32 >= 128)) {
        return out1("INVALID");
    }
    // oracle text and leaves; domain of the read-back
    let mut want = Vec::new();
    let mut lv: Vec<&HVal> = Vec::new();
    for op in &ops {
        match op {
            Op::Write(v) => {
                fmt_val(v, &mut want);
                leaves(v, &mut lv);
            }
            Op::Char(c) => want.push(*c as u32 as u8),
            Op::Flush => {}
            Op::Out(nl, vs) => {
                for (i, v) in vs.iter().enumerate() {
                    if i != 0 {
                        want.push(b' ');
                    }
                    fmt_val(v, &mut want);
                    leaves(v, &mut lv);
                }
                if *nl {
                    want.push(b'\n');
                }
            }
        }
    }
    let toks: Vec<&[u8]> = want.split(|b| b.is_ascii_whitespace()).filter(|t| !t.is_empty()).collect();
    let eligible = toks.len() == lv.len()
        && toks.iter().zip(lv.iter()).all(|(t, l)| *t == &leaf_text(l)[..])
        && lv.iter().all(|l| if let HVal::Str(s, _) = l { s.is_ascii() } else { true });
    if !eligible {
        return out1("INVALID");
    }
    // write
    let data = Rc::new(RefCell::new(Vec::<u8>::new()));
    let res = {
        let data = data.clone();
        let ops = &ops;
        catch(move || exec_ops_plain(ops, Box::new(Sink { data, k: 0, j: 0, calls: 0 })))
    };
    if let Err(p) = res {
        return out1(&p);
    }
    let got = data.borrow().clone();
    if got != want {
        return out1(&format!("rb drop={} vals=fmt-bad", obs_str(&got)));
    }
    // read back through the real Reader
    let vals: Rc<RefCell<Vec<String>>> = Rc::new(RefCell::new(Vec::new()));
    let r = {
        let vals = vals.clone();
        let src = Src { data: got.clone(), pos: 0, chunk: hdr.rc, calls: 0 };
        let alt = hdr.alt;
        let ops = &ops;
        catch(move || {
            let mut reader = Reader::new(Box::new(src));
            for op in ops {
                let vs: &[HVal] = match op {
                    Op::Write(v) => std::slice::from_ref(v),
                    Op::Out(_, vs) => vs,
                    _ => &[],
                };
                for v in vs {
                    read_show(&mut reader, v, alt, &vals);
                }
            }
            let e = reader.is_eof();
            vals.borrow_mut().push(format!("eof={}", e));
        })
    };
    if let Err(p) = r {
        vals.borrow_mut().push(p);
    }
    let joined = vals.borrow().join(",");
    out1(&format!("rb drop={} vals={}", obs_str(&got), joined))
}

// ------------------------------------------------------------------------------------------------
// `m` lines: several live objects (Writers over their own sinks, Readers over their own sources) used interleaved
// ------------------------------------------------------------------------------------------------

const SLOTS: usize = 8;

enum RKind {
    Str,
    Chr,
    Eof,
    Int(String),
}

enum MStep {
    NewW(usize, usize),
    NewR(usize, String),
    Pub(Op),
    Trait(HVal),
    Move,
    Drop,
    /// the object is dropped WHILE THE THREAD IS UNWINDING from a panic (`std::thread::panicking()` is true), inside a nested
    /// `catch_unwind`: `false` = `DU`, owned by the frame of a closure that panics (the unwinding itself drops it); `true` = `DG`,
    /// owned by a scope guard whose own `Drop` drops it during that unwinding. For the model both are a drop.
    DropUnw(bool),
    /// `std::mem::forget`: the object ceases to exist without `Drop` (what it had delivered so far is not looked at)
    Leak,
    Read(RKind),
}

fn parse_mstep(s: &str) -> Option<(usize, MStep)> {
    let ts: Vec<&str> = s.split_whitespace().collect();
    let k: usize = ts.first()?.parse().ok()?;
    let rest = &ts[1..];
    let step = match rest {
        ["N", a, b] => MStep::NewW(a.parse().ok()?, b.parse().ok()?),
        ["D"] => MStep::Drop,
        ["DU"] => MStep::DropUnw(false),
        ["DG"] => MStep::DropUnw(true),
        ["MV"] => MStep::Move,
        ["LK"] => MStep::Leak,
        ["RS"] => MStep::Read(RKind::Str),
        ["RC"] => MStep::Read(RKind::Chr),
        ["RE"] => MStep::Read(RKind::Eof),
        ["RI", ty] => {
            if !TYPES.iter().any(|t| t.0 == *ty) {
                return None;
            }
            MStep::Read(RKind::Int(ty.to_string()))
        }
        ["RN", rc, v] => match parse_scalar(v)? {
            HVal::Str(st, _) => MStep::NewR(rc.parse().ok()?, st),
            _ => return None,
        },
        ["T", vs @ ..] => match parse_val(vs, 0)? {
            (v, []) => MStep::Trait(v),
            _ => return None,
        },
        _ => MStep::Pub(parse_op(&rest.join(" "))?),
    };
    Some((k, step))
}

/// A live object. The value sits in a one-element `Vec` so that `MV` can move it to a **different** address (the new
/// allocation is made while the old one is still alive). Writers are `ManuallyDrop`: a panic inside a call must not run
/// `Drop` (= flush) during unwinding.
enum Slot {
    W { w: Vec<ManuallyDrop<Writer<'static>>>, data: Rc<RefCell<Vec<u8>>>, want: Vec<u8> },
    R(Vec<Reader<'static>>),
}

/// A scope guard: its destructor ends the life of the object it holds.
struct EndOfScope<T>(Option<T>);

impl<T> Drop for EndOfScope<T> {
    fn drop(&mut self) {
        drop(self.0.take());
    }
}

/// Drops `x` while this thread is unwinding from a panic (nested `catch_unwind`; the panic is a real `panic!`, so
/// `std::thread::panicking()` is true in `x`'s destructor).
fn drop_while_unwinding<T>(x: T, guard: bool) {
    let r = std::panic::catch_unwind(std::panic::AssertUnwindSafe(move || {
        if guard {
            let _g = EndOfScope(Some(x));
            panic!("harness: unwinding on purpose (guard)");
        } else {
            let _owned = x;
            panic!("harness: unwinding on purpose");
        }
    }));
    assert!(r.is_err());
}

fn oracle_op(op: &Op, want: &mut Vec<u8>) {
    match op {
        Op::Write(v) => fmt_val(v, want),
        Op::Char(c) => want.push(*c as u32 as u8),
        Op::Flush => {}
        Op::Out(nl, vs) => {
            for (i, v) in vs.iter().enumerate() {
                if i != 0 {
                    want.push(b' ');
                }
                fmt_val(v, want);
            }
            if *nl {
                want.push(b'\n');
            }
        }
    }
}

fn run_mcase(line: &str) -> String {
    let mut parts = line.split(';').map(|p| p.trim());
    let hdr_s = parts.next().unwrap_or("");
    let ts: Vec<&str> = hdr_s.split_whitespace().collect();
    let get = |key: &str| -> Option<&str> {
        ts.iter().find_map(|t| t.split_once('=').and_then(|(k, v)| if k == key { Some(v) } else { None }))
    };
    let (buf, dbg, rbuf) = match (get("buf").and_then(|v| v.parse::<usize>().ok()), get("dbg"), get("rbuf").and_then(|v| v.parse::<usize>().ok())) {
        (Some(b), Some(d), Some(r)) if matches!(d, "0" | "1" | "*") => (b, d, r),
        _ => return out1("INVALID"),
    };
    let mut steps = Vec::new();
    for p in parts {
        if p.is_empty() {
            continue;
        }
        match parse_mstep(p) {
            Some(x) => steps.push(x),
            None => return out1("INVALID"),
        }
    }
    if buf == 0 {
        return out1("INVALID");
    }
    // validity of the addressing (decided before anything runs, exactly as the model decides it)
    {
        let mut kind: [u8; SLOTS] = [0; SLOTS]; // 0 none, 1 writer, 2 reader
        for (k, st) in &steps {
            let k = *k;
            let ok = match st {
                MStep::NewW(_, j) => k < SLOTS && kind[k] == 0 && *j != 1,
                MStep::NewR(_, _) => k < SLOTS && rbuf > 0 && kind[k] == 0,
                MStep::Pub(_) | MStep::Trait(_) => k < SLOTS && kind[k] == 1,
                MStep::Read(_) => k < SLOTS && kind[k] == 2,
                MStep::Move | MStep::Drop | MStep::DropUnw(_) | MStep::Leak => k < SLOTS && kind[k] != 0,
            };
            if !ok {
                return out1("INVALID");
            }
            match st {
                MStep::NewW(..) => kind[k] = 1,
                MStep::NewR(..) => kind[k] = 2,
                MStep::Drop | MStep::DropUnw(_) | MStep::Leak => kind[k] = 0,
                _ => {}
            }
        }
    }
    let evs: Rc<RefCell<Vec<String>>> = Rc::new(RefCell::new(Vec::new()));
    let fmt_ok = Rc::new(Cell::new(true));
    let behind = Rc::new(Cell::new(None::<usize>));
    let res = {
        let evs = evs.clone();
        let fmt_ok = fmt_ok.clone();
        let behind = behind.clone();
        let steps = &steps;
        catch(move || {
            let mut slots: Vec<Option<Slot>> = (0..SLOTS).map(|_| None).collect();
            for (i, (k, st)) in steps.iter().enumerate() {
                let k = *k;
                match st {
                    MStep::NewW(sk, sj) => {
                        let data = Rc::new(RefCell::new(Vec::<u8>::new()));
                        let sink = Sink { data: data.clone(), k: *sk, j: *sj, calls: 0 };
                        let mut home = Vec::with_capacity(1);
                        home.push(ManuallyDrop::new(Writer::new(Box::new(sink))));
                        slots[k] = Some(Slot::W { w: home, data, want: Vec::new() });
                    }
                    MStep::NewR(rc, text) => {
                        let src = Src { data: text.as_bytes().to_vec(), pos: 0, chunk: *rc, calls: 0 };
                        let mut home = Vec::with_capacity(1);
                        home.push(Reader::new(Box::new(src)));
                        slots[k] = Some(Slot::R(home));
                    }
                    MStep::Pub(op) => {
                        if let Some(Slot::W { w, data, want }) = slots[k].as_mut() {
                            exec_pub(&mut w[0], op);
                            oracle_op(op, want);
                            if matches!(op, Op::Flush) {
                                evs.borrow_mut().push(format!("{}:F={}", k, obs_str(&data.borrow())));
                                if *data.borrow() != *want {
                                    fmt_ok.set(false);
                                }
                            }
                            if behind.get().is_none() && data.borrow().len() != want.len() {
                                behind.set(Some(i));
                            }
                        }
                    }
                    MStep::Trait(v) => {
                        if let Some(Slot::W { w, want, .. }) = slots[k].as_mut() {
                            trait_top(&mut w[0], v);
                            fmt_val(v, want);
                        }
                    }
                    MStep::Move => match slots[k].as_mut() {
                        Some(Slot::W { w, .. }) => {
                            let mut home = Vec::with_capacity(1); // allocated while the old home is still alive
                            home.push(w.pop().unwrap());
                            *w = home;
                        }
                        Some(Slot::R(r)) => {
                            let mut home = Vec::with_capacity(1);
                            home.push(r.pop().unwrap());
                            *r = home;
                        }
                        None => {}
                    },
                    MStep::Drop => {
                        if let Some(Slot::W { mut w, data, want }) = slots[k].take() {
                            let mut x = w.pop().unwrap();
                            unsafe { ManuallyDrop::drop(&mut x) };
                            evs.borrow_mut().push(format!("{}:D={}", k, drop_str(&data.borrow())));
                            if *data.borrow() != want {
                                fmt_ok.set(false);
                            }
                        }
                    }
                    MStep::DropUnw(guard) => match slots[k].take() {
                        Some(Slot::W { mut w, data, want }) => {
                            let x = ManuallyDrop::into_inner(w.pop().unwrap());
                            drop_while_unwinding(x, *guard);
                            evs.borrow_mut().push(format!("{}:D={}", k, drop_str(&data.borrow())));
                            if *data.borrow() != want {
                                fmt_ok.set(false);
                            }
                        }
                        Some(Slot::R(mut r)) => drop_while_unwinding(r.pop().unwrap(), *guard),
                        None => {}
                    },
                    MStep::Leak => match slots[k].take() {
                        Some(Slot::W { mut w, .. }) => std::mem::forget(w.pop().unwrap()),
                        Some(Slot::R(mut r)) => std::mem::forget(r.pop().unwrap()),
                        None => {}
                    },
                    MStep::Read(kind) => {
                        if let Some(Slot::R(r)) = slots[k].as_mut() {
                            let r = &mut r[0];
                            let shown = match kind {
                                RKind::Str => {
                                    let t = r.read::<String>();
                                    let hex: String = t.chars().map(|c| format!("{:02x}", c as u32)).collect();
                                    format!("s:{}", hex)
                                }
                                RKind::Chr => format!("c:{:02x}", r.read::<char>() as u32),
                                RKind::Eof => format!("eof={}", r.is_eof()),
                                RKind::Int(ty) => read_int_named(r, ty).unwrap(),
                            };
                            evs.borrow_mut().push(format!("{}:R={}", k, shown));
                        }
                    }
                }
            }
            // end of the history: the writers still alive are dropped in slot order
            for k in 0..SLOTS {
                if let Some(Slot::W { mut w, data, want }) = slots[k].take() {
                    let mut x = w.pop().unwrap();
                    unsafe { ManuallyDrop::drop(&mut x) };
                    evs.borrow_mut().push(format!("{}:D={}", k, drop_str(&data.borrow())));
                    if *data.borrow() != want {
                        fmt_ok.set(false);
                    }
                }
            }
        })
    };
    if let Err(p) = res {
        return out1(&p);
    }
    let ub = match dbg {
        "1" if cfg!(debug_assertions) => match behind.get() {
            None => "ok".to_string(),
            Some(i) => format!("bad@{}", i),
        },
        "1" => "na(profile-mismatch)".to_string(),
        _ => "na".to_string(),
    };
    out1(&format!("mw ev=[{}] fmt={} ub={}", evs.borrow().join(","), if fmt_ok.get() { "ok" } else { "bad" }, ub))
}

// ------------------------------------------------------------------------------------------------
// `c` lines: characters written with `write_char`, read back with `read::<char>()`
// ------------------------------------------------------------------------------------------------

fn run_ccase(line: &str) -> String {
    let mut parts = line.split(';').map(|p| p.trim());
    let hdr_s = parts.next().unwrap_or("");
    let ts: Vec<&str> = hdr_s.split_whitespace().collect();
    let get = |key: &str| -> Option<usize> {
        ts.iter().find_map(|t| t.split_once('=').and_then(|(k, v)| if k == key { v.parse().ok() } else { None }))
    };
    let dbg_ok = ts.iter().any(|t| matches!(*t, "dbg=0" | "dbg=1" | "dbg=*"));
    let (buf, rbuf, rc) = match (get("buf"), get("rbuf"), get("rc")) {
        (Some(b), Some(r), Some(c)) if dbg_ok => (b, r, c),
        _ => return out1("INVALID"),
    };
    let (k, j) = (get("k").unwrap_or(0), get("j").unwrap_or(0));
    let mut chars = Vec::new();
    for p in parts {
        if p.is_empty() {
            continue;
        }
        match parse_op(p) {
            Some(Op::Char(c)) => chars.push(c),
            _ => return out1("INVALID"),
        }
    }
    if buf == 0 || rbuf == 0 || j == 1 {
        return out1("INVALID");
    }
    let want: Vec<u8> = chars.iter().map(|c| *c as u32 as u8).collect();
    let data = Rc::new(RefCell::new(Vec::<u8>::new()));
    let res = {
        let data = data.clone();
        let chars = &chars;
        catch(move || {
            let mut w = ManuallyDrop::new(Writer::new(Box::new(Sink { data, k, j, calls: 0 })));
            for c in chars {
                w.write_char(*c);
            }
            unsafe { ManuallyDrop::drop(&mut w) };
        })
    };
    if let Err(p) = res {
        return out1(&p);
    }
    let got = data.borrow().clone();
    let n_reads = want.iter().filter(|b| !b.is_ascii_whitespace()).count();
    let vals: Rc<RefCell<Vec<String>>> = Rc::new(RefCell::new(Vec::new()));
    let r = {
        let vals = vals.clone();
        let src = Src { data: got.clone(), pos: 0, chunk: rc, calls: 0 };
        catch(move || {
            let mut reader = Reader::new(Box::new(src));
            for _ in 0..n_reads {
                let c = reader.read::<char>();
                vals.borrow_mut().push(format!("c:{:02x}", c as u32));
            }
            let e = reader.is_eof();
            vals.borrow_mut().push(format!("eof={}", e));
        })
    };
    if let Err(p) = r {
        vals.borrow_mut().push(p);
    }
    let joined = vals.borrow().join(",");
    out1(&format!("cb drop={} vals={}", drop_str(&got), joined))
}

// ------------------------------------------------------------------------------------------------
// generators
// ------------------------------------------------------------------------------------------------

const TYPES: [(&str, bool, u32); 12] = [
    ("i8", true, 8),
    ("u8", false, 8),
    ("i16", true, 16),
    ("u16", false, 16),
    ("i32", true, 32),
    ("u32", false, 32),
    ("i64", true, 64),
    ("u64", false, 64),
    ("i128", true, 128),
    ("u128", false, 128),
    ("isize", true, 64),
    ("usize", false, 64),
];

/// (negative, magnitude) fits the type?
fn fits(signed: bool, bits: u32, neg: bool, mag: u128) -> bool {
    if !signed {
        !neg && (bits == 128 || mag < (1u128 << bits))
    } else if neg {
        mag <= (1u128 << (bits - 1))
    } else {
        mag < (1u128 << (bits - 1))
    }
}

fn int_tok(ty: &str, neg: bool, mag: u128) -> String {
    if neg && mag != 0 {
        format!("{}:-{}", ty, mag)
    } else {
        format!("{}:{}", ty, mag)
    }
}

/// Boundary magnitudes: digit-count changes, powers of two, extremes.
fn boundary_mags() -> Vec<u128> {
    let mut v: Vec<u128> = vec![0, 1, 2, 5, 9, 10, 11, 42];
    let mut p: u128 = 1;
    for _ in 0..38 {
        p *= 10;
        v.extend_from_slice(&[p - 1, p, p + 1]);
    }
    for k in 1..128u32 {
        let q = 1u128 << k;
        v.extend_from_slice(&[q - 1, q, q + 1]);
    }
    v.extend_from_slice(&[u128::MAX, u128::MAX - 1]);
    v.sort();
    v.dedup();
    v
}

fn boundary_vals(ty: &(&str, bool, u32), mags: &[u128]) -> Vec<String> {
    let mut out = Vec::new();
    for &m in mags {
        for neg in [false, true] {
            if neg && m == 0 {
                continue;
            }
            if fits(ty.1, ty.2, neg, m) {
                out.push(int_tok(ty.0, neg, m));
            }
        }
    }
    out
}

fn rand_int(rng: &mut SplitMix64, mags: &[u128]) -> String {
    let ty = TYPES[rng.below(12) as usize];
    loop {
        let (neg, mag) = if rng.chance(1, 3) {
            (rng.chance(1, 2), *rng.pick(mags))
        } else {
            let b = rng.below(ty.2 as u64 + 1) as u32;
            let raw = ((rng.next_u64() as u128) << 64) | rng.next_u64() as u128;
            let mag = if b == 0 { 0 } else if b == 128 { raw } else { raw & ((1u128 << b) - 1) };
            (rng.chance(1, 2), mag)
        };
        let neg = neg && ty.1;
        if fits(ty.1, ty.2, neg, mag) {
            return int_tok(ty.0, neg, mag);
        }
    }
}

fn rand_str(rng: &mut SplitMix64, buf: usize, wordy: bool, allow_big: bool, st: &mut Stats) -> String {
    // wordy: printable ASCII (0), every non-whitespace ASCII byte incl. NUL / control characters / DEL (3), non-ASCII (2: outside
    // the read-back domain); otherwise also blanks (1) and UTF-8 of every character length (4)
    let kind = if wordy { *rng.pick(&[0u64, 0, 0, 0, 3, 3, 3, 3, 0, 2]) } else { rng.below(5) };
    st.bump(&format!("str_kind_{}", kind));
    let len: usize = match rng.below(if allow_big { 40 } else { 38 }) {
        0 => 0,
        1..=20 => 1 + rng.below(12) as usize,
        21..=24 => 38 + rng.below(4) as usize,
        25..=34 => rng.below(100) as usize,
        35..=37 => rng.below(2000) as usize,
        38 => buf.saturating_sub(1) + rng.below(3) as usize,
        _ => *rng.pick(&[2 * buf, 3 * buf + 7, buf + 39, buf + 40, 2 * buf.saturating_sub(1)]),
    };
    let len = if wordy && len == 0 { 1 } else { len };
    if len >= buf {
        st.bump("str_ge_buf");
    }
    let tag = if rng.chance(1, 2) { "s" } else { "S" };
    if len <= 6 && rng.chance(1, 2) {
        // literal
        // literal: printable, or any non-whitespace ASCII byte (NUL, control characters, DEL included)
        let hex: String = if rng.chance(1, 2) {
            (0..len).map(|i| format!("{:02x}", pat_byte(0, rng.below(94), len as u64, i as u64))).collect()
        } else {
            st.bump("str_literal_any_ascii");
            (0..len).map(|_| format!("{:02x}", non_ws_ascii(if rng.chance(1, 4) { 0 } else { rng.below(123) }))).collect()
        };
        format!("{}:{}", if tag == "s" { "x" } else { "X" }, hex)
    } else {
        format!("{}:{}:{}:{}", tag, kind, len, rng.below(1000))
    }
}

thread_local! {
    static BV_CACHE: RefCell<Vec<Vec<String>>> = RefCell::new(Vec::new());
}

/// boundary values of type number `t` (cached)
fn with_bv<R>(t: usize, mags: &[u128], f: impl FnOnce(&[String]) -> R) -> R {
    BV_CACHE.with(|c| {
        let mut c = c.borrow_mut();
        if c.is_empty() {
            *c = TYPES.iter().map(|ty| boundary_vals(ty, mags)).collect();
        }
        f(&c[t])
    })
}

fn rand_val(rng: &mut SplitMix64, buf: usize, depth: u32, wordy: bool, allow_big: bool, mags: &[u128], st: &mut Stats) -> String {
    let c = rng.below(10);
    if depth == 0 || c < 5 {
        if rng.chance(3, 5) {
            st.bump("val_int");
            rand_int(rng, mags)
        } else {
            st.bump("val_str");
            rand_str(rng, buf, wordy, allow_big, st)
        }
    } else if c < 8 {
        st.bump("val_vec");
        let n = *rng.pick(&[0usize, 1, 1, 2, 2, 3, 3, 4, 5, 9]);
        if rng.chance(1, 2) && n > 0 {
            // homogeneous integer vector
            let t = rng.below(12) as usize;
            let xs: Vec<String> = with_bv(t, mags, |bv| (0..n).map(|_| rng.pick(bv).clone()).collect());
            format!("v {} {}", n, xs.join(" "))
        } else {
            let xs: Vec<String> = (0..n).map(|_| rand_val(rng, buf, depth - 1, wordy, false, mags, st)).collect();
            format!("v {} {}", n, xs.join(" ")).trim_end().to_string()
        }
    } else {
        st.bump("val_tuple");
        let n = 2 + rng.below(7) as usize;
        st.bump(&format!("tuple_arity_{}", n));
        if rng.chance(1, 3) {
            let t = rng.below(12) as usize;
            let xs: Vec<String> = with_bv(t, mags, |bv| (0..n).map(|_| rng.pick(bv).clone()).collect());
            format!("t {} {}", n, xs.join(" "))
        } else {
            let xs: Vec<String> = (0..n).map(|_| rand_val(rng, buf, depth - 1, wordy, false, mags, st)).collect();
            format!("t {} {}", n, xs.join(" "))
        }
    }
}

struct Gen<'a> {
    buf: usize,
    dbg: &'a str,
    emit: &'a mut dyn FnMut(String),
    /// what every emitted `w` case ends with, per sink kind (merged into the Stats at the end)
    tally: std::collections::BTreeMap<String, u64>,
}

fn sink_kind(k: usize, j: usize) -> &'static str {
    match (k > 0, j > 0) {
        (false, false) => "accepts_all",
        (true, false) => "partial",
        (false, true) => "interrupting",
        (true, true) => "partial_interrupting",
    }
}

impl<'a> Gen<'a> {
    fn case(&mut self, k: usize, j: usize, rt: bool, rc: usize, ops: &[String]) {
        // is the tail of the output delivered by `Drop` alone (no explicit flush after the last write)?
        let ending = if ops.last().map(|o| o.trim() == "F").unwrap_or(true) { "ends_with_flush" } else { "drop_without_flush" };
        *self.tally.entry(format!("{}_sink_{}", ending, sink_kind(k, j))).or_insert(0) += 1;
        (self.emit)(format!(
            "w buf={} dbg={} k={} j={} rt={} rc={} ; {}",
            self.buf,
            self.dbg,
            k,
            j,
            if rt { 1 } else { 0 },
            rc,
            ops.join(" ; ")
        ));
    }
    /// an `m` line: several live objects
    fn mcase(&mut self, steps: &[String]) {
        (self.emit)(format!("m buf={} dbg={} rbuf=65536 ; {}", self.buf, self.dbg, steps.join(" ; ")));
    }
    /// a `c` line: characters written with `write_char`, read back with `read::<char>()`
    fn ccase(&mut self, rc: usize, k: usize, j: usize, ops: &[String]) {
        (self.emit)(format!("c buf={} dbg={} rbuf=65536 rc={} k={} j={} ; {}", self.buf, self.dbg, rc, k, j, ops.join(" ; ")));
    }
    /// an `r` line (write, drop, read back, values printed); `rbuf` = the real reader's buffer size
    fn rcase(&mut self, rc: usize, alt: bool, ops: &[String]) {
        (self.emit)(format!(
            "r buf={} dbg={} rbuf=65536 rc={} alt={} ; {}",
            self.buf,
            self.dbg,
            rc,
            if alt { 1 } else { 0 },
            ops.join(" ; ")
        ));
    }
}

const RCS: [usize; 10] = [0, 1, 2, 3, 4, 5, 6, 7, 64, 4095];

fn rand_sink(rng: &mut SplitMix64, buf: usize) -> (usize, usize) {
    let k = match rng.below(10) {
        0..=3 => 0,
        4 => 1,
        5 => 1 + rng.below(7) as usize,
        6 => 1 + rng.below(5000) as usize,
        7 => buf.saturating_sub(1),
        8 => buf,
        _ => 40,
    };
    let j = *rng.pick(&[0usize, 0, 0, 2, 3, 5, 17]);
    (k, j)
}

fn hex_of(bs: &[u8]) -> String {
    bs.iter().map(|b| format!("{:02x}", b)).collect()
}

/// An input text for a reader of an `m` line and the in-domain reads that consume it token by token:
/// (`x:<hex>` literal, read steps without the slot prefix).
fn reader_plan(rng: &mut SplitMix64, mags: &[u128]) -> (String, Vec<String>) {
    let mut text: Vec<u8> = Vec::new();
    let mut reads: Vec<String> = Vec::new();
    let ntok = 1 + rng.below(6);
    for _ in 0..ntok {
        for _ in 0..rng.below(3) {
            text.push(*rng.pick(&[32u8, 10, 9, 13, 12]));
        }
        if rng.chance(1, 2) {
            // an integer token read with its own type
            let tok = rand_int(rng, mags);
            let (ty, v) = tok.split_once(':').unwrap();
            text.extend_from_slice(v.as_bytes());
            reads.push(if rng.chance(1, 5) { "RS".to_string() } else { format!("RI {}", ty) });
        } else {
            let n = 1 + rng.below(5);
            for _ in 0..n {
                text.push(non_ws_ascii(if rng.chance(1, 8) { 0 } else { rng.below(123) }));
            }
            match rng.below(4) {
                0 if n >= 2 => {
                    reads.push("RC".to_string()); // first byte as `char`, the rest of the word as a String
                    reads.push("RS".to_string());
                }
                0 => reads.push("RC".to_string()),
                _ => reads.push("RS".to_string()),
            }
        }
        text.push(*rng.pick(&[32u8, 10, 9, 13, 12]));
    }
    if rng.chance(1, 3) {
        text.pop(); // no trailing whitespace: the last token ends at the end of the input
    }
    (format!("x:{}", hex_of(&text)), reads)
}

/// A small writer call for interleaved histories (`W …`, `C …`, `O …`, `L …`, `T …`, `F`), without the slot prefix.
fn small_call(rng: &mut SplitMix64, buf: usize, mags: &[u128], st: &mut Stats) -> String {
    match rng.below(16) {
        0 | 1 => {
            st.bump("m_call_flush");
            "F".to_string()
        }
        2 | 3 => {
            st.bump("m_call_char");
            format!("C {}", if rng.chance(1, 3) { *rng.pick(&[32u64, 10]) } else { 33 + rng.below(94) })
        }
        4 | 5 => {
            st.bump("m_call_out");
            let n = 1 + rng.below(3) as usize;
            let xs: Vec<String> = (0..n).map(|_| rand_val(rng, buf, 1, false, false, mags, st)).collect();
            format!("{} {} {}", if rng.chance(1, 2) { "L" } else { "O" }, n, xs.join(" "))
        }
        6..=10 => {
            st.bump("m_call_trait");
            let big = rng.chance(1, 20);
            format!("T {}", rand_val(rng, buf, 2, false, big, mags, st))
        }
        _ => {
            st.bump("m_call_write");
            let big = rng.chance(1, 20);
            format!("W {}", rand_val(rng, buf, 2, false, big, mags, st))
        }
    }
}

/// (8) `m` lines. The model gives every object its own buffer; the specification shows, per writer, the text of the calls
/// addressed to it. What is varied: which entry point left bytes pending (inherent call: buffered build only; trait method:
/// both builds), what the other object does meanwhile, who is created / flushed / moved / dropped first.
fn gen_multi(g: &mut Gen, rng: &mut SplitMix64, thorough: bool, mags: &[u128], st: &mut Stats) {
    let buf = g.buf;
    // (8a) two writers: A holds pending bytes while B writes; every combination of entry points, B's piece, the way A is observed,
    //      creation order and drop order
    let a_pend = ["W x:616e73776572", "T x:616e73776572", "T u32:12345", "W i64:-7", "T v 2 u8:1 u16:65535", "C 65", "O 2 u8:1 x:78",
        "T t 2 i8:-1 x:7a"];
    let b_piece: Vec<String> = vec![
        "W x:6c6f67".into(), "T x:6c6f67".into(), "C 33".into(), "L 2 i64:-7 x:6c6f67".into(), "T i128:-170141183460469231731687303715884105728".into(),
        format!("W s:0:{}:1", buf + 5), format!("T s:1:{}:2", buf), "T v 3 u64:100 u64:200 u64:300".into(), "W u8:0".into(), "T u8:0".into(),
    ];
    for (ai, ap) in a_pend.iter().enumerate() {
        for (bi, bp) in b_piece.iter().enumerate() {
            for variant in 0..6usize {
                if !thorough && (ai + bi + variant) % 3 != 0 {
                    continue;
                }
                let (ka, ja) = [(0usize, 0usize), (1, 0), (0, 2), (3, 2)][(ai + bi) % 4];
                let mut steps: Vec<String> = Vec::new();
                let b_first = variant % 2 == 0;
                if b_first {
                    steps.push("1 N 0 0".into());
                }
                steps.push(format!("0 N {} {}", ka, ja));
                steps.push(format!("0 {}", ap));
                if !b_first {
                    steps.push("1 N 2 3".into());
                }
                steps.push(format!("1 {}", bp));
                match variant / 2 {
                    0 => {
                        steps.push("0 F".into());
                        steps.push("1 F".into());
                    }
                    1 => {
                        steps.push("1 D".into()); // the short-lived second writer goes first
                        steps.push("0 T x:20656e64".into());
                        steps.push("0 D".into());
                    }
                    _ => {
                        steps.push("0 MV".into());
                        steps.push(format!("0 {}", ap));
                        steps.push(format!("1 {}", bp)); // both dropped at the end, in slot order
                    }
                }
                g.mcase(&steps);
                st.bump("m_two_writers_pending");
            }
        }
    }
    // (8b) one writer, inherent calls and the trait method mixed, fill level steered to the boundary (the trait method has no
    //      debug flush: pending bytes in both builds; the next inherent call must deliver them too)
    for d in [0usize, 1, 2, 19, 20, 21, 38, 39, 40, 41] {
        for (n, piece) in ["T u128:340282366920938463463374607431768211455", "T i128:-170141183460469231731687303715884105728", "T x:6162",
            "T s:0:40:3", "T v 2 u64:18446744073709551615 u64:18446744073709551615", "T t 2 i8:-1 S:0:39:1", "T u8:0", "T S:3:41:9"].iter().enumerate() {
            let (k, j) = if (n + d) % 3 == 0 { (buf / 3 + 1, 2) } else { (0, 0) };
            let mut steps = vec![format!("0 N {} {}", k, j), format!("0 T s:0:{}:{}", buf.saturating_sub(d), d), format!("0 {}", piece)];
            match (n + d) % 4 {
                0 => steps.push("0 F".into()),
                1 => steps.push("0 W u8:7".into()),
                2 => {
                    steps.push("0 C 10".into());
                    steps.push("0 T i8:-100".into());
                }
                _ => {}
            }
            g.mcase(&steps);
            st.bump("m_trait_fill_boundary");
        }
    }
    for (n, len) in [buf.saturating_sub(1), buf, buf + 1, 2 * buf, 2 * buf + 1, 3 * buf + 7].iter().enumerate() {
        g.mcase(&["0 N 0 0".to_string(), format!("0 T s:0:{}:{}", len, n), "0 T u8:5".into(), "0 F".into(), format!("0 T S:1:{}:{}", len, n + 1)]);
        g.mcase(&["0 N 7 3".to_string(), "0 T x:61".into(), format!("0 T S:0:{}:{}", len, n), "0 C 66".into()]);
        st.add("m_trait_big_string", 2);
    }
    // (8b') a writer with pending bytes is leaked (`mem::forget`), the next writer — same slot or another — starts from scratch
    for (n, pend) in ["W x:6c6f7374", "T x:6c6f7374", "T u64:18446744073709551615", "C 33"].iter().enumerate() {
        for next in 0..2usize {
            g.mcase(&["0 N 0 0".to_string(), format!("0 {}", pend), "0 LK".into(), format!("{} N {} 0", next, n), format!("{} T x:6e6577", next), format!("{} W i8:-1", next)]);
            st.bump("m_leaked_then_new");
        }
    }
    // (8e) a writer holding pending bytes is dropped WHILE THE THREAD IS UNWINDING from a panic: by the unwinding itself (DU) or by a
    //      scope guard's destructor that runs during it (DG); pending via the trait method (both builds) or an inherent call (buffered
    //      build), every sink kind, pieces small / at the fill boundary / larger than the buffer, after a flush, after a move, with a
    //      second writer alive, and a whole writer life (create, write, drop) right after another writer's unwinding drop
    let u_pend: Vec<String> = vec![
        "T x:616e73776572".into(), "W x:616e73776572".into(), "T i64:-9223372036854775808".into(), "C 10".into(), "L 2 i64:-7 x:6c6f67".into(),
        "T v 3 u8:1 u8:2 u8:3".into(), format!("T s:0:{}:1", buf.saturating_sub(1)), format!("T s:0:{}:2", buf), format!("W s:1:{}:3", buf + 5),
        "T t 2 x:746f74616c i64:-9223372036854775808".into(),
    ];
    for (pi, pend) in u_pend.iter().enumerate() {
        for (si, (sk, sj)) in [(0usize, 0usize), (1, 0), (0, 2), (3, 2), (buf / 3 + 1, 3)].iter().enumerate() {
            for variant in 0..6usize {
                if !thorough && (pi + si + variant) % 2 != 0 {
                    continue;
                }
                let du = if (pi + si + variant / 2) % 2 == 0 { "DU" } else { "DG" };
                let mut steps: Vec<String> = vec![format!("0 N {} {}", sk, sj)];
                match variant {
                    0 => steps.push(format!("0 {}", pend)),
                    1 => {
                        steps.push("0 W x:686561640a".into());
                        steps.push("0 F".into());
                        steps.push(format!("0 {}", pend));
                        steps.push("0 T x:0a".into());
                    }
                    2 => {
                        steps.push(format!("0 {}", pend));
                        steps.push("0 MV".into());
                        steps.push("0 T u8:0".into());
                    }
                    3 => {
                        steps.push("1 N 0 0".into());
                        steps.push("1 T x:6c6f67".into());
                        steps.push(format!("0 {}", pend));
                    }
                    4 => {
                        steps.push(format!("0 {}", pend));
                        steps.push(format!("0 {}", du));
                        steps.push(format!("0 N {} {}", sk, sj)); // a complete life right after
                        steps.push("0 T x:746f74616c".into());
                        steps.push("0 T x:20".into());
                        steps.push(format!("0 {}", pend));
                    }
                    _ => {
                        steps.push(format!("0 T s:0:{}:{}", buf.saturating_sub(pi + 1), si));
                        steps.push(format!("0 {}", pend));
                    }
                }
                steps.push(format!("0 {}", du));
                if variant == 3 {
                    steps.push("1 T x:0a".into());
                    steps.push(format!("1 {}", if du == "DU" { "DG" } else { "DU" }));
                }
                g.mcase(&steps);
                st.bump("m_drop_while_unwinding");
            }
        }
    }
    // (8c) a Writer and a Reader alive together: the reader has buffered unread input while the writer writes, the writer has
    //      pending bytes while the reader refills
    for i in 0..(if thorough { 2000 } else { 120 }) {
        let (text, reads) = reader_plan(rng, mags);
        let rc = *rng.pick(&[0usize, 0, 1, 2, 3, 5, 64]);
        let mut steps: Vec<String> = Vec::new();
        let writer_first = i % 2 == 0;
        if writer_first {
            steps.push("0 N 0 0".into());
            steps.push(format!("0 {}", if i % 4 == 0 { "T x:70656e64" } else { "W x:70656e64" }));
        }
        steps.push(format!("1 RN {} {}", rc, text));
        if !writer_first {
            steps.push(format!("1 {}", reads[0]));
            steps.push("0 N 1 2".into());
        }
        for (n, r) in reads.iter().enumerate().skip(if writer_first { 0 } else { 1 }) {
            steps.push(format!("0 {}", small_call(rng, buf, mags, st)));
            steps.push(format!("1 {}", r));
            if n % 3 == 2 {
                steps.push(format!("{} MV", n % 2));
            }
        }
        steps.push("0 F".into());
        steps.push("1 RE".into());
        if i % 3 == 0 {
            steps.push("1 D".into());
            steps.push("0 T x:656e64".into());
        }
        g.mcase(&steps);
        st.bump("m_writer_and_reader");
    }
    // (8d) random interleavings of 2..6 objects
    let n_rand = if thorough { 30000 } else { 900 };
    for _ in 0..n_rand {
        let mut steps: Vec<String> = Vec::new();
        // 0 none, 1 writer, 2 reader (+ its remaining reads)
        let mut kind = [0u8; SLOTS];
        let mut reads: Vec<Vec<String>> = vec![Vec::new(); SLOTS];
        let nsteps = 6 + rng.below(24) as usize;
        let max_live = 2 + rng.below(5) as usize;
        let mut writers_seen = 0usize;
        for stp in 0..nsteps {
            let live: Vec<usize> = (0..SLOTS).filter(|k| kind[*k] != 0).collect();
            let want_new = live.len() < 2 || (live.len() < max_live && rng.chance(1, 6));
            if want_new {
                let free: Vec<usize> = (0..SLOTS).filter(|k| kind[*k] == 0).collect();
                let k = *rng.pick(&free);
                if writers_seen > 0 && rng.chance(1, 4) {
                    let (text, rs) = reader_plan(rng, mags);
                    steps.push(format!("{} RN {} {}", k, rng.pick(&[0usize, 1, 2, 3, 7, 64]), text));
                    kind[k] = 2;
                    reads[k] = rs;
                    st.bump("m_new_reader");
                } else {
                    let (sk, sj) = rand_sink(rng, buf);
                    steps.push(format!("{} N {} {}", k, sk, sj));
                    kind[k] = 1;
                    writers_seen += 1;
                    st.bump("m_new_writer");
                    if stp < 3 && rng.chance(1, 12) {
                        // steer this writer's fill level close to the boundary
                        steps.push(format!("{} {} s:0:{}:{}", k, if rng.chance(1, 2) { "T" } else { "W" }, buf.saturating_sub(rng.below(46) as usize), rng.below(50)));
                        st.bump("m_steered");
                    }
                }
                continue;
            }
            let k = *rng.pick(&live);
            match rng.below(20) {
                0 => {
                    // every third drop happens while the thread is unwinding (no extra random draw)
                    let how = ["D", "DU", "D", "DG", "D", "D"][(stp + k) % 6];
                    steps.push(format!("{} {}", k, how));
                    kind[k] = 0;
                    reads[k].clear();
                    st.bump(if how == "D" { "m_drop" } else { "m_drop_unwinding_random" });
                }
                1 => {
                    steps.push(format!("{} MV", k));
                    st.bump("m_move");
                }
                2 if rng.chance(1, 3) => {
                    steps.push(format!("{} LK", k));
                    kind[k] = 0;
                    reads[k].clear();
                    st.bump("m_leak");
                }
                _ => {
                    if kind[k] == 1 {
                        steps.push(format!("{} {}", k, small_call(rng, buf, mags, st)));
                    } else {
                        let r = if reads[k].is_empty() { "RE".to_string() } else { reads[k].remove(0) };
                        steps.push(format!("{} {}", k, r));
                        st.bump("m_read");
                    }
                }
            }
        }
        st.bump(&format!("m_random_live_at_end_{}", (0..SLOTS).filter(|k| kind[*k] != 0).count()));
        g.mcase(&steps);
        st.bump("m_random");
    }
}

fn gen(args: &Args, emit: &mut dyn FnMut(String), st: &mut Stats) {
    let thorough = args.tier == "thorough";
    let buf: usize = args.extra.get("buf").and_then(|s| s.parse().ok()).expect("--buf <BUF_SIZE> is required");
    assert!(buf >= 1, "BUF_SIZE must be positive");
    let profile = args.extra.get("profile").cloned().unwrap_or_else(|| "release".into());
    let dbg_build = profile == "debug";
    let mut rng = SplitMix64::new(args.seed ^ 0xC09 ^ if dbg_build { 0x5555 } else { 0 });
    let mags = boundary_mags();
    let mut g = Gen { buf, dbg: if dbg_build { "1" } else { "0" }, emit, tally: Default::default() };

    // (1) every boundary value of every integer type, alone and in sequences ---------------------
    for ty in TYPES.iter() {
        let bv = boundary_vals(ty, &mags);
        for v in &bv {
            g.case(0, 0, true, 0, &[format!("W {}", v)]);
            st.bump("int_boundary_single");
        }
        for ch in bv.chunks(7) {
            let n = ch.len();
            g.case(0, 0, true, 5, &[format!("W v {} {}", n, ch.join(" "))]);
            if (2..=8).contains(&n) {
                g.case(3, 2, true, 2, &[format!("W t {} {}", n, ch.join(" "))]);
            }
            if n <= MAX_OUT_ARITY {
                g.case(0, 0, true, 1, &[format!("L {} {}", n, ch.join(" "))]);
            }
            st.bump("int_boundary_seq");
        }
    }
    // exhaustive 8-bit (and 16-bit in the thorough tier), 64 values per vector
    {
        let mut all: Vec<(usize, i64)> = Vec::new();
        for v in -128..=127i64 {
            all.push((0, v));
        }
        for v in 0..=255i64 {
            all.push((1, v));
        }
        if thorough {
            for v in -32768..=32767i64 {
                all.push((2, v));
            }
            for v in 0..=65535i64 {
                all.push((3, v));
            }
        }
        let mut i = 0;
        while i < all.len() {
            let t = all[i].0;
            let mut xs = Vec::new();
            while i < all.len() && all[i].0 == t && xs.len() < 64 {
                xs.push(format!("{}:{}", TYPES[t].0, all[i].1));
                i += 1;
            }
            st.add("int_exhaustive_values", xs.len() as u64);
            g.case(0, 0, true, 0, &[format!("W v {} {}", xs.len(), xs.join(" "))]);
        }
    }

    // (2) fill level steered to BUF-45 ..= BUF, then one interesting write -------------------------
    let interesting: Vec<String> = {
        let mut v: Vec<String> = vec![
            "W u8:0", "W u8:255", "W i8:-128", "W u16:65535", "W i16:-32768", "W u32:4294967295", "W i32:-2147483648",
            "W u64:18446744073709551615", "W i64:-9223372036854775808", "W usize:18446744073709551615",
            "W isize:-9223372036854775808", "W u128:340282366920938463463374607431768211455",
            "W i128:-170141183460469231731687303715884105728", "W i128:170141183460469231731687303715884105727",
            "W u128:100000000000000000000000000000000000000", "W u128:99999999999999999999999999999999999999",
            "C 65", "C 10", "W v 3 i8:-1 u8:0 u64:12345678901234567890", "W t 3 i8:-7 s:0:5:1 u64:18446744073709551615",
            "W v 2 u128:340282366920938463463374607431768211455 u128:340282366920938463463374607431768211455",
            "O 3 i32:-1 s:0:40:9 u16:7", "L 2 u64:18446744073709551615 i64:-1", "L 0",
        ]
        .into_iter()
        .map(String::from)
        .collect();
        for len in [0usize, 1, 2, 38, 39, 40, 44, 45, 46] {
            v.push(format!("W s:0:{}:{}", len, len));
            v.push(format!("W S:1:{}:{}", len, len + 1));
        }
        v
    };
    let dstep = if dbg_build { 9 } else { 1 };
    let mut d = 0usize;
    while d <= 45 {
        for (n, it) in interesting.iter().enumerate() {
            let pre = format!("W s:0:{}:{}", buf.saturating_sub(d), d);
            let tail = match (n + d) % 4 {
                0 => vec![pre, it.clone()],
                1 => vec![pre, it.clone(), "F".to_string()],
                2 => vec![pre, it.clone(), "W u64:18446744073709551615".to_string()],
                _ => vec![pre, it.clone(), "F".to_string(), "W i8:-100".to_string()],
            };
            let (k, j) = if (n + d) % 7 == 0 { (buf / 3 + 1, 2) } else { (0, 0) };
            g.case(k, j, false, 0, &tail);
            st.bump("fill_boundary");
        }
        // pieces whose length is exactly the room left, one less, one more
        for delta in [-1i64, 0, 1] {
            let l = d as i64 + delta;
            if l >= 0 {
                g.case(0, 0, false, 0, &[format!("W s:0:{}:{}", buf.saturating_sub(d), d), format!("W s:0:{}:3", l), "C 33".to_string()]);
                st.bump("fill_boundary_exact_room");
            }
        }
        d += dstep;
    }

    // (2b) the tail is delivered by `Drop` alone (no flush after the last write), under every sink kind ---------
    //      (an optimised build keeps the tail in the buffer until the drop; `Drop` must use `write_all` semantics)
    for (si, &(k0, j)) in [(0usize, 0usize), (1, 0), (3, 0), (usize::MAX, 0), (0, 2), (0, 3), (1, 2), (5, 3), (usize::MAX, 2)].iter().enumerate() {
        for (ti, &tail) in [1usize, 2, 7, 40, 1000, buf.saturating_sub(1), buf].iter().enumerate() {
            let k = if k0 == usize::MAX { tail / 2 + 1 } else { k0 };
            for prefix in 0..3 {
                let mut ops: Vec<String> = Vec::new();
                match prefix {
                    1 => {
                        ops.push(format!("W s:0:{}:{}", 10 + ti, si));
                        ops.push("F".to_string());
                    }
                    2 => ops.push(format!("W s:1:{}:{}", buf + 5 + si, ti)), // spills: one flush from `reserve`, rest stays pending
                    _ => {}
                }
                match (si + ti + prefix) % 3 {
                    0 => ops.push(format!("W s:0:{}:{}", tail, si + ti)),
                    1 => {
                        ops.push(format!("L 2 i64:-7 s:0:{}:{}", tail, ti));
                        ops.push("W u8:9".to_string());
                    }
                    _ => {
                        ops.push(format!("W v 3 u16:40 i8:-7 S:0:{}:{}", tail, si));
                        ops.push("C 33".to_string());
                    }
                }
                g.case(k, j, false, 0, &ops);
                st.bump(&format!("drop_tail_dedicated_sink_{}", sink_kind(k, j)));
            }
        }
    }

    // (2c) a multi-byte piece ends exactly on the buffer boundary (fill level = BUF), the next call is `write_char`
    //      — directly, or as the separator of a Vec / tuple / out! / the newline of outln! ------------------------
    {
        let u64max = "u64:18446744073709551615"; // 20 bytes
        let u128max = "u128:340282366920938463463374607431768211455"; // 39 bytes
        let scripts: Vec<Vec<String>> = vec![
            vec![format!("W s:0:{}:1", buf), "C 65".into()],
            vec![format!("W S:1:{}:2", buf), "C 10".into(), "W i8:-1".into()],
            vec![format!("W s:0:{}:3", buf.saturating_sub(20)), format!("W {}", u64max), "C 32".into()],
            vec![format!("W s:0:{}:4", buf.saturating_sub(39)), format!("W {}", u128max), "C 10".into(), "F".into()],
            vec![format!("W s:0:{}:5", buf.saturating_sub(40)), format!("W i128:-170141183460469231731687303715884105728"), "C 33".into()],
            vec![format!("W s:0:{}:6", buf.saturating_sub(2)), "W v 2 u8:12 u8:3".into()],
            vec![format!("W s:0:{}:7", buf.saturating_sub(2)), "W t 2 x:6162 u8:1".into()],
            vec![format!("W s:0:{}:8", buf.saturating_sub(20)), format!("W v 3 {} {} {}", u64max, u64max, u64max)],
            vec![format!("L 1 s:0:{}:9", buf)],
            vec![format!("O 2 s:0:{}:10 u8:5", buf), "F".into()],
            vec![format!("W s:0:{}:11", buf.saturating_sub(3)), "L 2 u8:100 i8:-5".into()],
            vec![format!("W s:0:{}:12", 2 * buf), "C 65".into()],
            vec![format!("W s:0:{}:13", buf.saturating_sub(5)), "W x:68656c6c6f".into(), "C 32".into(), "W x:68656c6c6f".into()],
            vec![format!("W s:0:{}:14", buf.saturating_sub(1)), "C 65".into(), "C 66".into(), "C 67".into()],
        ];
        for (n, ops) in scripts.iter().enumerate() {
            for &(k, j) in [(0usize, 0usize), (1, 0), (buf / 3 + 1, 2), (0, 3)].iter() {
                if dbg_build && (k, j) != (0, 0) && n % 2 == 1 {
                    continue;
                }
                g.case(k, j, false, 0, ops);
                st.bump("full_buffer_then_char");
            }
        }
    }

    // (3) string pieces around the buffer size, at several fill levels -----------------------------
    let big = [buf.saturating_sub(1), buf, buf + 1, 2 * buf, 2 * buf + 1, 3 * buf + 7];
    let fills = [0usize, 1, 39, buf.saturating_sub(40), buf.saturating_sub(1), buf];
    for (a, &len) in big.iter().enumerate() {
        for (b, &fill) in fills.iter().enumerate() {
            if !thorough && (a + b) % 2 == 1 {
                continue;
            }
            let kind = (a + b) % 3;
            let tag = if (a + b) % 2 == 0 { "s" } else { "S" };
            let mut ops = Vec::new();
            if fill > 0 {
                ops.push(format!("W s:0:{}:{}", fill, fill % 50));
            }
            ops.push(format!("W {}:{}:{}:{}", tag, kind, len, a * 7 + b));
            if b % 2 == 0 {
                ops.push("W i32:-42".to_string());
            }
            let (k, j) = match (a + 2 * b) % 5 {
                0 => (1, 0),
                1 => (buf.saturating_sub(1), 3),
                2 => (7, 2),
                _ => (0, 0),
            };
            g.case(k, j, false, 0, &ops);
            st.bump("big_string");
        }
    }

    // (4) random scripts --------------------------------------------------------------------------
    let n_random = if thorough { 90000 } else { 1800 };
    for _ in 0..n_random {
        let nops = 1 + rng.below(10) as usize;
        let mut ops = Vec::new();
        let steer = !dbg_build && rng.chance(1, 6);
        if steer {
            // steer the fill level close to the boundary first
            ops.push(format!("W s:0:{}:{}", buf.saturating_sub(rng.below(46) as usize), rng.below(50)));
            st.bump("random_steered");
        }
        for _ in 0..nops {
            match rng.below(12) {
                0 => {
                    ops.push("F".to_string());
                    st.bump("op_flush");
                }
                1 | 2 => {
                    let c = match rng.below(8) {
                        0 => 32,
                        1 => 10,
                        2 => 0,
                        3 => 127,
                        _ => 33 + rng.below(94),
                    };
                    ops.push(format!("C {}", c));
                    st.bump("op_char");
                }
                3 | 4 => {
                    let n = rng.below(MAX_OUT_ARITY as u64 + 1) as usize;
                    let ln = rng.chance(1, 2) || n == 0;
                    let xs: Vec<String> = (0..n).map(|_| rand_val(&mut rng, buf, 2, false, false, &mags, st)).collect();
                    ops.push(format!("{} {} {}", if ln { "L" } else { "O" }, n, xs.join(" ")).trim_end().to_string());
                    st.bump("op_out");
                }
                _ => {
                    let allow_big = rng.chance(1, 8);
                    ops.push(format!("W {}", rand_val(&mut rng, buf, 3, false, allow_big, &mags, st)));
                    st.bump("op_write");
                }
            }
        }
        let (k, j) = rand_sink(&mut rng, buf);
        g.case(k, j, rng.chance(1, 4), rng.below(9) as usize, &ops);
        st.bump("random_script");
    }

    // (5) round-trip scripts: lines of readable values ------------------------------------------------
    let n_rt = if thorough { 50000 } else { 1500 };
    for _ in 0..n_rt {
        let nops = 1 + rng.below(6) as usize;
        let mut ops = Vec::new();
        for _ in 0..nops {
            match rng.below(4) {
                0 => {
                    ops.push(format!("W {}", rand_val(&mut rng, buf, 2, true, false, &mags, st)));
                    ops.push(format!("C {}", rng.pick(&[32u32, 10, 9, 13, 12])));
                }
                _ => {
                    let n = rng.below(MAX_OUT_ARITY as u64 + 1) as usize;
                    let xs: Vec<String> = (0..n).map(|_| rand_val(&mut rng, buf, 2, true, false, &mags, st)).collect();
                    ops.push(format!("L {} {}", n, xs.join(" ")).trim_end().to_string());
                }
            }
            if rng.chance(1, 10) {
                ops.push("F".to_string());
            }
        }
        let (k, j) = rand_sink(&mut rng, buf);
        let rc = *rng.pick(&[0usize, 1, 2, 3, 4, 5, 6, 7, 64, 4095]);
        g.case(k, j, true, rc, &ops);
        st.bump("roundtrip_script");
    }
    // a few long round trips (several reader buffers)
    for i in 0..(if thorough { 40 } else { 6 }) {
        let n = 30000 + 1000 * i;
        let xs: Vec<String> = (0..6).map(|_| rand_int(&mut rng, &mags)).collect();
        let mut ops = Vec::new();
        for r in 0..(n / 1000) {
            ops.push(format!("L 6 {}", xs.join(" ")));
            if r % 7 == 3 {
                ops.push(format!("L 1 s:0:{}:{}", 3000 + r, r));
            }
        }
        g.case(0, 0, true, [0usize, 1, 4095, 65536][i % 4], &ops);
        st.bump("roundtrip_long");
    }

    // (7) `r` lines: values read back through the real Reader, printed and compared with the Reader model run on the
    //     Writer model's sink --------------------------------------------------------------------------------------
    for t in 0..12usize {
        // tuples of every arity (read with `read::<($t,…)>()` when alt) and vectors (`read_vec::<$t>(n)`) of boundary values
        for n in 2..=8usize {
            let xs: Vec<String> = with_bv(t, &mags, |bv| (0..n).map(|_| rng.pick(bv).clone()).collect());
            let rc = *rng.pick(&RCS);
            g.rcase(rc, n % 4 != 1, &[format!("L 1 t {} {}", n, xs.join(" "))]);
            st.bump("rb_tuple");
        }
        for n in [1usize, 2, 3, 5, 9, 17] {
            let xs: Vec<String> = with_bv(t, &mags, |bv| (0..n).map(|_| rng.pick(bv).clone()).collect());
            let rc = *rng.pick(&RCS);
            g.rcase(rc, n != 5, &[format!("W v {} {}", n, xs.join(" ")), format!("C {}", rng.pick(&[32u32, 10, 9, 13, 12]))]);
            st.bump("rb_vec");
        }
    }
    let n_rb = if thorough { 20000 } else { 500 };
    for _ in 0..n_rb {
        let nops = 1 + rng.below(5) as usize;
        let mut ops = Vec::new();
        let val = |rng: &mut SplitMix64, st: &mut Stats| -> String {
            if rng.chance(1, 6) {
                // a one-byte word (read back as `char` when alt)
                st.bump("rb_one_byte_word");
                format!("x:{:02x}", non_ws_ascii(rng.below(123)))
            } else {
                // ASCII words only (pattern kind 2 is non-ASCII: outside the read-back domain)
                loop {
                    let v = rand_val(rng, buf, 2, true, false, &mags, st);
                    if !v.contains(":2:") && !v.contains(":4:") {
                        return v;
                    }
                }
            }
        };
        for _ in 0..nops {
            match rng.below(4) {
                0 => {
                    ops.push(format!("W {}", val(&mut rng, st)));
                    ops.push(format!("C {}", rng.pick(&[32u32, 10, 9, 13, 12])));
                }
                1 => {
                    let n = 1 + rng.below(MAX_OUT_ARITY as u64) as usize;
                    let xs: Vec<String> = (0..n).map(|_| val(&mut rng, st)).collect();
                    ops.push(format!("O {} {}", n, xs.join(" ")));
                    ops.push(format!("C {}", rng.pick(&[32u32, 10, 9, 13, 12])));
                }
                _ => {
                    let n = rng.below(MAX_OUT_ARITY as u64 + 1) as usize;
                    let xs: Vec<String> = (0..n).map(|_| val(&mut rng, st)).collect();
                    ops.push(format!("L {} {}", n, xs.join(" ")).trim_end().to_string());
                }
            }
            if rng.chance(1, 10) {
                ops.push("F".to_string());
            }
        }
        let rc = *rng.pick(&RCS);
        g.rcase(rc, rng.chance(1, 2), &ops);
        st.bump("rb_script");
    }
    // longer than two reader buffers
    for i in 0..(if thorough { 8 } else { 1 }) {
        let xs: Vec<String> = (0..6).map(|_| rand_int(&mut rng, &mags)).collect();
        let ops = vec![
            format!("L 6 {}", xs.join(" ")),
            format!("L 2 s:0:{}:{} {}", 70000 + 13 * i, i, xs[0]),
            format!("W t 6 {}", xs.join(" ")),
            "C 10".to_string(),
            format!("L 1 S:0:{}:{}", 65536 + i, i + 1),
        ];
        g.rcase([4095usize, 0, 1, 65536][i % 4], i % 2 == 0, &ops);
        st.bump("rb_long");
    }

    // (5b) every ASCII byte that is not whitespace — NUL, the other control characters, DEL — inside words that are written and
    //      read back (`w` lines: compared with the value written; `r` lines: the values read are printed): alone, at the start,
    //      in the middle and at the end of a word, as `&str` / `String`, in a Vec, a tuple, `out!` and `outln!`
    for x in 0..123u64 {
        let b = non_ws_ascii(x);
        let words = [format!("{:02x}", b), format!("{:02x}61", b), format!("61{:02x}62", b), format!("6162{:02x}", b), format!("{:02x}{:02x}", b, b)];
        let w = &words[(x % 5) as usize];
        let rc = RCS[(x % 10) as usize];
        g.case(0, 0, true, rc, &[format!("W x:{}", words[0]), "C 10".into(), format!("L 3 X:{} i8:-1 x:{}", w, words[2])]);
        g.rcase(rc, x % 2 == 0, &[format!("L 2 x:{} X:{}", words[0], w), format!("W v 2 x:{} x:{}", words[2], words[3]), "C 32".into(),
            format!("O 1 t 2 u8:7 X:{}", words[4])]);
        st.bump("ascii_byte_roundtrip");
    }
    for i in 0..(if thorough { 400 } else { 40 }) {
        // long words made of all 123 bytes
        let len = *rng.pick(&[123usize, 124, 246, 1000, 4096, 65535, 65536, 65537]);
        let rc = RCS[i % 10];
        g.case(0, 0, true, rc, &[format!("L 2 s:3:{}:{} S:3:{}:{}", len, i, 1 + i % 200, i + 1)]);
        g.rcase(rc, i % 2 == 0, &[format!("L 2 s:3:{}:{} S:3:{}:{}", len, i, 1 + i % 200, i + 1)]);
        st.bump("ascii_byte_roundtrip_long");
    }
    // strings of every UTF-8 character length (every byte value a `String` can hold), at fill levels around the boundary
    for i in 0..(if thorough { 300 } else { 40 }) {
        let len = *rng.pick(&[1usize, 2, 3, 4, 5, 37, 100, 1000, 5000]);
        let fill = *rng.pick(&[0usize, 1, buf.saturating_sub(3), buf.saturating_sub(2), buf.saturating_sub(1), buf]);
        let (k, j) = rand_sink(&mut rng, buf);
        let mut ops = Vec::new();
        if fill > 0 {
            ops.push(format!("W s:0:{}:{}", fill, i));
        }
        ops.push(format!("W {}:4:{}:{}", if i % 2 == 0 { "s" } else { "S" }, len, rng.below(100000)));
        ops.push("C 126".into());
        g.case(k, j, false, 0, &ops);
        st.bump("utf8_all_lengths");
    }

    // (8) `m` lines: several live objects on one thread ------------------------------------------------------------------
    gen_multi(&mut g, &mut rng, thorough, &mags, st);

    // (9) `c` lines: characters written with `write_char`, read back with `read::<char>()` — every ASCII code, NUL/control/DEL
    //     and the five whitespace characters included (whitespace is skipped by the reader, so it separates nothing here)
    {
        let all: Vec<u32> = (0..128).collect();
        for (n, ch) in all.chunks(16).enumerate() {
            let ops: Vec<String> = ch.iter().map(|c| format!("C {}", c)).collect();
            g.ccase(RCS[n % 10], 0, 0, &ops);
            st.bump("char_roundtrip_exhaustive");
        }
        for c in 0..128u32 {
            g.ccase(RCS[(c % 10) as usize], 0, 0, &[format!("C {}", c), "C 32".into(), format!("C {}", 127 - c), format!("C {}", c)]);
            st.bump("char_roundtrip_exhaustive");
        }
        for _ in 0..(if thorough { 3000 } else { 60 }) {
            let n = 1 + rng.below(40) as usize;
            let ops: Vec<String> = (0..n).map(|_| format!("C {}", match rng.below(6) { 0 => 0, 1 => *rng.pick(&[9u64, 10, 12, 13, 32, 11]), _ => rng.below(128) })).collect();
            let (k, j) = rand_sink(&mut rng, buf);
            g.ccase(*rng.pick(&RCS), k, j, &ops);
            st.bump("char_roundtrip_random");
        }
        // a buffer's worth of characters (the reader refills several times)
        for i in 0..(if thorough { 6 } else { 1 }) {
            let n = buf + 3 + i;
            let ops: Vec<String> = (0..n).map(|x| format!("C {}", (x * 7 + i) % 128)).collect();
            g.ccase(RCS[5 + i % 5], 0, 0, &ops);
            st.bump("char_roundtrip_long");
        }
    }

    // (6) out of the property's domain (non-ASCII characters are truncated by `c as u8`) --------------
    for c in [128u32, 233, 255, 256, 0x20AC, 0x1F600] {
        g.case(0, 0, false, 0, &[format!("C {}", c), "W u8:7".to_string()]);
        st.bump("out_of_domain_char");
    }
    for (k, v) in std::mem::take(&mut g.tally) {
        st.add(&k, v);
    }
}

/// `e_writer probe`: observe the buffer size differentially — feed single characters to a fresh writer until the sink
/// receives its first `write_all`; in an optimised build the length of that first delivery is the fill level at which the
/// writer has to flush, i.e. its buffer size (a flush-per-write build reports 1). Prints one JSON line.
fn probe() {
    let sizes = Rc::new(RefCell::new(Vec::<usize>::new()));
    struct Rec(Rc<RefCell<Vec<usize>>>);
    impl Write for Rec {
        fn write(&mut self, buf: &[u8]) -> io::Result<usize> {
            Ok(buf.len())
        }
        fn write_all(&mut self, buf: &[u8]) -> io::Result<()> {
            self.0.borrow_mut().push(buf.len());
            Ok(())
        }
        fn flush(&mut self) -> io::Result<()> {
            Ok(())
        }
    }
    let limit: usize = 1 << 26;
    let sz = sizes.clone();
    let r = catch(move || {
        let mut w = Writer::new(Box::new(Rec(sz.clone())));
        let mut n = 0usize;
        while n < limit && sz.borrow().is_empty() {
            w.write_char('a');
            n += 1;
        }
        let first = sz.borrow().first().copied();
        std::mem::forget(w);
        (n, first)
    });
    match r {
        Ok((n, Some(first))) => println!("{{\"first_delivery_len\":{},\"chars_written\":{},\"debug_assertions\":{}}}", first, n, cfg!(debug_assertions)),
        Ok((n, None)) => println!("{{\"first_delivery_len\":null,\"chars_written\":{},\"debug_assertions\":{}}}", n, cfg!(debug_assertions)),
        Err(p) => println!("{{\"first_delivery_len\":null,\"panic\":\"{}\"}}", p),
    }
}

fn main() {
    if std::env::args().nth(1).as_deref() == Some("probe") {
        install_quiet_panic_hook();
        probe();
        return;
    }
    cli(gen, run_case);
}
