//! Correspondence harness for engine `rand` (property C14): drives rlib_rand
//! (`Randomable::gen_from_u64` of every range form, `Rng::from_seed/next_raw/next`, `Rand::shuffle`).
//!
//! Sub-commands: `gen`, `run` (line protocol, see docs/ENGINE_GUIDE.md) and `stat` (the statistical
//! part of C14 — TESTING, not proof: permutation frequencies of `shuffle`, period scan of `next(0..m)`).
#[path = "../../common/mod.rs"]
mod common;
use common::*;
use rlib_rand::lcg::LinearCongruentialGenerator64;
use rlib_rand::randomable::Randomable;
use rlib_rand::{Rand, Rng};
use std::ops::RangeFull;

// ------------------------------------------------------------------------------------------------
// the integer types
// ------------------------------------------------------------------------------------------------

trait Ty: Copy {
    const MIN128: i128;
    const MAX128: i128;
    fn from128(x: i128) -> Self;
    fn to128(self) -> i128;
    /// `range.gen_from_u64(raw)` (may panic)
    fn draw(form: &str, a: Self, b: Self, raw: u64) -> Self;
    /// `g.next(range)` (may panic)
    fn next<G: Rand>(g: &mut G, form: &str, a: Self, b: Self) -> Self;
}

macro_rules! impl_ty {
    ($($t:ty),*) => {$(
        impl Ty for $t {
            const MIN128: i128 = <$t>::MIN as i128;
            const MAX128: i128 = <$t>::MAX as i128;
            fn from128(x: i128) -> Self { x as $t }
            fn to128(self) -> i128 { self as i128 }
            fn draw(form: &str, a: Self, b: Self, raw: u64) -> Self {
                match form {
                    "range" => (a..b).gen_from_u64(raw),
                    "incl" => (a..=b).gen_from_u64(raw),
                    "to" => (..b).gen_from_u64(raw),
                    "toincl" => (..=b).gen_from_u64(raw),
                    "full" => <RangeFull as Randomable<$t>>::gen_from_u64(.., raw),
                    _ => panic!("bad-form"),
                }
            }
            fn next<G: Rand>(g: &mut G, form: &str, a: Self, b: Self) -> Self {
                match form {
                    "range" => g.next(a..b),
                    "incl" => g.next(a..=b),
                    "to" => g.next(..b),
                    "toincl" => g.next(..=b),
                    "full" => g.next::<$t, RangeFull>(..),
                    _ => panic!("bad-form"),
                }
            }
        }
    )*};
}
impl_ty!(i8, u8, i16, u16, i32, u32, i64, u64, isize, usize);

const TYPES: [&str; 10] = ["i8", "u8", "i16", "u16", "i32", "u32", "i64", "u64", "isize", "usize"];
const FORMS: [&str; 5] = ["range", "incl", "to", "toincl", "full"];

macro_rules! with_ty {
    ($ty:expr, $f:ident, $($args:expr),*) => {
        match $ty {
            "i8" => $f::<i8>($($args),*),
            "u8" => $f::<u8>($($args),*),
            "i16" => $f::<i16>($($args),*),
            "u16" => $f::<u16>($($args),*),
            "i32" => $f::<i32>($($args),*),
            "u32" => $f::<u32>($($args),*),
            "i64" => $f::<i64>($($args),*),
            "u64" => $f::<u64>($($args),*),
            "isize" => $f::<isize>($($args),*),
            "usize" => $f::<usize>($($args),*),
            _ => "I bad-type | V bad-type".to_string(),
        }
    };
}

fn ty_bounds(ty: &str) -> (i128, i128) {
    match ty {
        "i8" => (i8::MIN as i128, i8::MAX as i128),
        "u8" => (0, u8::MAX as i128),
        "i16" => (i16::MIN as i128, i16::MAX as i128),
        "u16" => (0, u16::MAX as i128),
        "i32" => (i32::MIN as i128, i32::MAX as i128),
        "u32" => (0, u32::MAX as i128),
        "i64" | "isize" => (i64::MIN as i128, i64::MAX as i128),
        "u64" | "usize" => (0, u64::MAX as i128),
        _ => unreachable!(),
    }
}

/// Independent oracle: the set of values the range denotes, `[lo, hi]` (empty iff lo > hi).
fn form_bounds(form: &str, a: i128, b: i128, min: i128, max: i128) -> (i128, i128) {
    match form {
        "range" => (a, b - 1),
        "incl" => (a, b),
        "to" => (0, b - 1),
        "toincl" => (0, b),
        _ => (min, max),
    }
}

fn class_int(r: &Result<i128, String>, lo: i128, hi: i128) -> String {
    match r {
        Err(e) => e.clone(),
        Ok(v) => {
            if lo <= *v && *v <= hi {
                "in".into()
            } else {
                "out".into()
            }
        }
    }
}

fn first_bad(cs: &[String]) -> String {
    cs.iter().find(|c| c.as_str() != "in").cloned().unwrap_or_else(|| "in".to_string())
}

const INVALID: &str = "I INVALID | V INVALID";

fn show_res(r: &Result<i128, String>) -> String {
    match r {
        Ok(v) => v.to_string(),
        Err(e) => e.clone(),
    }
}

fn run_gen<T: Ty>(form: &str, a: i128, b: i128, raws: &[u64]) -> String {
    if raws.is_empty() {
        return INVALID.into();
    }
    let (lo, hi) = form_bounds(form, a, b, T::MIN128, T::MAX128);
    let (ta, tb) = (T::from128(a), T::from128(b));
    let rs: Vec<Result<i128, String>> =
        raws.iter().map(|&raw| catch(|| T::draw(form, ta, tb, raw).to_128())).collect();
    let raw_s: Vec<String> = rs.iter().map(show_res).collect();
    let cls: Vec<String> = rs.iter().map(|r| class_int(r, lo, hi)).collect();
    out2(&raw_s.join(","), &first_bad(&cls))
}

trait To128 {
    fn to_128(self) -> i128;
}
impl<T: Ty> To128 for T {
    fn to_128(self) -> i128 {
        self.to128()
    }
}

fn run_cover<T: Ty>(form: &str, a: i128, b: i128, base: u64) -> String {
    let (lo, hi) = form_bounds(form, a, b, T::MIN128, T::MAX128);
    if hi < lo || hi - lo >= 65536 {
        return INVALID.into();
    }
    let n = (hi - lo + 1) as u64;
    if (base as u128) + (n as u128) > (1u128 << 64) {
        return INVALID.into();
    }
    let (ta, tb) = (T::from128(a), T::from128(b));
    let mut seen = vec![false; n as usize];
    let mut distinct = 0u64;
    let mut produced = 0u64;
    let mut sum: i128 = 0;
    for k in 0..n {
        let raw = base.wrapping_add(k); // base + k < 2^64 except for the very last step bound, checked above
        if let Ok(v) = catch(|| T::draw(form, ta, tb, raw).to_128()) {
            produced += 1;
            sum += v;
            if lo <= v && v <= hi {
                let idx = (v - lo) as usize;
                if !seen[idx] {
                    seen[idx] = true;
                    distinct += 1;
                }
            }
        }
    }
    let onto = produced == n && distinct == n;
    out2(&format!("distinct={} sum={}", distinct, sum), if onto { "onto" } else { "notonto" })
}

fn run_draws<T: Ty>(form: &str, a: i128, b: i128, seed: u64, n: usize) -> String {
    let (lo, hi) = form_bounds(form, a, b, T::MIN128, T::MAX128);
    let (ta, tb) = (T::from128(a), T::from128(b));
    let mut g = Rng::from_seed(seed);
    let mut vals = Vec::with_capacity(n);
    for _ in 0..n {
        match catch(|| T::next(&mut g, form, ta, tb).to_128()) {
            Ok(v) => vals.push(v),
            Err(e) => return out1(&e),
        }
    }
    let cls: Vec<String> = vals.iter().map(|v| class_int(&Ok(*v), lo, hi)).collect();
    let raw_s: Vec<String> = vals.iter().map(|v| v.to_string()).collect();
    out2(&raw_s.join(","), &first_bad(&cls))
}

fn run_period<T: Ty>(m: i128, seed: u64, n: usize, p: usize) -> String {
    if p == 0 || n < p + 64 || m < 1 || m > T::MAX128 {
        return INVALID.into();
    }
    let mut g = Rng::from_seed(seed);
    let tb = T::from128(m);
    let mut vals = Vec::with_capacity(n);
    for _ in 0..n {
        match catch(|| T::next(&mut g, "range", T::from128(0), tb).to_128()) {
            Ok(v) => vals.push(v),
            Err(e) => return out1(&e),
        }
    }
    let periodic = (0..n - p).all(|i| vals[i] == vals[i + p]);
    let raw_s: Vec<String> = vals.iter().map(|v| v.to_string()).collect();
    // a constant sequence is the only possibility for m = 1: not a defect of the generator
    let view = if m == 1 || !periodic { "aperiodic" } else { "periodic" };
    out2(&raw_s.join(","), view)
}

/// A generator that replays a given list of raw words through the trait's own `next`/`shuffle`.
struct Replay {
    raws: Vec<u64>,
    pos: usize,
}
impl Rand for Replay {
    fn next<T, R>(&mut self, range: R) -> T
    where
        R: Randomable<T>,
    {
        let r = self.raws[self.pos];
        self.pos += 1;
        range.gen_from_u64(r)
    }
}

fn is_perm_of_range(v: &[usize], n: usize) -> bool {
    if v.len() != n {
        return false;
    }
    let mut seen = vec![false; n];
    for &x in v {
        if x >= n || seen[x] {
            return false;
        }
        seen[x] = true;
    }
    true
}

fn show_list(v: &[usize]) -> String {
    let s: Vec<String> = v.iter().map(|x| x.to_string()).collect();
    format!("[{}]", s.join(","))
}

fn parse_u64s(ops: &[&str]) -> Option<Vec<u64>> {
    ops.iter().map(|t| t.trim().parse::<u64>().ok()).collect()
}


// ------------------------------------------------------------------------------------------------
// `multi`: several live generators used interleaved, copied through every entry point Rust offers
// ------------------------------------------------------------------------------------------------

/// method-call syntax on the CONCRETE generator type (an inherent method of the same name would win here,
/// while generic `R: Rand` code keeps calling the trait's)
macro_rules! direct_next {
    ($g:expr, $t:ty, $form:expr, $a:expr, $b:expr) => {{
        let (a, b) = ($a as $t, $b as $t);
        let r: $t = match $form {
            "range" => $g.next(a..b),
            "incl" => $g.next(a..=b),
            "to" => $g.next(..b),
            "toincl" => $g.next(..=b),
            "full" => $g.next::<$t, RangeFull>(..),
            _ => panic!("bad-form"),
        };
        r as i128
    }};
}

/// what the harness needs from a generator type; implemented for EVERY const instantiation of the crate's LCG
trait Gn: Rand + Copy + Clone + 'static {
    fn seed(s: u64) -> Self;
    fn raw(&mut self) -> u64;
    fn next_direct(&mut self, ty: &str, form: &str, a: i128, b: i128) -> i128;
    fn nextf_direct(&mut self, s: f64, e: f64) -> f64;
    fn shuffle_direct<T>(&mut self, v: &mut [T]);
}

impl<const A: u64, const C: u64> Gn for LinearCongruentialGenerator64<A, C> {
    fn seed(s: u64) -> Self {
        Self::from_seed(s)
    }
    fn raw(&mut self) -> u64 {
        self.next_raw()
    }
    fn next_direct(&mut self, ty: &str, form: &str, a: i128, b: i128) -> i128 {
        match ty {
            "i8" => direct_next!(self, i8, form, a, b),
            "u8" => direct_next!(self, u8, form, a, b),
            "i16" => direct_next!(self, i16, form, a, b),
            "u16" => direct_next!(self, u16, form, a, b),
            "i32" => direct_next!(self, i32, form, a, b),
            "u32" => direct_next!(self, u32, form, a, b),
            "i64" => direct_next!(self, i64, form, a, b),
            "u64" => direct_next!(self, u64, form, a, b),
            "isize" => direct_next!(self, isize, form, a, b),
            "usize" => direct_next!(self, usize, form, a, b),
            _ => panic!("bad-type"),
        }
    }
    fn nextf_direct(&mut self, s: f64, e: f64) -> f64 {
        self.next(s..e)
    }
    fn shuffle_direct<T>(&mut self, v: &mut [T]) {
        self.shuffle(v)
    }
}

/// a generator of the harness's own that forwards `next` to the real one: its `shuffle` is the trait's DEFAULT body
struct Wrap<'a, R: Rand>(&'a mut R);
impl<'a, R: Rand> Rand for Wrap<'a, R> {
    fn next<T, Q>(&mut self, range: Q) -> T
    where
        Q: Randomable<T>,
    {
        self.0.next(range)
    }
}

fn next_generic<R: Rand, T: Ty>(r: &mut R, form: &str, a: i128, b: i128) -> i128 {
    T::next(r, form, T::from128(a), T::from128(b)).to128()
}
fn next_generic_dyn<R: Rand>(r: &mut R, ty: &str, form: &str, a: i128, b: i128) -> i128 {
    match ty {
        "i8" => next_generic::<R, i8>(r, form, a, b),
        "u8" => next_generic::<R, u8>(r, form, a, b),
        "i16" => next_generic::<R, i16>(r, form, a, b),
        "u16" => next_generic::<R, u16>(r, form, a, b),
        "i32" => next_generic::<R, i32>(r, form, a, b),
        "u32" => next_generic::<R, u32>(r, form, a, b),
        "i64" => next_generic::<R, i64>(r, form, a, b),
        "u64" => next_generic::<R, u64>(r, form, a, b),
        "isize" => next_generic::<R, isize>(r, form, a, b),
        "usize" => next_generic::<R, usize>(r, form, a, b),
        _ => panic!("bad-type"),
    }
}
fn nextf_generic<R: Rand>(r: &mut R, s: f64, e: f64) -> f64 {
    <R as Rand>::next(r, s..e)
}
fn shuffle_generic<R: Rand, T>(r: &mut R, v: &mut [T]) {
    <R as Rand>::shuffle(r, v)
}

/// one draw operation (what it consumed is a matter of the implementation; the oracle REPLAYS operations, it never counts words)
#[derive(Clone)]
enum Draw {
    Raw,
    Nx { recv: char, ty: String, form: String, a: i128, b: i128 },
    Nf { recv: char, s: f64, e: f64 },
    Sh { recv: char, elt: String, n: usize },
}

#[derive(Clone)]
struct Lineage {
    seed: u64,
    hist: Vec<Draw>,
}

const SHUFFLE_ELTS: [&str; 7] = ["usize", "u8", "str", "big", "zst", "boxed", "pair"];

fn do_shuffle<G: Gn, T>(g: &mut G, recv: char, v: &mut [T]) {
    match recv {
        'd' => g.shuffle_direct(v),
        'w' => Wrap(g).shuffle(v),
        _ => shuffle_generic(g, v),
    }
}

/// shuffle `n` elements of the given element type, tagged 0..n; returns the arrangement of the tags
fn shuffle_elts<G: Gn>(g: &mut G, recv: char, elt: &str, n: usize) -> Option<Vec<usize>> {
    match elt {
        "usize" => {
            let mut v: Vec<usize> = (0..n).collect();
            do_shuffle(g, recv, &mut v);
            Some(v)
        }
        "u8" => {
            let mut v: Vec<u8> = (0..n).map(|i| i as u8).collect();
            do_shuffle(g, recv, &mut v);
            Some(v.iter().map(|&x| x as usize).collect())
        }
        "str" => {
            let mut v: Vec<String> = (0..n).map(|i| format!("s{}", i)).collect();
            do_shuffle(g, recv, &mut v);
            Some(v.iter().map(|x| x[1..].parse::<usize>().unwrap_or(usize::MAX)).collect())
        }
        "big" => {
            let mut v: Vec<[u64; 16]> = (0..n)
                .map(|i| {
                    let mut e = [0u64; 16];
                    e[0] = i as u64;
                    e[15] = !(i as u64);
                    e
                })
                .collect();
            do_shuffle(g, recv, &mut v);
            Some(v.iter().map(|e| if e[15] == !e[0] && e[1..15].iter().all(|&x| x == 0) { e[0] as usize } else { usize::MAX }).collect())
        }
        "zst" => {
            let mut v: Vec<()> = vec![(); n];
            do_shuffle(g, recv, &mut v);
            if v.len() == n {
                None
            } else {
                Some(vec![usize::MAX])
            }
        }
        "boxed" => {
            let mut v: Vec<Box<usize>> = (0..n).map(Box::new).collect();
            do_shuffle(g, recv, &mut v);
            Some(v.iter().map(|x| **x).collect())
        }
        "pair" => {
            let mut v: Vec<(u32, String)> = (0..n).map(|i| (i as u32, i.to_string())).collect();
            do_shuffle(g, recv, &mut v);
            Some(v.iter().map(|(x, s)| if s.parse::<u32>().ok() == Some(*x) { *x as usize } else { usize::MAX }).collect())
        }
        _ => Some(vec![usize::MAX]),
    }
}

/// apply a draw: (observation, class, expected class). `canonical`: through generic `R: Rand` code whatever the
/// receiver of the operation was (`w` stays: the default body is part of what is replayed)
fn apply_draw<G: Gn>(g: &mut G, d: &Draw, canonical: bool) -> (String, String, String) {
    let rc = |r: char| if canonical && r == 'd' { 'g' } else { r };
    match d {
        Draw::Raw => (g.raw().to_string(), "ok".into(), "ok".into()),
        Draw::Nx { recv, ty, form, a, b } => {
            let (min, max) = ty_bounds(ty);
            let (lo, hi) = form_bounds(form, *a, *b, min, max);
            let r = match rc(*recv) {
                'd' => catch(|| g.next_direct(ty, form, *a, *b)),
                'w' => catch(|| next_generic_dyn(&mut Wrap(g), ty, form, *a, *b)),
                _ => catch(|| next_generic_dyn(g, ty, form, *a, *b)),
            };
            (show_res(&r), class_int(&r, lo, hi), if lo <= hi { "in".into() } else { "panic:assert".into() })
        }
        Draw::Nf { recv, s, e } => {
            let r = match rc(*recv) {
                'd' => catch(|| g.nextf_direct(*s, *e)),
                'w' => catch(|| nextf_generic(&mut Wrap(g), *s, *e)),
                _ => catch(|| nextf_generic(g, *s, *e)),
            };
            let want = if *s < *e { "in" } else { "panic:assert" };
            match r {
                Ok(x) => (format!("{:016x}", x.to_bits()), if *s <= x && x < *e { "in".into() } else { "out".into() }, want.into()),
                Err(p) => (p.clone(), p, want.into()),
            }
        }
        Draw::Sh { recv, elt, n } => match catch(|| shuffle_elts(g, rc(*recv), elt, *n)) {
            Err(p) => (p.clone(), p, "perm".into()),
            Ok(None) => (format!("zst{}", n), "perm".into(), "perm".into()),
            Ok(Some(v)) => (show_list(&v), if is_perm_of_range(&v, *n) { "perm".into() } else { "notperm".into() }, "perm".into()),
        },
    }
}

#[derive(Clone)]
#[allow(dead_code)]
struct Holder<G> {
    tag: String,
    rng: G,
    picks: Vec<usize>,
}
#[derive(Clone)]
enum Either<G> {
    Gen(G),
    #[allow(dead_code)]
    Other(u8),
}
#[derive(Clone)]
struct Nested<G> {
    inner: Holder<G>,
    more: [G; 2],
    opt: Option<G>,
}
fn dup_generic<T: Clone>(t: &T) -> T {
    t.clone()
}
fn pass_by_value<T>(t: T) -> T {
    t
}

/// bit copies first, then everything that goes through `Clone::clone` / `Clone::clone_from`
const COPY_KINDS: [&str; 34] = [
    "copy", "deref", "cell", "byvalue", "optcopied", "itercopied", "clone", "ufcs", "generic", "toowned", "clonefrom", "clonefromused",
    "struct", "structfrom", "enum", "nested", "nestedarr", "nestedopt", "tuple", "option", "optcloned", "array", "boxed", "rc", "rcmakemut",
    "arcunwrap", "cow", "vec", "vecmacro", "resize", "repeat", "refcell", "itercloned", "tovec",
];

#[allow(clippy::clone_on_copy)]
fn copy_via<G: Gn>(kind: &str, a: &G) -> Option<G> {
    use std::borrow::Cow;
    use std::cell::{Cell, RefCell};
    use std::rc::Rc;
    use std::sync::Arc;
    let holder = |g: G| Holder { tag: "holder".to_string(), rng: g, picks: vec![1, 2, 3] };
    Some(match kind {
        "copy" => {
            let b = *a;
            b
        }
        "deref" => {
            let r = &a;
            **r
        }
        "cell" => Cell::new(*a).get(),
        "byvalue" => pass_by_value(*a),
        "optcopied" => Some(a).copied()?,
        "itercopied" => [*a].iter().copied().next()?,
        "clone" => a.clone(),
        "ufcs" => Clone::clone(a),
        "generic" => dup_generic(a),
        "toowned" => a.to_owned(),
        "clonefrom" => {
            let mut b = G::seed(0x5eed);
            b.clone_from(a);
            b
        }
        "clonefromused" => {
            let mut b = G::seed(7);
            b.raw();
            b.raw();
            b.clone_from(a);
            b
        }
        "struct" => holder(*a).clone().rng,
        "structfrom" => {
            let src = holder(*a);
            let mut dst = holder(G::seed(1));
            dst.rng.raw();
            dst.clone_from(&src);
            dst.rng
        }
        "enum" => match Either::Gen(*a).clone() {
            Either::Gen(g) => g,
            Either::Other(_) => return None,
        },
        "nested" => Nested { inner: holder(*a), more: [*a, *a], opt: Some(*a) }.clone().inner.rng,
        "nestedarr" => Nested { inner: holder(*a), more: [*a, *a], opt: Some(*a) }.clone().more[1],
        "nestedopt" => Nested { inner: holder(*a), more: [*a, *a], opt: Some(*a) }.clone().opt?,
        "tuple" => (*a, 1u8, "t".to_string()).clone().0,
        "option" => Some(*a).clone()?,
        "optcloned" => Some(a).cloned()?,
        "array" => [*a, *a, *a].clone()[1],
        "boxed" => *Box::new(*a).clone(),
        "rc" => {
            let r = Rc::new(*a);
            (*r).clone()
        }
        "rcmakemut" => {
            let mut r = Rc::new(*a);
            let _keep = Rc::clone(&r);
            *Rc::make_mut(&mut r)
        }
        "arcunwrap" => {
            let r = Arc::new(*a);
            let _keep = Arc::clone(&r);
            Arc::unwrap_or_clone(r)
        }
        "cow" => Cow::Borrowed(a).into_owned(),
        "vec" => vec![*a, *a].clone()[1],
        "vecmacro" => vec![*a; 3][0],
        "resize" => {
            let mut v: Vec<G> = Vec::new();
            v.resize(3, *a);
            v[0]
        }
        "repeat" => std::iter::repeat(*a).take(2).last()?,
        "refcell" => RefCell::new(*a).clone().into_inner(),
        "itercloned" => [*a].iter().cloned().next()?,
        "tovec" => [*a, *a][..].to_vec()[1],
        _ => return None,
    })
}

const ASSIGN_KINDS: [&str; 6] = ["assign", "clonefrom", "clone", "replace", "swap", "ufcsfrom"];

#[allow(clippy::clone_on_copy)]
fn assign_via<G: Gn>(kind: &str, dst: &mut G, src: &G) -> bool {
    match kind {
        "assign" => *dst = *src,
        "clonefrom" => dst.clone_from(src),
        "clone" => *dst = src.clone(),
        "replace" => {
            let _old = std::mem::replace(dst, *src);
        }
        "swap" => {
            let mut t = *src;
            std::mem::swap(dst, &mut t);
        }
        "ufcsfrom" => Clone::clone_from(dst, src),
        _ => return false,
    }
    true
}

const ALL_KINDS: [&str; 9] = ["vec", "tovec", "iter", "extend", "boxed", "clonefrom", "copied", "holders", "array"];

#[allow(clippy::clone_on_copy)]
fn copy_all<G: Gn>(kind: &str, v: &Vec<G>) -> Option<Vec<G>> {
    Some(match kind {
        "vec" => v.clone(),
        "tovec" => v[..].to_vec(),
        "iter" => v.iter().cloned().collect(),
        "extend" => {
            let mut w = Vec::new();
            w.extend_from_slice(v);
            w
        }
        "boxed" => v.clone().into_boxed_slice().clone().into_vec(),
        "clonefrom" => {
            // into a used vector of another length
            let mut w = vec![G::seed(3), G::seed(4), G::seed(5)];
            w[0].raw();
            w.clone_from(v);
            w
        }
        "copied" => v.iter().copied().collect(),
        "holders" => {
            let hs: Vec<Holder<G>> = v.iter().map(|g| Holder { tag: "h".to_string(), rng: *g, picks: vec![] }).collect();
            hs.clone().into_iter().map(|h| h.rng).collect()
        }
        "array" => {
            // fixed-size arrays of generators (chunks of 2, the odd one out alone)
            let mut w = Vec::new();
            for ch in v.chunks(2) {
                if ch.len() == 2 {
                    let arr = [ch[0], ch[1]];
                    w.extend_from_slice(&arr.clone());
                } else {
                    let arr = [ch[0]];
                    w.extend_from_slice(&arr.clone());
                }
            }
            w
        }
        _ => return None,
    })
}

const DUP_ALL_CAP: usize = 6;

fn recv_of(s: Option<&&str>) -> Option<char> {
    match s {
        Some(&"d") => Some('d'),
        Some(&"g") => Some('g'),
        Some(&"w") => Some('w'),
        _ => None,
    }
}

fn run_multi<G: Gn>(seed_toks: &[&str], ops: &[&str]) -> String {
    let bad = || "I bad-op | V bad-op".to_string();
    let seeds: Option<Vec<u64>> = seed_toks.iter().map(|t| t.parse::<u64>().ok()).collect();
    let seeds = match seeds {
        Some(s) => s,
        None => return bad(),
    };
    if seeds.is_empty() || seeds.len() > 8 || ops.len() > 64 {
        return INVALID.into();
    }
    let mut slots: Vec<(G, Lineage)> = seeds.iter().map(|&s| (G::seed(s), Lineage { seed: s, hist: vec![] })).collect();
    let mut obs: Vec<String> = Vec::new();
    let mut view: Option<String> = None;
    let slot_tok = |t: Option<&&str>| -> Option<usize> { t.and_then(|x| x.parse::<u64>().ok()).filter(|&x| x < (1u64 << 32)).map(|x| x as usize) };
    for (k, op) in ops.iter().enumerate() {
        let t: Vec<&str> = op.split_whitespace().collect();
        if t.is_empty() {
            return bad();
        }
        let hd: Vec<&str> = t[0].split(':').collect();
        let len = slots.len();
        // a draw from one generator
        let draw: Option<(usize, Draw)> = match (hd[0], hd.len(), t.len()) {
            ("raw", 1, 2) | ("fork", 1, 2) => match slot_tok(t.get(1)) {
                Some(i) => Some((i, Draw::Raw)),
                None => return bad(),
            },
            ("nx", 3, 5) => {
                let (recv, a, b, i) = match (recv_of(hd.get(1)), t[2].parse::<i128>().ok(), t[3].parse::<i128>().ok(), slot_tok(t.get(4))) {
                    (Some(r), Some(a), Some(b), Some(i)) => (r, a, b, i),
                    _ => return bad(),
                };
                if !TYPES.contains(&hd[2]) || !FORMS.contains(&t[1]) {
                    return bad();
                }
                let (min, max) = ty_bounds(hd[2]);
                let fits = |x: i128| min <= x && x <= max;
                let typed = match t[1] {
                    "range" | "incl" => fits(a) && fits(b),
                    "to" | "toincl" => fits(b),
                    _ => true,
                };
                if !typed {
                    // bounds that are not values of the type cannot be written in Rust: outside the domain (driver: S any)
                    return INVALID.into();
                }
                Some((i, Draw::Nx { recv, ty: hd[2].to_string(), form: t[1].to_string(), a, b }))
            }
            ("nf", 2, 4) => {
                let (recv, s, e, i) = match (
                    recv_of(hd.get(1)),
                    u64::from_str_radix(t[1], 16).ok(),
                    u64::from_str_radix(t[2], 16).ok(),
                    slot_tok(t.get(3)),
                ) {
                    (Some(r), Some(s), Some(e), Some(i)) => (r, s, e, i),
                    _ => return bad(),
                };
                Some((i, Draw::Nf { recv, s: f64::from_bits(s), e: f64::from_bits(e) }))
            }
            ("sh", 3, 3) => {
                let (recv, n, i) = match (recv_of(hd.get(1)), t[1].parse::<usize>().ok(), slot_tok(t.get(2))) {
                    (Some(r), Some(n), Some(i)) => (r, n, i),
                    _ => return bad(),
                };
                if n > 4096 || (hd[2] == "u8" && n > 256) {
                    return bad();
                }
                if !SHUFFLE_ELTS.contains(&hd[2]) {
                    return bad();
                }
                Some((i, Draw::Sh { recv, elt: hd[2].to_string(), n }))
            }
            _ => None,
        };
        if let Some((i, d)) = draw {
            let i = i % len;
            let (o, class, want) = apply_draw(&mut slots[i].0, &d, false);
            // the oracle: a fresh generator from the seed of this generator's lineage, bit copies only, the same
            // operations replayed through generic code, must observe the same
            let lin = &slots[i].1;
            let mut fresh = G::seed(lin.seed);
            for h in &lin.hist {
                let _ = apply_draw(&mut fresh, h, true);
            }
            let (o2, _, _) = apply_draw(&mut fresh, &d, true);
            if view.is_none() {
                if class != want {
                    view = Some(format!("op{}:{}", k, class));
                } else if o != o2 {
                    view = Some(format!("op{}:nondet", k));
                }
            }
            slots[i].1.hist.push(d);
            if hd[0] == "fork" {
                // a returned word is fed back as a seed
                match o.parse::<u64>() {
                    Ok(w) => slots.push((G::seed(w), Lineage { seed: w, hist: vec![] })),
                    Err(_) => return bad(),
                }
            }
            obs.push(o);
            continue;
        }
        match (hd[0], hd.len(), t.len()) {
            ("new", 1, 2) => match t[1].parse::<u64>() {
                Ok(s) => slots.push((G::seed(s), Lineage { seed: s, hist: vec![] })),
                Err(_) => return bad(),
            },
            ("cp", 2, 2) => {
                let i = match slot_tok(t.get(1)) {
                    Some(i) => i % len,
                    None => return bad(),
                };
                let src = slots[i].0;
                match catch(|| copy_via(hd[1], &src)) {
                    Ok(Some(c)) => {
                        let lin = slots[i].1.clone();
                        slots.push((c, lin));
                    }
                    Ok(None) => return bad(),
                    Err(p) => {
                        if view.is_none() {
                            view = Some(format!("op{}:{}", k, p));
                        }
                        let lin = slots[i].1.clone();
                        slots.push((src, lin));
                    }
                }
            }
            ("as", 2, 3) => {
                let (i, j) = match (slot_tok(t.get(1)), slot_tok(t.get(2))) {
                    (Some(i), Some(j)) => (i % len, j % len),
                    _ => return bad(),
                };
                let src = slots[i].0;
                let lin = slots[i].1.clone();
                let mut dst = slots[j].0;
                match catch(|| assign_via(hd[1], &mut dst, &src)) {
                    Ok(true) => {}
                    Ok(false) => return bad(),
                    Err(p) => {
                        if view.is_none() {
                            view = Some(format!("op{}:{}", k, p));
                        }
                    }
                }
                // `dst` is a bit copy of slot j taken above; write it back the same way
                slots[j] = (dst, lin);
            }
            ("all", 2, 1) => {
                let gens: Vec<G> = slots.iter().map(|s| s.0).collect();
                let copies = match catch(|| copy_all(hd[1], &gens)) {
                    Ok(Some(c)) if c.len() == gens.len() => c,
                    Ok(Some(_)) => {
                        if view.is_none() {
                            view = Some(format!("op{}:lost-generators", k));
                        }
                        gens.clone()
                    }
                    Ok(None) => return bad(),
                    Err(p) => {
                        if view.is_none() {
                            view = Some(format!("op{}:{}", k, p));
                        }
                        gens.clone()
                    }
                };
                let lins: Vec<Lineage> = slots.iter().map(|s| s.1.clone()).collect();
                if len <= DUP_ALL_CAP {
                    for (c, l) in copies.into_iter().zip(lins) {
                        slots.push((c, l));
                    }
                } else {
                    slots = copies.into_iter().zip(lins).collect();
                }
            }
            _ => return bad(),
        }
        obs.push("-".to_string());
    }
    out2(&obs.join("/"), view.as_deref().unwrap_or("ok"))
}

fn run_multi_line(toks: &[&str], ops: &[&str]) -> String {
    if toks.len() < 3 {
        return INVALID.into();
    }
    let seeds = &toks[3..];
    match (toks[1], toks[2]) {
        ("-", "-") => run_multi::<Rng>(seeds, ops),
        ("6364136223846793005", "1442695040888963407") => {
            run_multi::<LinearCongruentialGenerator64<6364136223846793005, 1442695040888963407>>(seeds, ops)
        }
        ("1", "1") => run_multi::<LinearCongruentialGenerator64<1, 1>>(seeds, ops),
        ("5", "3") => run_multi::<LinearCongruentialGenerator64<5, 3>>(seeds, ops),
        ("2862933555777941757", "3037000493") => run_multi::<LinearCongruentialGenerator64<2862933555777941757, 3037000493>>(seeds, ops),
        ("18446744073709551615", "18446744073709551615") => {
            run_multi::<LinearCongruentialGenerator64<18446744073709551615, 18446744073709551615>>(seeds, ops)
        }
        ("0", "0") => run_multi::<LinearCongruentialGenerator64<0, 0>>(seeds, ops),
        ("4294967297", "9223372036854775808") => run_multi::<LinearCongruentialGenerator64<4294967297, 9223372036854775808>>(seeds, ops),
        _ => INVALID.into(),
    }
}

const LCG_VARIANTS: [(&str, &str); 7] = [
    ("6364136223846793005", "1442695040888963407"),
    ("1", "1"),
    ("5", "3"),
    ("2862933555777941757", "3037000493"),
    ("18446744073709551615", "18446744073709551615"),
    ("0", "0"),
    ("4294967297", "9223372036854775808"),
];

fn run_case(line: &str) -> String {
    let parts: Vec<&str> = line.split(';').map(|p| p.trim()).collect();
    let toks: Vec<&str> = parts[0].split_whitespace().collect();
    if toks.is_empty() {
        return INVALID.into();
    }
    let ops = &parts[1..];
    let (op, ty) = match toks[0].split_once(':') {
        Some((o, t)) => (o, t),
        None => (toks[0], ""),
    };
    let int = |i: usize| -> Option<i128> { toks.get(i).and_then(|t| t.parse::<i128>().ok()) };
    match op {
        "gen" => {
            let (form, a, b) = match (toks.get(1), int(2), int(3)) {
                (Some(f), Some(a), Some(b)) => (*f, a, b),
                _ => return INVALID.into(),
            };
            let raws = match parse_u64s(ops) {
                Some(r) => r,
                None => return INVALID.into(),
            };
            with_ty!(ty, run_gen, form, a, b, &raws)
        }
        "cover" => {
            let (form, a, b, base) = match (toks.get(1), int(2), int(3), toks.get(4).and_then(|t| t.parse::<u64>().ok())) {
                (Some(f), Some(a), Some(b), Some(base)) => (*f, a, b, base),
                _ => return INVALID.into(),
            };
            with_ty!(ty, run_cover, form, a, b, base)
        }
        "float" => {
            let (sb, eb) = match (
                toks.get(1).and_then(|t| u64::from_str_radix(t, 16).ok()),
                toks.get(2).and_then(|t| u64::from_str_radix(t, 16).ok()),
            ) {
                (Some(s), Some(e)) => (s, e),
                _ => return INVALID.into(),
            };
            let raws = match parse_u64s(ops) {
                Some(r) if !r.is_empty() => r,
                _ => return INVALID.into(),
            };
            let (s, e) = (f64::from_bits(sb), f64::from_bits(eb));
            let mut raw_s = Vec::new();
            let mut cls = Vec::new();
            for &raw in &raws {
                match catch(|| (s..e).gen_from_u64(raw)) {
                    Ok(x) => {
                        raw_s.push(format!("{:016x}", x.to_bits()));
                        cls.push(if s <= x && x < e { "in".to_string() } else { "out".to_string() });
                    }
                    Err(p) => {
                        raw_s.push(p.clone());
                        cls.push(p);
                    }
                }
            }
            out2(&raw_s.join(","), &first_bad(&cls))
        }
        "fdraws" => {
            let (sb, eb, seed, n) = match (
                toks.get(1).and_then(|t| u64::from_str_radix(t, 16).ok()),
                toks.get(2).and_then(|t| u64::from_str_radix(t, 16).ok()),
                toks.get(3).and_then(|t| t.parse::<u64>().ok()),
                toks.get(4).and_then(|t| t.parse::<usize>().ok()),
            ) {
                (Some(s), Some(e), Some(seed), Some(n)) => (s, e, seed, n),
                _ => return INVALID.into(),
            };
            let (s, e) = (f64::from_bits(sb), f64::from_bits(eb));
            let mut g = Rng::from_seed(seed);
            let mut raw_s = Vec::new();
            let mut cls = Vec::new();
            for _ in 0..n {
                match catch(|| g.next(s..e)) {
                    Ok(x) => {
                        raw_s.push(format!("{:016x}", x.to_bits()));
                        cls.push(if s <= x && x < e { "in".to_string() } else { "out".to_string() });
                    }
                    Err(p) => return out1(&p),
                }
            }
            out2(&raw_s.join(","), &first_bad(&cls))
        }
        "stream" => {
            let (seed, n, k) = match (
                toks.get(1).and_then(|t| t.parse::<u64>().ok()),
                toks.get(2).and_then(|t| t.parse::<usize>().ok()),
                toks.get(3).and_then(|t| t.parse::<usize>().ok()),
            ) {
                (Some(s), Some(n), Some(k)) => (s, n, k.min(n)),
                _ => return INVALID.into(),
            };
            let mut g1 = Rng::from_seed(seed);
            let a: Vec<u64> = (0..n).map(|_| g1.next_raw()).collect();
            // a second generator from the same seed, and a Copy of it taken after k words
            let mut g2 = Rng::from_seed(seed);
            let mut b: Vec<u64> = (0..k).map(|_| g2.next_raw()).collect();
            let mut g3 = g2; // Copy
            let mut c = b.clone();
            for _ in k..n {
                b.push(g2.next_raw());
            }
            for _ in k..n {
                c.push(g3.next_raw());
            }
            let det = a == b && a == c;
            let s: Vec<String> = a.iter().map(|x| x.to_string()).collect();
            out2(&s.join(","), if det { "det" } else { "nondet" })
        }
        "draws" => {
            let (form, a, b, seed, n) = match (
                toks.get(1),
                int(2),
                int(3),
                toks.get(4).and_then(|t| t.parse::<u64>().ok()),
                toks.get(5).and_then(|t| t.parse::<usize>().ok()),
            ) {
                (Some(f), Some(a), Some(b), Some(s), Some(n)) => (*f, a, b, s, n),
                _ => return INVALID.into(),
            };
            with_ty!(ty, run_draws, form, a, b, seed, n)
        }
        "period" => {
            let (m, seed, n, p) = match (
                int(1),
                toks.get(2).and_then(|t| t.parse::<u64>().ok()),
                toks.get(3).and_then(|t| t.parse::<usize>().ok()),
                toks.get(4).and_then(|t| t.parse::<usize>().ok()),
            ) {
                (Some(m), Some(s), Some(n), Some(p)) => (m, s, n, p),
                _ => return INVALID.into(),
            };
            with_ty!(ty, run_period, m, seed, n, p)
        }
        "shuffle" => {
            let (seed, n) = match (
                toks.get(1).and_then(|t| t.parse::<u64>().ok()),
                toks.get(2).and_then(|t| t.parse::<usize>().ok()),
            ) {
                (Some(s), Some(n)) => (s, n),
                _ => return INVALID.into(),
            };
            let mut g = Rng::from_seed(seed);
            let mut v: Vec<usize> = (0..n).collect();
            match catch(|| g.shuffle(&mut v)) {
                Err(p) => out1(&p),
                Ok(()) => {
                    let nxt = g.next_raw();
                    out2(
                        &format!("{} next={}", show_list(&v), nxt),
                        if is_perm_of_range(&v, n) { "perm" } else { "notperm" },
                    )
                }
            }
        }
        "permstat" => {
            let (n, nseeds, seed0) = match (
                toks.get(1).and_then(|t| t.parse::<usize>().ok()),
                toks.get(2).and_then(|t| t.parse::<u64>().ok()),
                toks.get(3).and_then(|t| t.parse::<u64>().ok()),
            ) {
                (Some(n), Some(ns), Some(s0)) => (n, ns, s0),
                _ => return INVALID.into(),
            };
            if !(2..=7).contains(&n) || nseeds > 2_000_000 || seed0.checked_add(nseeds).is_none() {
                return INVALID.into();
            }
            let cells: u64 = (1..=n as u64).product();
            if nseeds < 20 * cells {
                return INVALID.into();
            }
            // `permstat:<elt>[-d|-w]`: the same statistic for slices of another element type / through another receiver
            // (the suffix means nothing to the model: `shuffle` is generic in the element type)
            let (elt, recv) = match ty {
                "" => ("", 'd'),
                t => {
                    let (e, r) = match t.split_once('-') {
                        Some((e, "d")) => (e, 'd'),
                        Some((e, "w")) => (e, 'w'),
                        Some(_) => return INVALID.into(),
                        None => (t, 'g'),
                    };
                    let e = if e == "bytes" { "u8" } else { e };
                    if !SHUFFLE_ELTS.contains(&e) || e == "zst" || e == "usize" || t.starts_with("u8") {
                        return INVALID.into();
                    }
                    (e, r)
                }
            };
            let st = perm_stat_elt(n, (0..nseeds).map(|i| seed0 + i), elt, recv);
            let fair = st.bad == 0 && st.reached == cells && st.s <= (CHI2_BOUND[n] as u128) * (nseeds as u128) * (cells as u128);
            out2(&format!("reached={} s={} bad={}", st.reached, st.s, st.bad), if fair { "fair" } else { "unfair" })
        }
        "shufall" => {
            // every draw vector (d_1..d_{n-1}), d_i in 0..=i, offset by mult*(i+1): each permutation exactly once
            let (n, mult) = match (
                toks.get(1).and_then(|t| t.parse::<usize>().ok()),
                toks.get(2).and_then(|t| t.parse::<u64>().ok()),
            ) {
                (Some(n), Some(m)) => (n, m),
                _ => return INVALID.into(),
            };
            if n > 8 || (mult as u128 + 1) * (n as u128 + 1) >= (1u128 << 64) {
                return INVALID.into();
            }
            let cells: usize = (1..=n).product();
            let mut counts = vec![0u64; cells];
            let mut bad = 0u64;
            perm_vectors(n, &mut |d: &[u64]| {
                let raws: Vec<u64> = d.iter().enumerate().map(|(k, &x)| x + mult * (k as u64 + 2)).collect();
                let mut g = Replay { raws, pos: 0 };
                let mut v: Vec<usize> = (0..n).collect();
                if catch(|| g.shuffle(&mut v)).is_err() || !is_perm_of_range(&v, n) {
                    bad += 1;
                } else {
                    counts[perm_index(&v)] += 1;
                }
            });
            let reached = counts.iter().filter(|&&c| c > 0).count();
            let maxc = counts.iter().max().copied().unwrap_or(0);
            let ok = bad == 0 && reached == cells && maxc == 1;
            out2(&format!("reached={} max={} bad={}", reached, maxc, bad), if ok { "all-once" } else { "not-bijective" })
        }
        "multi" => run_multi_line(&toks, ops),
        "shufraw" => {
            let n = match toks.get(1).and_then(|t| t.parse::<usize>().ok()) {
                Some(n) => n,
                None => return INVALID.into(),
            };
            let raws = match parse_u64s(ops) {
                Some(r) => r,
                None => return INVALID.into(),
            };
            if raws.len() + 1 < n {
                return INVALID.into();
            }
            let mut g = Replay { raws, pos: 0 };
            let mut v: Vec<usize> = (0..n).collect();
            match catch(|| g.shuffle(&mut v)) {
                Err(p) => out1(&p),
                Ok(()) => out2(&show_list(&v), if is_perm_of_range(&v, n) { "perm" } else { "notperm" }),
            }
        }
        _ => "I bad-op | V bad-op".to_string(),
    }
}

// ------------------------------------------------------------------------------------------------
// generators
// ------------------------------------------------------------------------------------------------

/// adversarial raw words for a range of `len` values (len in 1..=2^64)
fn adversarial_raws(len: u128, rng: &mut SplitMix64, rich: bool) -> Vec<u64> {
    let top: u128 = 1u128 << 64;
    let mut c: Vec<u128> = vec![0, 1, top - 1, 1u128 << 63, (1u128 << 53) - 1, (1u128 << 53) + 1];
    if len >= 1 {
        let kmax = (top - 1) / len;
        c.extend_from_slice(&[len - 1, len, len + 1, 2 * len - 1, kmax * len, kmax * len + 1]);
        if kmax * len >= 1 {
            c.push(kmax * len - 1);
        }
        let k = (rng.next_u64() as u128) % (kmax + 1);
        c.push(k * len);
        c.push(k * len + len - 1);
        if rich {
            c.extend_from_slice(&[2 * len, 2 * len + 1, k * len + 1]);
            if k * len >= 1 {
                c.push(k * len - 1);
            }
        }
    }
    c.push(rng.next_u64() as u128);
    if rich {
        c.extend_from_slice(&[
            top - 2,
            1u128 << 53,
            (1u128 << 63) - 1,
            (1u128 << 63) + 1,
            (1u128 << 32) - 1,
            1u128 << 32,
            (1u128 << 32) + 1,
            rng.next_u64() as u128,
            (rng.next_u64() >> rng.below(64)) as u128,
        ]);
    }
    let mut out: Vec<u64> = Vec::new();
    for x in c {
        if x < top {
            let x = x as u64;
            if !out.contains(&x) {
                out.push(x);
            }
        }
    }
    out
}

fn join_raws(raws: &[u64]) -> String {
    let s: Vec<String> = raws.iter().map(|r| r.to_string()).collect();
    s.join(" ; ")
}

fn emit_gen(emit: &mut dyn FnMut(String), st: &mut Stats, rng: &mut SplitMix64, ty: &str, form: &str, a: i128, b: i128, rich: bool, tag: &str) {
    let (min, max) = ty_bounds(ty);
    let (lo, hi) = form_bounds(form, a, b, min, max);
    let len: u128 = if hi >= lo { (hi - lo + 1) as u128 } else { 0 };
    let raws = adversarial_raws(len, rng, rich);
    st.bump(&format!("gen_{}", tag));
    st.bump(&format!("gen_form_{}", form));
    st.add("gen_draws", raws.len() as u64);
    if len == 0 {
        st.bump("gen_empty_range");
    } else if len == 1 {
        st.bump("gen_len_1");
    } else if len.is_power_of_two() {
        st.bump("gen_len_pow2");
    } else if len == (max - min) as u128 {
        st.bump("gen_len_max");
    }
    if len == (max - min) as u128 + 1 {
        st.bump("gen_len_full");
    }
    emit(format!("gen:{} {} {} {} ; {}", ty, form, a, b, join_raws(&raws)));
}

/// interesting f64 bit patterns
fn float_pool(rng: &mut SplitMix64) -> f64 {
    let specials: [f64; 30] = [
        0.0,
        -0.0,
        1.0,
        -1.0,
        0.5,
        2.0,
        1.0 + f64::EPSILON,
        1.0 - f64::EPSILON / 2.0,
        f64::MIN_POSITIVE,
        -f64::MIN_POSITIVE,
        5e-324,
        -5e-324,
        f64::MAX,
        f64::MIN,
        f64::MAX / 2.0,
        f64::MIN / 2.0,
        1e308,
        -1e308,
        1e-308,
        9007199254740992.0,
        9007199254740993.0,
        -9007199254740992.0,
        1e16,
        0.1,
        0.3,
        -0.1,
        3.0,
        1e-7,
        f64::INFINITY,
        f64::NEG_INFINITY,
    ];
    match rng.below(10) {
        0..=2 => *rng.pick(&specials),
        3 => f64::from_bits(rng.next_u64()), // any bit pattern, NaNs included
        4 => {
            // random sign/exponent, sparse mantissa
            let e = rng.below(2047);
            let m = 1u64 << rng.below(52);
            f64::from_bits((rng.below(2) << 63) | (e << 52) | (m & ((1 << 52) - 1)))
        }
        5 => (rng.range_i64(-1000, 1000) as f64) / 8.0,
        6 => rng.range_i64(-1_000_000_000, 1_000_000_000) as f64 * 1e-3,
        7 => {
            let e = rng.range_i64(-1074, 1023) as i32;
            let v = (2.0f64).powi(e);
            if rng.chance(1, 2) {
                -v
            } else {
                v
            }
        }
        8 if rng.chance(1, 4) => f64::NAN,
        _ => (rng.next_u64() >> 11) as f64 / (1u64 << 53) as f64 * 200.0 - 100.0,
    }
}

fn next_up(x: f64, steps: u64) -> f64 {
    // move `steps` representable numbers upwards (finite x)
    let mut b = x.to_bits() as i64;
    // map to a monotone integer line
    if b < 0 {
        b = i64::MIN - b;
    }
    b = b.saturating_add(steps as i64);
    let u = if b < 0 { (i64::MIN - b) as u64 } else { b as u64 };
    f64::from_bits(u)
}

fn float_raws(rng: &mut SplitMix64) -> Vec<u64> {
    let mut r = vec![
        0,
        1,
        (1 << 11) - 1,
        1 << 11,
        (1 << 53) - 1,
        (1 << 53) + 1,
        1 << 63,
        u64::MAX,
        u64::MAX - 1000,
        u64::MAX - (1 << 11),
        u64::MAX - (1 << 11) + 1,
        u64::MAX - (1 << 12),
        (1 << 63) - 1,
        (1u64 << 63) + (1 << 10),
        (1u64 << 63) + (1 << 11),
    ];
    for _ in 0..4 {
        r.push(rng.next_u64());
    }
    r.push(rng.next_u64() | (u64::MAX << 20)); // close to the top
    r.push(rng.next_u64() >> rng.below(64));
    r
}

fn perm_vectors(n: usize, f: &mut dyn FnMut(&[u64])) {
    // all draw vectors (d_1 .. d_{n-1}) with d_i in 0..=i
    fn rec(i: usize, n: usize, cur: &mut Vec<u64>, f: &mut dyn FnMut(&[u64])) {
        if i >= n {
            f(cur);
            return;
        }
        for d in 0..=i as u64 {
            cur.push(d);
            rec(i + 1, n, cur, f);
            cur.pop();
        }
    }
    let mut cur = Vec::new();
    rec(1, n, &mut cur, f);
}


/// `multi` lines: several generators alive at once, used interleaved; copies through every entry point; both the
/// original and the copy are drawn from afterwards (at the latest by the closing `raw` on every live generator)
fn gen_multi(emit: &mut dyn FnMut(String), st: &mut Stats, rng: &mut SplitMix64, thorough: bool) {
    let nlines = if thorough { 60_000 } else { 2_600 };
    let seed_pool: [u64; 8] = [0, 1, 42, u64::MAX, 1u64 << 63, 7, 0x9e3779b97f4a7c15, 0x5eed];
    // every kind of copy at least a few times per run, whatever the random choices below
    let mut forced: Vec<String> = Vec::new();
    for k in COPY_KINDS {
        forced.push(format!("cp:{}", k));
    }
    for k in ASSIGN_KINDS {
        forced.push(format!("as:{}", k));
    }
    for k in ALL_KINDS {
        forced.push(format!("all:{}", k));
    }
    for line_no in 0..nlines {
        let variant = if rng.chance(3, 4) { ("-", "-") } else { *rng.pick(&LCG_VARIANTS) };
        if variant.0 != "-" {
            st.bump("multi_other_const_params");
        }
        let nseeds = 1 + rng.below(3) as usize;
        let mut seeds: Vec<u64> = Vec::new();
        for _ in 0..nseeds {
            let s = match rng.below(4) {
                0 => *rng.pick(&seed_pool),
                1 if !seeds.is_empty() => seeds[0], // equal seeds side by side
                2 => rng.below(100),
                _ => rng.next_u64(),
            };
            seeds.push(s);
        }
        let mut live = seeds.len();
        let mut ops: Vec<String> = Vec::new();
        let cap = if rng.chance(1, 6) { 36 } else { 16 };
        let nops = 3 + rng.below(cap) as usize;
        // generators that were just copied / copied into: draw from them next
        let mut pending: Vec<usize> = Vec::new();
        let draw_op = |rng: &mut SplitMix64, st: &mut Stats, i: usize, big: bool| -> String {
            let recv = *rng.pick(&["d", "g", "g", "w"]);
            match rng.below(10) {
                0..=2 => {
                    st.bump("multi_op_raw");
                    format!("raw {}", i)
                }
                3..=5 => {
                    let ty = *rng.pick(&TYPES);
                    let form = *rng.pick(&FORMS);
                    let (min, max) = ty_bounds(ty);
                    let a = if form == "range" || form == "incl" {
                        match rng.below(4) {
                            0 => min,
                            1 => 0,
                            _ => (rng.range_i64(-100, 100) as i128).clamp(min, max - 1),
                        }
                    } else {
                        0
                    };
                    let b = match rng.below(5) {
                        0 => max,
                        1 => (a + 1 + rng.below(3) as i128).min(max),
                        2 if ty == "u64" && a < 1_000_000_007 => 1_000_000_007,
                        _ => (a + 1 + rng.below(1000) as i128).min(max),
                    };
                    let (a, b) = if form == "full" { (0, 0) } else { (a, b) };
                    st.bump("multi_op_next");
                    st.bump(&format!("multi_recv_{}", recv));
                    format!("nx:{}:{} {} {} {} {}", recv, ty, form, a, b, i)
                }
                6 => {
                    let (mut s, mut e) = (float_pool(rng), float_pool(rng));
                    if !(s < e) {
                        std::mem::swap(&mut s, &mut e);
                    }
                    if !(s < e) {
                        s = 0.0;
                        e = 1.0;
                    }
                    st.bump("multi_op_nextf");
                    format!("nf:{} {:016x} {:016x} {}", recv, s.to_bits(), e.to_bits(), i)
                }
                _ => {
                    let elt = *rng.pick(&SHUFFLE_ELTS);
                    let mut n = if big {
                        2000 + rng.below(2000) as usize
                    } else if rng.chance(1, 12) {
                        rng.below(200) as usize
                    } else {
                        rng.below(10) as usize
                    };
                    if elt == "u8" {
                        n = n.min(256);
                    }
                    st.bump("multi_op_shuffle");
                    st.bump(&format!("multi_shuffle_elt_{}", elt));
                    st.bump(&format!("multi_recv_{}", recv));
                    if n >= 2000 {
                        st.bump("multi_shuffle_big");
                    }
                    format!("sh:{}:{} {} {}", recv, elt, n, i)
                }
            }
        };
        // a few lines carry one big shuffle (sizes beyond small scope) before the copies
        let big_line = line_no % (if thorough { 1000 } else { 650 }) == 5;
        for k in 0..nops {
            if big_line && k == 0 {
                let elt = *rng.pick(&["usize", "str", "big", "zst", "boxed", "pair"]);
                let n = 2000 + rng.below(2000);
                st.bump("multi_shuffle_big");
                ops.push(format!("sh:{}:{} {} 0", *rng.pick(&["d", "g", "w"]), elt, n));
                pending.push(0);
                continue;
            }
            if let Some(i) = pending.pop() {
                if rng.chance(4, 5) {
                    ops.push(draw_op(rng, st, i, false));
                    continue;
                }
            }
            let i = rng.below(live as u64) as usize;
            let forced_now = if k == 1 + (line_no % 3) && !forced.is_empty() && line_no < 4 * 49 { Some(forced[line_no % forced.len()].clone()) } else { None };
            let choice = if forced_now.is_some() { 100 } else { rng.below(100) };
            match choice {
                0..=49 => ops.push(draw_op(rng, st, i, false)),
                50..=74 | 100 if forced_now.as_deref().map_or(true, |f| f.starts_with("cp:")) => {
                    let kind = match &forced_now {
                        Some(f) => f[3..].to_string(),
                        None => rng.pick(&COPY_KINDS).to_string(),
                    };
                    st.bump("multi_op_copy");
                    st.bump(&format!("multi_copy_{}", kind));
                    ops.push(format!("cp:{} {}", kind, i));
                    // draw from the copy and from the original, in either order
                    if rng.chance(1, 2) {
                        pending.push(i);
                        pending.push(live);
                    } else {
                        pending.push(live);
                        pending.push(i);
                    }
                    live += 1;
                }
                75..=84 | 100 if forced_now.as_deref().map_or(true, |f| f.starts_with("as:")) => {
                    let kind = match &forced_now {
                        Some(f) => f[3..].to_string(),
                        None => rng.pick(&ASSIGN_KINDS).to_string(),
                    };
                    let j = rng.below(live as u64) as usize;
                    st.bump("multi_op_assign");
                    st.bump(&format!("multi_assign_{}", kind));
                    if i == j {
                        st.bump("multi_assign_self");
                    }
                    ops.push(format!("as:{} {} {}", kind, i, j));
                    pending.push(i);
                    pending.push(j);
                }
                85..=89 | 100 => {
                    let kind = match &forced_now {
                        Some(f) => f[4..].to_string(),
                        None => rng.pick(&ALL_KINDS).to_string(),
                    };
                    st.bump("multi_op_copy_all");
                    st.bump(&format!("multi_all_{}", kind));
                    ops.push(format!("all:{}", kind));
                    if live <= DUP_ALL_CAP {
                        pending.push(i);
                        pending.push(live + i);
                        live *= 2;
                    } else {
                        pending.push(i);
                    }
                }
                90..=95 => {
                    st.bump("multi_op_fork");
                    ops.push(format!("fork {}", i));
                    pending.push(live);
                    live += 1;
                }
                _ => {
                    let s = if rng.chance(1, 2) { seeds[0] } else { rng.next_u64() };
                    st.bump("multi_op_new");
                    ops.push(format!("new {}", s));
                    pending.push(live);
                    live += 1;
                }
            }
        }
        // closing observation of every live generator (the first 16)
        for i in 0..live.min(16) {
            if ops.len() < 64 {
                ops.push(format!("raw {}", i));
            }
        }
        ops.truncate(64);
        st.bump("multi_lines");
        st.add("multi_ops", ops.len() as u64);
        if live >= 4 {
            st.bump("multi_lines_4plus_live_generators");
        }
        emit(format!("multi {} {} {} ; {}", variant.0, variant.1, seeds.iter().map(|x| x.to_string()).collect::<Vec<_>>().join(" "), ops.join(" ; ")));
    }
}

fn gen(args: &Args, emit: &mut dyn FnMut(String), st: &mut Stats) {
    let thorough = args.tier == "thorough";
    let mut rng = SplitMix64::new(args.seed ^ 0xC14);

    // (1) 8-bit types: every range (thorough) / boundary set + 1/16 sample (quick) x adversarial raws
    for ty in ["i8", "u8"] {
        let (min, max) = ty_bounds(ty);
        let boundary = |x: i128| x <= min + 1 || x >= max - 1 || (-2..=2).contains(&x) || x == 127 || x == 128;
        for form in ["range", "incl"] {
            for a in min..=max {
                for b in min..=max {
                    // empty ranges all behave alike (panic:assert): keep a sample of them only
                    let empty = if form == "range" { a >= b } else { a > b };
                    let keep = if empty {
                        (boundary(a) && boundary(b)) || rng.chance(1, 64)
                    } else {
                        thorough || (boundary(a) && boundary(b)) || rng.chance(1, 40)
                    };
                    if keep {
                        emit_gen(emit, st, &mut rng, ty, form, a, b, false, "8bit_sweep");
                    }
                }
            }
        }
        for form in ["to", "toincl"] {
            for b in min..=max {
                emit_gen(emit, st, &mut rng, ty, form, 0, b, true, "8bit_sweep");
            }
        }
        for _ in 0..8 {
            emit_gen(emit, st, &mut rng, ty, "full", 0, 0, true, "8bit_sweep");
        }
        // full: all raws 0..=255 and the top 256 words
        let lowraws: Vec<u64> = (0..256u64).collect();
        emit(format!("gen:{} full 0 0 ; {}", ty, join_raws(&lowraws)));
        let highraws: Vec<u64> = (0..256u64).map(|k| u64::MAX - k).collect();
        emit(format!("gen:{} full 0 0 ; {}", ty, join_raws(&highraws)));
        st.add("gen_draws", 512);
    }

    // (2) onto: every value of a range is produced (all raws base..base+len)
    for ty in ["i8", "u8"] {
        let (min, max) = ty_bounds(ty);
        for form in ["range", "incl"] {
            for a in min..=max {
                for b in a..=max {
                    if form == "range" && a == b {
                        continue;
                    }
                    if !(thorough || rng.chance(1, 80) || ((a == min || b == max) && rng.chance(1, 8))) {
                        continue;
                    }
                    let (lo, hi) = form_bounds(form, a, b, min, max);
                    let len = (hi - lo + 1) as u128;
                    let base: u64 = match rng.below(4) {
                        0 | 1 => 0,
                        2 => (((rng.next_u64() as u128) % (((1u128 << 64) - len) / len + 1)) * len) as u64,
                        _ => ((1u128 << 64) - len) as u64,
                    };
                    emit(format!("cover:{} {} {} {} {}", ty, form, a, b, base));
                    st.bump("cover_8bit");
                    st.add("cover_draws", len as u64);
                }
            }
        }
        for form in ["to", "toincl"] {
            for b in 1..=max {
                emit(format!("cover:{} {} 0 {} 0", ty, form, b));
                st.bump("cover_8bit");
            }
        }
        emit(format!("cover:{} full 0 0 0", ty));
        emit(format!("cover:{} full 0 0 {}", ty, u64::MAX - 255));
    }
    let n16 = if thorough { 300 } else { 16 };
    let wide_cap = if thorough { 65536 } else { 4096 };
    for ty in ["i16", "u16", "i32", "u32", "i64", "u64", "isize", "usize"] {
        let (min, max) = ty_bounds(ty);
        for _ in 0..n16 {
            let form = *rng.pick(&["range", "incl"]);
            let cap = if rng.chance(1, 4) { wide_cap } else { 600 };
            let len = 1 + rng.below(cap) as i128;
            let a = match rng.below(4) {
                0 => min,
                1 => max - len,
                2 => -(len / 2).min(-min),
                _ => min + ((rng.next_u64() as u128) % ((max - len - min) as u128 + 1)) as i128,
            };
            let a = a.max(min);
            let b = if form == "range" { a + len } else { a + len - 1 };
            let base = match rng.below(3) {
                0 => 0,
                1 => rng.next_u64() >> 1,
                _ => u64::MAX - len as u64 + 1,
            };
            emit(format!("cover:{} {} {} {} {}", ty, form, a, b, base));
            st.bump("cover_wide");
            st.add("cover_draws", len as u64);
        }
        if ty == "i16" || ty == "u16" {
            emit(format!("cover:{} full 0 0 0", ty));
            emit(format!("cover:{} incl {} {} {}", ty, min, max - 1, 65535));
            emit(format!("cover:{} incl {} {} {}", ty, min + 1, max, 1u64 << 40));
            st.add("cover_wide", 3);
        }
    }

    // (3) wider types: boundary lengths {1,2,3,2^k,2^k±1,MAX,full} x boundary starts
    for ty in ["i16", "u16", "i32", "u32", "i64", "u64", "isize", "usize"] {
        let (min, max) = ty_bounds(ty);
        let width = (max - min + 1) as u128; // 2^w
        let w = 128 - (width - 1).leading_zeros(); // bits
        let mut lens: Vec<u128> = vec![1, 2, 3, width - 1, width - 2, width];
        for k in 1..w {
            let p = 1u128 << k;
            lens.push(p);
            lens.push(p + 1);
            if p > 2 {
                lens.push(p - 1);
            }
        }
        lens.sort();
        lens.dedup();
        for &len in &lens {
            // starts such that [start, start+len-1] fits
            let room = width - len; // number of admissible starts - 1
            let mut starts: Vec<i128> = vec![min, min + room as i128];
            if room >= 1 {
                starts.push(min + 1);
                starts.push(min + room as i128 - 1);
            }
            for s in [-1i128, 0, 1, -(len as i128) / 2, -(len as i128) + 1, -(len as i128)] {
                if s >= min && ((s - min) as u128) <= room {
                    starts.push(s);
                }
            }
            starts.push(min + ((rng.next_u64() as u128) % (room + 1)) as i128);
            starts.sort();
            starts.dedup();
            for &s in &starts {
                if !thorough && rng.chance(1, 2) {
                    continue;
                }
                let hi = s + len as i128 - 1;
                // range form needs end = hi+1 to be a value of the type
                if hi + 1 <= max {
                    emit_gen(emit, st, &mut rng, ty, "range", s, hi + 1, true, "wide_boundary");
                }
                emit_gen(emit, st, &mut rng, ty, "incl", s, hi, true, "wide_boundary");
                if s == 0 {
                    if hi + 1 <= max {
                        emit_gen(emit, st, &mut rng, ty, "to", 0, hi + 1, true, "wide_boundary");
                    }
                    emit_gen(emit, st, &mut rng, ty, "toincl", 0, hi, true, "wide_boundary");
                }
            }
        }
        for _ in 0..6 {
            emit_gen(emit, st, &mut rng, ty, "full", 0, 0, true, "wide_boundary");
        }
        // `..e` / `..=e` with non-positive e (empty unless e = 0 inclusive)
        for e in [min, min + 1, -1, 0, 1, max - 1, max] {
            if e >= min {
                emit_gen(emit, st, &mut rng, ty, "to", 0, e, false, "wide_boundary");
                emit_gen(emit, st, &mut rng, ty, "toincl", 0, e, false, "wide_boundary");
            }
        }
    }

    // (4) random ranges of every type and form (about 6% empty)
    let nrand = if thorough { 400_000 } else { 8_000 };
    for _ in 0..nrand {
        let ty = *rng.pick(&TYPES);
        let form = *rng.pick(&FORMS);
        let (min, max) = ty_bounds(ty);
        let width = (max - min + 1) as u128;
        let pick = |rng: &mut SplitMix64| -> i128 {
            match rng.below(6) {
                0 => min + rng.below(4) as i128,
                1 => max - rng.below(4) as i128,
                2 => (rng.range_i64(-3, 3) as i128).clamp(min, max),
                3 => {
                    let k = rng.below(64);
                    let v = ((1u128 << k) % width) as i128 + rng.range_i64(-1, 1) as i128;
                    let v = if min < 0 && rng.chance(1, 2) { -v } else { v };
                    v.clamp(min, max)
                }
                _ => min + ((rng.next_u64() as u128) % width) as i128,
            }
        };
        let (mut a, mut b) = (pick(&mut rng), pick(&mut rng));
        if a > b && !rng.chance(1, 16) {
            std::mem::swap(&mut a, &mut b);
        }
        if form == "to" || form == "toincl" {
            a = 0;
            if b < 0 && !rng.chance(1, 8) {
                b = (-(b + 1)).clamp(min, max);
            }
        }
        if form == "full" {
            a = 0;
            b = 0;
        }
        emit_gen(emit, st, &mut rng, ty, form, a, b, false, "random");
    }

    // (5) float ranges
    let nfloat = if thorough { 300_000 } else { 8_000 };
    for i in 0..nfloat {
        let (mut s, mut e) = (float_pool(&mut rng), float_pool(&mut rng));
        match rng.below(8) {
            0 if s.is_finite() => {
                // a few representable numbers apart
                e = next_up(s, 1 + rng.below(4));
                st.bump("float_adjacent");
            }
            1 if s.is_finite() => {
                e = -s;
                st.bump("float_symmetric");
            }
            _ => {}
        }
        let mut narrow = false;
        if i % 5 == 1 {
            // narrow ranges (1..=64 representable numbers wide) at tiny magnitudes and around powers of two:
            // here `start*(1-u) + end*u`-style reformulations round BELOW start (seeded mutant C14_m3)
            let mag = match rng.below(5) {
                0 => f64::MIN_POSITIVE * (1.0 + 7.0 * ((rng.next_u64() >> 11) as f64 / (1u64 << 53) as f64)),
                1 => f64::from_bits(1 + rng.below((1u64 << 52) - 1)), // subnormal
                2 => {
                    // a power of two, a few representable numbers below/at/above it
                    let p = (2.0f64).powi(rng.range_i64(-1021, 1022) as i32);
                    let below = f64::from_bits(p.to_bits() - rng.below(70));
                    let above = next_up(p, rng.below(4));
                    *rng.pick(&[p, below, above])
                }
                3 => f64::from_bits((rng.below(64) << 52) | (rng.next_u64() & ((1 << 52) - 1))), // exponent field < 64
                _ => f64::from_bits(((1 + rng.below(2045)) << 52) | (rng.next_u64() & ((1 << 52) - 1))), // any normal
            };
            let w = 1 + rng.below(64);
            if rng.chance(1, 2) {
                s = mag;
                e = next_up(mag, w);
            } else {
                e = -mag;
                s = -next_up(mag, w);
            }
            if e.is_finite() && s < e {
                narrow = true;
                st.bump("float_narrow_1_64_ulps");
                if mag < 8.0 * f64::MIN_POSITIVE {
                    st.bump("float_narrow_tiny_magnitude");
                }
            }
        }
        if !(s < e) && !rng.chance(1, 12) {
            std::mem::swap(&mut s, &mut e);
        }
        if i == 0 {
            s = 0.0;
            e = 1.0;
        }
        let mut raws = float_raws(&mut rng);
        if narrow {
            for _ in 0..24 {
                raws.push(rng.next_u64());
            }
        }
        st.bump("float_lines");
        st.add("float_draws", raws.len() as u64);
        if !(s < e) {
            st.bump("float_empty_or_nan");
        } else if (e - s).is_infinite() {
            st.bump("float_overflowing_length");
        } else if s.is_infinite() || e.is_infinite() {
            st.bump("float_infinite_bound");
        } else if e - s < f64::MIN_POSITIVE {
            st.bump("float_subnormal_length");
        } else if e <= 0.0 {
            st.bump("float_negative");
        } else {
            st.bump("float_ordinary");
        }
        emit(format!("float {:016x} {:016x} ; {}", s.to_bits(), e.to_bits(), join_raws(&raws)));
    }

    // (6) determinism: streams for many seeds
    let nstream = if thorough { 20_000 } else { 1_500 };
    let nwords = if thorough { 64 } else { 32 };
    for i in 0..nstream {
        let seed = match i {
            0 => 0,
            1 => 1,
            2 => u64::MAX,
            3 => 42,
            4 => 1u64 << 63,
            _ => {
                if rng.chance(1, 4) {
                    i as u64
                } else {
                    rng.next_u64()
                }
            }
        };
        emit(format!("stream {} {} {}", seed, nwords, rng.below(nwords + 1)));
        st.bump("stream");
    }

    // (7) next(range) streams from a seed, and period probes
    let ndraws = if thorough { 40_000 } else { 2_000 };
    for _ in 0..ndraws {
        let ty = *rng.pick(&TYPES);
        let form = *rng.pick(&FORMS);
        let (min, max) = ty_bounds(ty);
        let a = if form == "range" || form == "incl" { (rng.range_i64(-100, 100) as i128).clamp(min, max) } else { 0 };
        let b = match rng.below(4) {
            0 => max,
            1 => (a + 1 + rng.below(4) as i128).min(max),
            _ => (a + 1 + rng.below(1000) as i128).min(max),
        };
        emit(format!("draws:{} {} {} {} {} 24", ty, form, a, b, rng.next_u64()));
        st.bump("draws");
    }
    for _ in 0..ndraws / 4 {
        let (mut s, mut e) = (float_pool(&mut rng), float_pool(&mut rng));
        if !(s < e) && !rng.chance(1, 16) {
            std::mem::swap(&mut s, &mut e);
        }
        emit(format!("fdraws {:016x} {:016x} {} 16", s.to_bits(), e.to_bits(), rng.next_u64()));
        st.bump("fdraws");
    }
    for m in [2i128, 3, 4, 5, 6, 8, 10, 16, 32, 64] {
        for seed in [42u64, 0, 1, rng.next_u64()] {
            for p in [1usize, 2, 4, m as usize, 2 * m as usize, 64, 256] {
                emit(format!("period:u32 {} {} {} {}", m, seed, p + 96, p));
                st.bump("period_probe");
            }
        }
    }

    // permutation frequencies over runs of consecutive seeds (statistics: tested claim)
    for (n, ns) in [(2usize, 2_000u64), (3, 3_000), (4, 5_000), (5, 20_000)] {
        for k in 0..(if thorough { 6 } else { 2 }) {
            let seed0 = if k == 0 { 0 } else { rng.next_u64() >> 1 };
            emit(format!("permstat {} {} {}", n, ns, seed0));
            st.bump("permstat");
        }
    }

    // ... the same for slices of other element types (String, 128-byte arrays, Box, tuples, bytes) and through the other receivers
    for (k, elt) in ["big", "str", "boxed", "pair", "bytes"].iter().enumerate() {
        for (j, (n, ns)) in [(3usize, 3_000u64), (4, 5_000)].iter().enumerate() {
            let suffix = ["", "-d", "-w"][(k + j) % 3];
            let reps = if thorough { 3 } else { 1 };
            for r in 0..reps {
                let seed0 = if r == 0 && k % 2 == 0 { 0 } else { rng.next_u64() >> 1 };
                emit(format!("permstat:{}{} {} {} {}", elt, suffix, n, ns, seed0));
                st.bump("permstat_element_types");
            }
        }
    }

    // (8) shuffle from a seed
    let nshuf = if thorough { 30_000 } else { 2_000 };
    for i in 0..nshuf {
        let n = if i < 40 { i / 4 } else if rng.chance(1, 8) { rng.below(300) } else { rng.below(12) };
        emit(format!("shuffle {} {}", if i % 4 == 0 { i as u64 } else { rng.next_u64() }, n));
        st.bump("shuffle_seeded");
    }

    // (9) shuffle with replayed raw streams: all draw vectors for short slices, adversarial words
    let nmax = if thorough { 8 } else { 6 };
    for n in 0..=nmax {
        let mut lines: Vec<String> = Vec::new();
        perm_vectors(n, &mut |d: &[u64]| {
            lines.push(format!("shufraw {} ; {}", n, join_raws(d)));
        });
        for mut l in lines {
            if n <= 1 {
                l = format!("shufraw {}", n);
            }
            emit(l);
            st.bump("shufraw_exhaustive");
        }
    }
    for n in 0..=(if thorough { 8 } else { 7 }) {
        for mult in [0u64, 1, rng.next_u64() >> 8, (u64::MAX / 16) - 1] {
            emit(format!("shufall {} {}", n, mult));
            st.bump("shufall");
        }
    }
    let nraw = if thorough { 40_000 } else { 3_000 };
    for _ in 0..nraw {
        let cap = if rng.chance(1, 6) { 200 } else { 9 };
        let n = 2 + rng.below(cap) as usize;
        let mut raws = Vec::new();
        for i in 1..n as u64 {
            let len = i + 1;
            let r = match rng.below(6) {
                0 => u64::MAX,
                1 => u64::MAX - rng.below(len),
                2 => (((u64::MAX / len) * len) as u128 + rng.below(3) as u128).saturating_sub(1).min(u64::MAX as u128) as u64,
                3 => len * rng.below(1 << 20) + i, // maps to i
                4 => len * (rng.next_u64() % (u64::MAX / len)), // maps to 0
                _ => rng.next_u64(),
            };
            raws.push(r);
        }
        emit(format!("shufraw {} ; {}", n, join_raws(&raws)));
        st.bump("shufraw_adversarial");
    }

    // (10) several live generators, copies through every entry point (Copy, Clone::clone, clone_from, containers, derived Clone)
    gen_multi(emit, st, &mut rng, thorough);

    // (11) sizes beyond small scope: long streams, long shuffles
    for (k, &n) in (if thorough { &[4096usize, 20_000, 65_536][..] } else { &[4096usize][..] }).iter().enumerate() {
        emit(format!("stream {} {} {}", if k == 0 { 42 } else { rng.next_u64() }, n, rng.below(n as u64)));
        st.bump("stream_long");
    }
    for &n in if thorough { &[1000usize, 2500, 4000, 6000][..] } else { &[1000usize, 3000][..] } {
        emit(format!("shuffle {} {}", rng.next_u64(), n));
        st.bump("shuffle_long");
    }
}

// ------------------------------------------------------------------------------------------------
// statistical part (TESTING, not proof)
// ------------------------------------------------------------------------------------------------

fn perm_index(v: &[usize]) -> usize {
    // Lehmer code
    let n = v.len();
    let mut idx = 0usize;
    for i in 0..n {
        let smaller = v[i + 1..].iter().filter(|&&x| x < v[i]).count();
        idx = idx * (n - i) + smaller;
    }
    idx
}

/// chi-square acceptance bound for n = 2..7 (cells = n!): df + 8*sqrt(2*df) + 20, rounded up
/// (the same table is in checks/C14.py and Driver/Rand.lean)
const CHI2_BOUND: [u64; 8] = [0, 0, 33, 51, 98, 263, 1043, 5863];

struct PermStat {
    reached: u64,
    /// sum over cells of (count*cells - nseeds)^2  ( = chi2 * cells * nseeds )
    s: u128,
    bad: u64,
    min: u64,
    max: u64,
    nseeds: u64,
}

fn perm_stat(n: usize, seeds: impl Iterator<Item = u64>) -> PermStat {
    perm_stat_elt(n, seeds, "", 'd')
}

/// `elt` = "" : the plain `Vec<usize>` shuffled by method syntax on `Rng`; else an element type of `shuffle_elts` and a receiver
fn perm_stat_elt(n: usize, seeds: impl Iterator<Item = u64>, elt: &str, recv: char) -> PermStat {
    let cells: usize = (1..=n).product();
    let mut counts = vec![0u64; cells];
    let mut bad = 0u64;
    let mut nseeds = 0u64;
    for seed in seeds {
        nseeds += 1;
        let mut g = Rng::from_seed(seed);
        let v: Vec<usize> = if elt.is_empty() {
            let mut v: Vec<usize> = (0..n).collect();
            if catch(|| g.shuffle(&mut v)).is_err() {
                bad += 1;
                continue;
            }
            v
        } else {
            match catch(|| shuffle_elts(&mut g, recv, elt, n)) {
                Ok(Some(v)) => v,
                _ => {
                    bad += 1;
                    continue;
                }
            }
        };
        if !is_perm_of_range(&v, n) {
            bad += 1;
            continue;
        }
        counts[perm_index(&v)] += 1;
    }
    let reached = counts.iter().filter(|&&c| c > 0).count() as u64;
    let s: u128 = counts
        .iter()
        .map(|&c| {
            let d = c as i128 * cells as i128 - nseeds as i128;
            (d * d) as u128
        })
        .sum();
    PermStat { reached, s, bad, min: *counts.iter().min().unwrap(), max: *counts.iter().max().unwrap(), nseeds }
}

fn stat(args: &Args) {
    let thorough = args.tier == "thorough";
    let nseeds: u64 = if thorough { 1_000_000 } else { 100_000 };
    let mut rng = SplitMix64::new(args.seed ^ 0x57A7);
    // (a) permutation frequencies of shuffle over many seeds
    for n in 2..=6usize {
        let cells: usize = (1..=n).product();
        for kind in ["sequential", "random"] {
            let st = if kind == "sequential" {
                perm_stat(n, 0..nseeds)
            } else {
                let seeds: Vec<u64> = (0..nseeds).map(|_| rng.next_u64()).collect();
                perm_stat(n, seeds.into_iter())
            };
            let chi2 = st.s as f64 / (cells as f64 * st.nseeds as f64);
            println!(
                "{{\"kind\":\"perm\",\"n\":{},\"seeds\":\"{}\",\"nseeds\":{},\"cells\":{},\"reached\":{},\"chi2\":{:.3},\"df\":{},\"bad\":{},\"min\":{},\"max\":{}}}",
                n, kind, nseeds, cells, st.reached, chi2, cells - 1, st.bad, st.min, st.max
            );
        }
    }
    // (b) period scan of next(0..m)
    const PMAX: usize = 4096;
    let len = 3 * PMAX;
    let mut seeds: Vec<u64> = vec![42, 0, 1, u64::MAX];
    for _ in 0..(if thorough { 28 } else { 4 }) {
        seeds.push(rng.next_u64());
    }
    for m in 2..=64u32 {
        for &seed in &seeds {
            let mut g = Rng::from_seed(seed);
            let xs: Vec<u32> = (0..len).map(|_| g.next(0..m)).collect();
            let mut found: Option<usize> = None;
            for p in 1..=PMAX {
                if (0..len - p).all(|i| xs[i] == xs[i + p]) {
                    found = Some(p);
                    break;
                }
            }
            // first 24 draws, for the report
            let head: Vec<String> = xs[..24].iter().map(|x| x.to_string()).collect();
            println!(
                "{{\"kind\":\"period\",\"m\":{},\"seed\":{},\"len\":{},\"pmax\":{},\"period\":{},\"head\":\"{}\"}}",
                m,
                seed,
                len,
                PMAX,
                match found {
                    Some(p) => p.to_string(),
                    None => "null".to_string(),
                },
                head.join(",")
            );
        }
    }
}

fn main() {
    let argv: Vec<String> = std::env::args().collect();
    if argv.get(1).map(|s| s.as_str()) == Some("stat") {
        install_quiet_panic_hook();
        let args = parse_args();
        stat(&args);
        return;
    }
    cli(gen, run_case);
}
