//! Correspondence harness for engine `rand` (property C14): drives rlib_rand
//! (`Randomable::gen_from_u64` of every range form, `Rng::from_seed/next_raw/next`, `Rand::shuffle`).
//!
//! Sub-commands: `gen`, `run` (line protocol, see docs/ENGINE_GUIDE.md) and `stat` (the statistical
//! part of C14 — TESTING, not proof: permutation frequencies of `shuffle`, period scan of `next(0..m)`).
#[path = "../../common/mod.rs"]
mod common;
use common::*;
use rlib_rand::randomable::Randomable;
use rlib_rand::{Rand, Rng};
use std::ops::RangeFull;

// ------------------------------------------------------------------------------------------------
// the integer types
// ------------------------------------------------------------------------------------------------

trait Ty: Copy {
    const MIN128: i128;
    const MAX128: i128;
    fn from128(x: i128) -> Self;
    fn to128(self) -> i128;
    /// `range.gen_from_u64(raw)` (may panic)
    fn draw(form: &str, a: Self, b: Self, raw: u64) -> Self;
    /// `g.next(range)` (may panic)
    fn next<G: Rand>(g: &mut G, form: &str, a: Self, b: Self) -> Self;
}

macro_rules! impl_ty {
    ($($t:ty),*) => {$(
        impl Ty for $t {
            const MIN128: i128 = <$t>::MIN as i128;
            const MAX128: i128 = <$t>::MAX as i128;
            fn from128(x: i128) -> Self { x as $t }
            fn to128(self) -> i128 { self as i128 }
            fn draw(form: &str, a: Self, b: Self, raw: u64) -> Self {
                match form {
                    "range" => (a..b).gen_from_u64(raw),
                    "incl" => (a..=b).gen_from_u64(raw),
                    "to" => (..b).gen_from_u64(raw),
                    "toincl" => (..=b).gen_from_u64(raw),
                    "full" => <RangeFull as Randomable<$t>>::gen_from_u64(.., raw),
                    _ => panic!("bad-form"),
                }
            }
            fn next<G: Rand>(g: &mut G, form: &str, a: Self, b: Self) -> Self {
                match form {
                    "range" => g.next(a..b),
                    "incl" => g.next(a..=b),
                    "to" => g.next(..b),
                    "toincl" => g.next(..=b),
                    "full" => g.next::<$t, RangeFull>(..),
                    _ => panic!("bad-form"),
                }
            }
        }
    )*};
}
impl_ty!(i8, u8, i16, u16, i32, u32, i64, u64, isize, usize);

const TYPES: [&str; 10] = ["i8", "u8", "i16", "u16", "i32", "u32", "i64", "u64", "isize", "usize"];
const FORMS: [&str; 5] = ["range", "incl", "to", "toincl", "full"];

macro_rules! with_ty {
    ($ty:expr, $f:ident, $($args:expr),*) => {
        match $ty {
            "i8" => $f::<i8>($($args),*),
            "u8" => $f::<u8>($($args),*),
            "i16" => $f::<i16>($($args),*),
            "u16" => $f::<u16>($($args),*),
            "i32" => $f::<i32>($($args),*),
            "u32" => $f::<u32>($($args),*),
            "i64" => $f::<i64>($($args),*),
            "u64" => $f::<u64>($($args),*),
            "isize" => $f::<isize>($($args),*),
            "usize" => $f::<usize>($($args),*),
            _ => "I bad-type | V bad-type".to_string(),
        }
    };
}

fn ty_bounds(ty: &str) -> (i128, i128) {
    match ty {
        "i8" => (i8::MIN as i128, i8::MAX as i128),
        "u8" => (0, u8::MAX as i128),
        "i16" => (i16::MIN as i128, i16::MAX as i128),
        "u16" => (0, u16::MAX as i128),
        "i32" => (i32::MIN as i128, i32::MAX as i128),
        "u32" => (0, u32::MAX as i128),
        "i64" | "isize" => (i64::MIN as i128, i64::MAX as i128),
        "u64" | "usize" => (0, u64::MAX as i128),
        _ => unreachable!(),
    }
}

/// Independent oracle: the set of values the range denotes, `[lo, hi]` (empty iff lo > hi).
fn form_bounds(form: &str, a: i128, b: i128, min: i128, max: i128) -> (i128, i128) {
    match form {
        "range" => (a, b - 1),
        "incl" => (a, b),
        "to" => (0, b - 1),
        "toincl" => (0, b),
        _ => (min, max),
    }
}

fn class_int(r: &Result<i128, String>, lo: i128, hi: i128) -> String {
    match r {
        Err(e) => e.clone(),
        Ok(v) => {
            if lo <= *v && *v <= hi {
                "in".into()
            } else {
                "out".into()
            }
        }
    }
}

fn first_bad(cs: &[String]) -> String {
    cs.iter().find(|c| c.as_str() != "in").cloned().unwrap_or_else(|| "in".to_string())
}

const INVALID: &str = "I INVALID | V INVALID";

fn show_res(r: &Result<i128, String>) -> String {
    match r {
        Ok(v) => v.to_string(),
        Err(e) => e.clone(),
    }
}

fn run_gen<T: Ty>(form: &str, a: i128, b: i128, raws: &[u64]) -> String {
    if raws.is_empty() {
        return INVALID.into();
    }
    let (lo, hi) = form_bounds(form, a, b, T::MIN128, T::MAX128);
    let (ta, tb) = (T::from128(a), T::from128(b));
    let rs: Vec<Result<i128, String>> =
        raws.iter().map(|&raw| catch(|| T::draw(form, ta, tb, raw).to_128())).collect();
    let raw_s: Vec<String> = rs.iter().map(show_res).collect();
    let cls: Vec<String> = rs.iter().map(|r| class_int(r, lo, hi)).collect();
    out2(&raw_s.join(","), &first_bad(&cls))
}

trait To128 {
    fn to_128(self) -> i128;
}
impl<T: Ty> To128 for T {
    fn to_128(self) -> i128 {
        self.to128()
    }
}

fn run_cover<T: Ty>(form: &str, a: i128, b: i128, base: u64) -> String {
    let (lo, hi) = form_bounds(form, a, b, T::MIN128, T::MAX128);
    if hi < lo || hi - lo >= 65536 {
        return INVALID.into();
    }
    let n = (hi - lo + 1) as u64;
    if (base as u128) + (n as u128) > (1u128 << 64) {
        return INVALID.into();
    }
    let (ta, tb) = (T::from128(a), T::from128(b));
    let mut seen = vec![false; n as usize];
    let mut distinct = 0u64;
    let mut produced = 0u64;
    let mut sum: i128 = 0;
    for k in 0..n {
        let raw = base.wrapping_add(k); // base + k < 2^64 except for the very last step bound, checked above
        if let Ok(v) = catch(|| T::draw(form, ta, tb, raw).to_128()) {
            produced += 1;
            sum += v;
            if lo <= v && v <= hi {
                let idx = (v - lo) as usize;
                if !seen[idx] {
                    seen[idx] = true;
                    distinct += 1;
                }
            }
        }
    }
    let onto = produced == n && distinct == n;
    out2(&format!("distinct={} sum={}", distinct, sum), if onto { "onto" } else { "notonto" })
}

fn run_draws<T: Ty>(form: &str, a: i128, b: i128, seed: u64, n: usize) -> String {
    let (lo, hi) = form_bounds(form, a, b, T::MIN128, T::MAX128);
    let (ta, tb) = (T::from128(a), T::from128(b));
    let mut g = Rng::from_seed(seed);
    let mut vals = Vec::with_capacity(n);
    for _ in 0..n {
        match catch(|| T::next(&mut g, form, ta, tb).to_128()) {
            Ok(v) => vals.push(v),
            Err(e) => return out1(&e),
        }
    }
    let cls: Vec<String> = vals.iter().map(|v| class_int(&Ok(*v), lo, hi)).collect();
    let raw_s: Vec<String> = vals.iter().map(|v| v.to_string()).collect();
    out2(&raw_s.join(","), &first_bad(&cls))
}

fn run_period<T: Ty>(m: i128, seed: u64, n: usize, p: usize) -> String {
    if p == 0 || n < p + 64 || m < 1 || m > T::MAX128 {
        return INVALID.into();
    }
    let mut g = Rng::from_seed(seed);
    let tb = T::from128(m);
    let mut vals = Vec::with_capacity(n);
    for _ in 0..n {
        match catch(|| T::next(&mut g, "range", T::from128(0), tb).to_128()) {
            Ok(v) => vals.push(v),
            Err(e) => return out1(&e),
        }
    }
    let periodic = (0..n - p).all(|i| vals[i] == vals[i + p]);
    let raw_s: Vec<String> = vals.iter().map(|v| v.to_string()).collect();
    // a constant sequence is the only possibility for m = 1: not a defect of the generator
    let view = if m == 1 || !periodic { "aperiodic" } else { "periodic" };
    out2(&raw_s.join(","), view)
}

/// A generator that replays a given list of raw words through the trait's own `next`/`shuffle`.
struct Replay {
    raws: Vec<u64>,
    pos: usize,
}
impl Rand for Replay {
    fn next<T, R>(&mut self, range: R) -> T
    where
        R: Randomable<T>,
    {
        let r = self.raws[self.pos];
        self.pos += 1;
        range.gen_from_u64(r)
    }
}

fn is_perm_of_range(v: &[usize], n: usize) -> bool {
    if v.len() != n {
        return false;
    }
    let mut seen = vec![false; n];
    for &x in v {
        if x >= n || seen[x] {
            return false;
        }
        seen[x] = true;
    }
    true
}

fn show_list(v: &[usize]) -> String {
    let s: Vec<String> = v.iter().map(|x| x.to_string()).collect();
    format!("[{}]", s.join(","))
}

fn parse_u64s(ops: &[&str]) -> Option<Vec<u64>> {
    ops.iter().map(|t| t.trim().parse::<u64>().ok()).collect()
}

fn run_case(line: &str) -> String {
    let parts: Vec<&str> = line.split(';').map(|p| p.trim()).collect();
    let toks: Vec<&str> = parts[0].split_whitespace().collect();
    if toks.is_empty() {
        return INVALID.into();
    }
    let ops = &parts[1..];
    let (op, ty) = match toks[0].split_once(':') {
        Some((o, t)) => (o, t),
        None => (toks[0], ""),
    };
    let int = |i: usize| -> Option<i128> { toks.get(i).and_then(|t| t.parse::<i128>().ok()) };
    match op {
        "gen" => {
            let (form, a, b) = match (toks.get(1), int(2), int(3)) {
                (Some(f), Some(a), Some(b)) => (*f, a, b),
                _ => return INVALID.into(),
            };
            let raws = match parse_u64s(ops) {
                Some(r) => r,
                None => return INVALID.into(),
            };
            with_ty!(ty, run_gen, form, a, b, &raws)
        }
        "cover" => {
            let (form, a, b, base) = match (toks.get(1), int(2), int(3), toks.get(4).and_then(|t| t.parse::<u64>().ok())) {
                (Some(f), Some(a), Some(b), Some(base)) => (*f, a, b, base),
                _ => return INVALID.into(),
            };
            with_ty!(ty, run_cover, form, a, b, base)
        }
        "float" => {
            let (sb, eb) = match (
                toks.get(1).and_then(|t| u64::from_str_radix(t, 16).ok()),
                toks.get(2).and_then(|t| u64::from_str_radix(t, 16).ok()),
            ) {
                (Some(s), Some(e)) => (s, e),
                _ => return INVALID.into(),
            };
            let raws = match parse_u64s(ops) {
                Some(r) if !r.is_empty() => r,
                _ => return INVALID.into(),
            };
            let (s, e) = (f64::from_bits(sb), f64::from_bits(eb));
            let mut raw_s = Vec::new();
            let mut cls = Vec::new();
            for &raw in &raws {
                match catch(|| (s..e).gen_from_u64(raw)) {
                    Ok(x) => {
                        raw_s.push(format!("{:016x}", x.to_bits()));
                        cls.push(if s <= x && x < e { "in".to_string() } else { "out".to_string() });
                    }
                    Err(p) => {
                        raw_s.push(p.clone());
                        cls.push(p);
                    }
                }
            }
            out2(&raw_s.join(","), &first_bad(&cls))
        }
        "fdraws" => {
            let (sb, eb, seed, n) = match (
                toks.get(1).and_then(|t| u64::from_str_radix(t, 16).ok()),
                toks.get(2).and_then(|t| u64::from_str_radix(t, 16).ok()),
                toks.get(3).and_then(|t| t.parse::<u64>().ok()),
                toks.get(4).and_then(|t| t.parse::<usize>().ok()),
            ) {
                (Some(s), Some(e), Some(seed), Some(n)) => (s, e, seed, n),
                _ => return INVALID.into(),
            };
            let (s, e) = (f64::from_bits(sb), f64::from_bits(eb));
            let mut g = Rng::from_seed(seed);
            let mut raw_s = Vec::new();
            let mut cls = Vec::new();
            for _ in 0..n {
                match catch(|| g.next(s..e)) {
                    Ok(x) => {
                        raw_s.push(format!("{:016x}", x.to_bits()));
                        cls.push(if s <= x && x < e { "in".to_string() } else { "out".to_string() });
                    }
                    Err(p) => return out1(&p),
                }
            }
            out2(&raw_s.join(","), &first_bad(&cls))
        }
        "stream" => {
            let (seed, n, k) = match (
                toks.get(1).and_then(|t| t.parse::<u64>().ok()),
                toks.get(2).and_then(|t| t.parse::<usize>().ok()),
                toks.get(3).and_then(|t| t.parse::<usize>().ok()),
            ) {
                (Some(s), Some(n), Some(k)) => (s, n, k.min(n)),
                _ => return INVALID.into(),
            };
            let mut g1 = Rng::from_seed(seed);
            let a: Vec<u64> = (0..n).map(|_| g1.next_raw()).collect();
            // a second generator from the same seed, and a Copy of it taken after k words
            let mut g2 = Rng::from_seed(seed);
            let mut b: Vec<u64> = (0..k).map(|_| g2.next_raw()).collect();
            let mut g3 = g2; // Copy
            let mut c = b.clone();
            for _ in k..n {
                b.push(g2.next_raw());
            }
            for _ in k..n {
                c.push(g3.next_raw());
            }
            let det = a == b && a == c;
            let s: Vec<String> = a.iter().map(|x| x.to_string()).collect();
            out2(&s.join(","), if det { "det" } else { "nondet" })
        }
        "draws" => {
            let (form, a, b, seed, n) = match (
                toks.get(1),
                int(2),
                int(3),
                toks.get(4).and_then(|t| t.parse::<u64>().ok()),
                toks.get(5).and_then(|t| t.parse::<usize>().ok()),
            ) {
                (Some(f), Some(a), Some(b), Some(s), Some(n)) => (*f, a, b, s, n),
                _ => return INVALID.into(),
            };
            with_ty!(ty, run_draws, form, a, b, seed, n)
        }
        "period" => {
            let (m, seed, n, p) = match (
                int(1),
                toks.get(2).and_then(|t| t.parse::<u64>().ok()),
                toks.get(3).and_then(|t| t.parse::<usize>().ok()),
                toks.get(4).and_then(|t| t.parse::<usize>().ok()),
            ) {
                (Some(m), Some(s), Some(n), Some(p)) => (m, s, n, p),
                _ => return INVALID.into(),
            };
            with_ty!(ty, run_period, m, seed, n, p)
        }
        "shuffle" => {
            let (seed, n) = match (
                toks.get(1).and_then(|t| t.parse::<u64>().ok()),
                toks.get(2).and_then(|t| t.parse::<usize>().ok()),
            ) {
                (Some(s), Some(n)) => (s, n),
                _ => return INVALID.into(),
            };
            let mut g = Rng::from_seed(seed);
            let mut v: Vec<usize> = (0..n).collect();
            match catch(|| g.shuffle(&mut v)) {
                Err(p) => out1(&p),
                Ok(()) => {
                    let nxt = g.next_raw();
                    out2(
                        &format!("{} next={}", show_list(&v), nxt),
                        if is_perm_of_range(&v, n) { "perm" } else { "notperm" },
                    )
                }
            }
        }
        "permstat" => {
            let (n, nseeds, seed0) = match (
                toks.get(1).and_then(|t| t.parse::<usize>().ok()),
                toks.get(2).and_then(|t| t.parse::<u64>().ok()),
                toks.get(3).and_then(|t| t.parse::<u64>().ok()),
            ) {
                (Some(n), Some(ns), Some(s0)) => (n, ns, s0),
                _ => return INVALID.into(),
            };
            if !(2..=7).contains(&n) || nseeds > 2_000_000 || seed0.checked_add(nseeds).is_none() {
                return INVALID.into();
            }
            let cells: u64 = (1..=n as u64).product();
            if nseeds < 20 * cells {
                return INVALID.into();
            }
            let st = perm_stat(n, (0..nseeds).map(|i| seed0 + i));
            let fair = st.bad == 0 && st.reached == cells && st.s <= (CHI2_BOUND[n] as u128) * (nseeds as u128) * (cells as u128);
            out2(&format!("reached={} s={} bad={}", st.reached, st.s, st.bad), if fair { "fair" } else { "unfair" })
        }
        "shufall" => {
            // every draw vector (d_1..d_{n-1}), d_i in 0..=i, offset by mult*(i+1): each permutation exactly once
            let (n, mult) = match (
                toks.get(1).and_then(|t| t.parse::<usize>().ok()),
                toks.get(2).and_then(|t| t.parse::<u64>().ok()),
            ) {
                (Some(n), Some(m)) => (n, m),
                _ => return INVALID.into(),
            };
            if n > 8 || (mult as u128 + 1) * (n as u128 + 1) >= (1u128 << 64) {
                return INVALID.into();
            }
            let cells: usize = (1..=n).product();
            let mut counts = vec![0u64; cells];
            let mut bad = 0u64;
            perm_vectors(n, &mut |d: &[u64]| {
                let raws: Vec<u64> = d.iter().enumerate().map(|(k, &x)| x + mult * (k as u64 + 2)).collect();
                let mut g = Replay { raws, pos: 0 };
                let mut v: Vec<usize> = (0..n).collect();
                if catch(|| g.shuffle(&mut v)).is_err() || !is_perm_of_range(&v, n) {
                    bad += 1;
                } else {
                    counts[perm_index(&v)] += 1;
                }
            });
            let reached = counts.iter().filter(|&&c| c > 0).count();
            let maxc = counts.iter().max().copied().unwrap_or(0);
            let ok = bad == 0 && reached == cells && maxc == 1;
            out2(&format!("reached={} max={} bad={}", reached, maxc, bad), if ok { "all-once" } else { "not-bijective" })
        }
        "shufraw" => {
            let n = match toks.get(1).and_then(|t| t.parse::<usize>().ok()) {
                Some(n) => n,
                None => return INVALID.into(),
            };
            let raws = match parse_u64s(ops) {
                Some(r) => r,
                None => return INVALID.into(),
            };
            if raws.len() + 1 < n {
                return INVALID.into();
            }
            let mut g = Replay { raws, pos: 0 };
            let mut v: Vec<usize> = (0..n).collect();
            match catch(|| g.shuffle(&mut v)) {
                Err(p) => out1(&p),
                Ok(()) => out2(&show_list(&v), if is_perm_of_range(&v, n) { "perm" } else { "notperm" }),
            }
        }
        _ => "I bad-op | V bad-op".to_string(),
    }
}

// ------------------------------------------------------------------------------------------------
// generators
// ------------------------------------------------------------------------------------------------

/// adversarial raw words for a range of `len` values (len in 1..=2^64)
fn adversarial_raws(len: u128, rng: &mut SplitMix64, rich: bool) -> Vec<u64> {
    let top: u128 = 1u128 << 64;
    let mut c: Vec<u128> = vec![0, 1, top - 1, 1u128 << 63, (1u128 << 53) - 1, (1u128 << 53) + 1];
    if len >= 1 {
        let kmax = (top - 1) / len;
        c.extend_from_slice(&[len - 1, len, len + 1, 2 * len - 1, kmax * len, kmax * len + 1]);
        if kmax * len >= 1 {
            c.push(kmax * len - 1);
        }
        let k = (rng.next_u64() as u128) % (kmax + 1);
        c.push(k * len);
        c.push(k * len + len - 1);
        if rich {
            c.extend_from_slice(&[2 * len, 2 * len + 1, k * len + 1]);
            if k * len >= 1 {
                c.push(k * len - 1);
            }
        }
    }
    c.push(rng.next_u64() as u128);
    if rich {
        c.extend_from_slice(&[
            top - 2,
            1u128 << 53,
            (1u128 << 63) - 1,
            (1u128 << 63) + 1,
            (1u128 << 32) - 1,
            1u128 << 32,
            (1u128 << 32) + 1,
            rng.next_u64() as u128,
            (rng.next_u64() >> rng.below(64)) as u128,
        ]);
    }
    let mut out: Vec<u64> = Vec::new();
    for x in c {
        if x < top {
            let x = x as u64;
            if !out.contains(&x) {
                out.push(x);
            }
        }
    }
    out
}

fn join_raws(raws: &[u64]) -> String {
    let s: Vec<String> = raws.iter().map(|r| r.to_string()).collect();
    s.join(" ; ")
}

fn emit_gen(emit: &mut dyn FnMut(String), st: &mut Stats, rng: &mut SplitMix64, ty: &str, form: &str, a: i128, b: i128, rich: bool, tag: &str) {
    let (min, max) = ty_bounds(ty);
    let (lo, hi) = form_bounds(form, a, b, min, max);
    let len: u128 = if hi >= lo { (hi - lo + 1) as u128 } else { 0 };
    let raws = adversarial_raws(len, rng, rich);
    st.bump(&format!("gen_{}", tag));
    st.bump(&format!("gen_form_{}", form));
    st.add("gen_draws", raws.len() as u64);
    if len == 0 {
        st.bump("gen_empty_range");
    } else if len == 1 {
        st.bump("gen_len_1");
    } else if len.is_power_of_two() {
        st.bump("gen_len_pow2");
    } else if len == (max - min) as u128 {
        st.bump("gen_len_max");
    }
    if len == (max - min) as u128 + 1 {
        st.bump("gen_len_full");
    }
    emit(format!("gen:{} {} {} {} ; {}", ty, form, a, b, join_raws(&raws)));
}

/// interesting f64 bit patterns
fn float_pool(rng: &mut SplitMix64) -> f64 {
    let specials: [f64; 30] = [
        0.0,
        -0.0,
        1.0,
        -1.0,
        0.5,
        2.0,
        1.0 + f64::EPSILON,
        1.0 - f64::EPSILON / 2.0,
        f64::MIN_POSITIVE,
        -f64::MIN_POSITIVE,
        5e-324,
        -5e-324,
        f64::MAX,
        f64::MIN,
        f64::MAX / 2.0,
        f64::MIN / 2.0,
        1e308,
        -1e308,
        1e-308,
        9007199254740992.0,
        9007199254740993.0,
        -9007199254740992.0,
        1e16,
        0.1,
        0.3,
        -0.1,
        3.0,
        1e-7,
        f64::INFINITY,
        f64::NEG_INFINITY,
    ];
    match rng.below(10) {
        0..=2 => *rng.pick(&specials),
        3 => f64::from_bits(rng.next_u64()), // any bit pattern, NaNs included
        4 => {
            // random sign/exponent, sparse mantissa
            let e = rng.below(2047);
            let m = 1u64 << rng.below(52);
            f64::from_bits((rng.below(2) << 63) | (e << 52) | (m & ((1 << 52) - 1)))
        }
        5 => (rng.range_i64(-1000, 1000) as f64) / 8.0,
        6 => rng.range_i64(-1_000_000_000, 1_000_000_000) as f64 * 1e-3,
        7 => {
            let e = rng.range_i64(-1074, 1023) as i32;
            let v = (2.0f64).powi(e);
            if rng.chance(1, 2) {
                -v
            } else {
                v
            }
        }
        8 if rng.chance(1, 4) => f64::NAN,
        _ => (rng.next_u64() >> 11) as f64 / (1u64 << 53) as f64 * 200.0 - 100.0,
    }
}

fn next_up(x: f64, steps: u64) -> f64 {
    // move `steps` representable numbers upwards (finite x)
    let mut b = x.to_bits() as i64;
    // map to a monotone integer line
    if b < 0 {
        b = i64::MIN - b;
    }
    b = b.saturating_add(steps as i64);
    let u = if b < 0 { (i64::MIN - b) as u64 } else { b as u64 };
    f64::from_bits(u)
}

fn float_raws(rng: &mut SplitMix64) -> Vec<u64> {
    let mut r = vec![
        0,
        1,
        (1 << 11) - 1,
        1 << 11,
        (1 << 53) - 1,
        (1 << 53) + 1,
        1 << 63,
        u64::MAX,
        u64::MAX - 1000,
        u64::MAX - (1 << 11),
        u64::MAX - (1 << 11) + 1,
        u64::MAX - (1 << 12),
        (1 << 63) - 1,
        (1u64 << 63) + (1 << 10),
        (1u64 << 63) + (1 << 11),
    ];
    for _ in 0..4 {
        r.push(rng.next_u64());
    }
    r.push(rng.next_u64() | (u64::MAX << 20)); // close to the top
    r.push(rng.next_u64() >> rng.below(64));
    r
}

fn perm_vectors(n: usize, f: &mut dyn FnMut(&[u64])) {
    // all draw vectors (d_1 .. d_{n-1}) with d_i in 0..=i
    fn rec(i: usize, n: usize, cur: &mut Vec<u64>, f: &mut dyn FnMut(&[u64])) {
        if i >= n {
            f(cur);
            return;
        }
        for d in 0..=i as u64 {
            cur.push(d);
            rec(i + 1, n, cur, f);
            cur.pop();
        }
    }
    let mut cur = Vec::new();
    rec(1, n, &mut cur, f);
}

fn gen(args: &Args, emit: &mut dyn FnMut(String), st: &mut Stats) {
    let thorough = args.tier == "thorough";
    let mut rng = SplitMix64::new(args.seed ^ 0xC14);

    // (1) 8-bit types: every range (thorough) / boundary set + 1/16 sample (quick) x adversarial raws
    for ty in ["i8", "u8"] {
        let (min, max) = ty_bounds(ty);
        let boundary = |x: i128| x <= min + 1 || x >= max - 1 || (-2..=2).contains(&x) || x == 127 || x == 128;
        for form in ["range", "incl"] {
            for a in min..=max {
                for b in min..=max {
                    // empty ranges all behave alike (panic:assert): keep a sample of them only
                    let empty = if form == "range" { a >= b } else { a > b };
                    let keep = if empty {
                        (boundary(a) && boundary(b)) || rng.chance(1, 64)
                    } else {
                        thorough || (boundary(a) && boundary(b)) || rng.chance(1, 40)
                    };
                    if keep {
                        emit_gen(emit, st, &mut rng, ty, form, a, b, false, "8bit_sweep");
                    }
                }
            }
        }
        for form in ["to", "toincl"] {
            for b in min..=max {
                emit_gen(emit, st, &mut rng, ty, form, 0, b, true, "8bit_sweep");
            }
        }
        for _ in 0..8 {
            emit_gen(emit, st, &mut rng, ty, "full", 0, 0, true, "8bit_sweep");
        }
        // full: all raws 0..=255 and the top 256 words
        let lowraws: Vec<u64> = (0..256u64).collect();
        emit(format!("gen:{} full 0 0 ; {}", ty, join_raws(&lowraws)));
        let highraws: Vec<u64> = (0..256u64).map(|k| u64::MAX - k).collect();
        emit(format!("gen:{} full 0 0 ; {}", ty, join_raws(&highraws)));
        st.add("gen_draws", 512);
    }

    // (2) onto: every value of a range is produced (all raws base..base+len)
    for ty in ["i8", "u8"] {
        let (min, max) = ty_bounds(ty);
        for form in ["range", "incl"] {
            for a in min..=max {
                for b in a..=max {
                    if form == "range" && a == b {
                        continue;
                    }
                    if !(thorough || rng.chance(1, 80) || ((a == min || b == max) && rng.chance(1, 8))) {
                        continue;
                    }
                    let (lo, hi) = form_bounds(form, a, b, min, max);
                    let len = (hi - lo + 1) as u128;
                    let base: u64 = match rng.below(4) {
                        0 | 1 => 0,
                        2 => (((rng.next_u64() as u128) % (((1u128 << 64) - len) / len + 1)) * len) as u64,
                        _ => ((1u128 << 64) - len) as u64,
                    };
                    emit(format!("cover:{} {} {} {} {}", ty, form, a, b, base));
                    st.bump("cover_8bit");
                    st.add("cover_draws", len as u64);
                }
            }
        }
        for form in ["to", "toincl"] {
            for b in 1..=max {
                emit(format!("cover:{} {} 0 {} 0", ty, form, b));
                st.bump("cover_8bit");
            }
        }
        emit(format!("cover:{} full 0 0 0", ty));
        emit(format!("cover:{} full 0 0 {}", ty, u64::MAX - 255));
    }
    let n16 = if thorough { 300 } else { 16 };
    let wide_cap = if thorough { 65536 } else { 4096 };
    for ty in ["i16", "u16", "i32", "u32", "i64", "u64", "isize", "usize"] {
        let (min, max) = ty_bounds(ty);
        for _ in 0..n16 {
            let form = *rng.pick(&["range", "incl"]);
            let cap = if rng.chance(1, 4) { wide_cap } else { 600 };
            let len = 1 + rng.below(cap) as i128;
            let a = match rng.below(4) {
                0 => min,
                1 => max - len,
                2 => -(len / 2).min(-min),
                _ => min + ((rng.next_u64() as u128) % ((max - len - min) as u128 + 1)) as i128,
            };
            let a = a.max(min);
            let b = if form == "range" { a + len } else { a + len - 1 };
            let base = match rng.below(3) {
                0 => 0,
                1 => rng.next_u64() >> 1,
                _ => u64::MAX - len as u64 + 1,
            };
            emit(format!("cover:{} {} {} {} {}", ty, form, a, b, base));
            st.bump("cover_wide");
            st.add("cover_draws", len as u64);
        }
        if ty == "i16" || ty == "u16" {
            emit(format!("cover:{} full 0 0 0", ty));
            emit(format!("cover:{} incl {} {} {}", ty, min, max - 1, 65535));
            emit(format!("cover:{} incl {} {} {}", ty, min + 1, max, 1u64 << 40));
            st.add("cover_wide", 3);
        }
    }

    // (3) wider types: boundary lengths {1,2,3,2^k,2^k±1,MAX,full} x boundary starts
    for ty in ["i16", "u16", "i32", "u32", "i64", "u64", "isize", "usize"] {
        let (min, max) = ty_bounds(ty);
        let width = (max - min + 1) as u128; // 2^w
        let w = 128 - (width - 1).leading_zeros(); // bits
        let mut lens: Vec<u128> = vec![1, 2, 3, width - 1, width - 2, width];
        for k in 1..w {
            let p = 1u128 << k;
            lens.push(p);
            lens.push(p + 1);
            if p > 2 {
                lens.push(p - 1);
            }
        }
        lens.sort();
        lens.dedup();
        for &len in &lens {
            // starts such that [start, start+len-1] fits
            let room = width - len; // number of admissible starts - 1
            let mut starts: Vec<i128> = vec![min, min + room as i128];
            if room >= 1 {
                starts.push(min + 1);
                starts.push(min + room as i128 - 1);
            }
            for s in [-1i128, 0, 1, -(len as i128) / 2, -(len as i128) + 1, -(len as i128)] {
                if s >= min && ((s - min) as u128) <= room {
                    starts.push(s);
                }
            }
            starts.push(min + ((rng.next_u64() as u128) % (room + 1)) as i128);
            starts.sort();
            starts.dedup();
            for &s in &starts {
                if !thorough && rng.chance(1, 2) {
                    continue;
                }
                let hi = s + len as i128 - 1;
                // range form needs end = hi+1 to be a value of the type
                if hi + 1 <= max {
                    emit_gen(emit, st, &mut rng, ty, "range", s, hi + 1, true, "wide_boundary");
                }
                emit_gen(emit, st, &mut rng, ty, "incl", s, hi, true, "wide_boundary");
                if s == 0 {
                    if hi + 1 <= max {
                        emit_gen(emit, st, &mut rng, ty, "to", 0, hi + 1, true, "wide_boundary");
                    }
                    emit_gen(emit, st, &mut rng, ty, "toincl", 0, hi, true, "wide_boundary");
                }
            }
        }
        for _ in 0..6 {
            emit_gen(emit, st, &mut rng, ty, "full", 0, 0, true, "wide_boundary");
        }
        // `..e` / `..=e` with non-positive e (empty unless e = 0 inclusive)
        for e in [min, min + 1, -1, 0, 1, max - 1, max] {
            if e >= min {
                emit_gen(emit, st, &mut rng, ty, "to", 0, e, false, "wide_boundary");
                emit_gen(emit, st, &mut rng, ty, "toincl", 0, e, false, "wide_boundary");
            }
        }
    }

    // (4) random ranges of every type and form (about 6% empty)
    let nrand = if thorough { 400_000 } else { 8_000 };
    for _ in 0..nrand {
        let ty = *rng.pick(&TYPES);
        let form = *rng.pick(&FORMS);
        let (min, max) = ty_bounds(ty);
        let width = (max - min + 1) as u128;
        let pick = |rng: &mut SplitMix64| -> i128 {
            match rng.below(6) {
                0 => min + rng.below(4) as i128,
                1 => max - rng.below(4) as i128,
                2 => (rng.range_i64(-3, 3) as i128).clamp(min, max),
                3 => {
                    let k = rng.below(64);
                    let v = ((1u128 << k) % width) as i128 + rng.range_i64(-1, 1) as i128;
                    let v = if min < 0 && rng.chance(1, 2) { -v } else { v };
                    v.clamp(min, max)
                }
                _ => min + ((rng.next_u64() as u128) % width) as i128,
            }
        };
        let (mut a, mut b) = (pick(&mut rng), pick(&mut rng));
        if a > b && !rng.chance(1, 16) {
            std::mem::swap(&mut a, &mut b);
        }
        if form == "to" || form == "toincl" {
            a = 0;
            if b < 0 && !rng.chance(1, 8) {
                b = (-(b + 1)).clamp(min, max);
            }
        }
        if form == "full" {
            a = 0;
            b = 0;
        }
        emit_gen(emit, st, &mut rng, ty, form, a, b, false, "random");
    }

    // (5) float ranges
    let nfloat = if thorough { 300_000 } else { 8_000 };
    for i in 0..nfloat {
        let (mut s, mut e) = (float_pool(&mut rng), float_pool(&mut rng));
        match rng.below(8) {
            0 if s.is_finite() => {
                // a few representable numbers apart
                e = next_up(s, 1 + rng.below(4));
                st.bump("float_adjacent");
            }
            1 if s.is_finite() => {
                e = -s;
                st.bump("float_symmetric");
            }
            _ => {}
        }
        let mut narrow = false;
        if i % 5 == 1 {
            // narrow ranges (1..=64 representable numbers wide) at tiny magnitudes and around powers of two:
            // here `start*(1-u) + end*u`-style reformulations round BELOW start (seeded mutant C14_m3)
            let mag = match rng.below(5) {
                0 => f64::MIN_POSITIVE * (1.0 + 7.0 * ((rng.next_u64() >> 11) as f64 / (1u64 << 53) as f64)),
                1 => f64::from_bits(1 + rng.below((1u64 << 52) - 1)), // subnormal
                2 => {
                    // a power of two, a few representable numbers below/at/above it
                    let p = (2.0f64).powi(rng.range_i64(-1021, 1022) as i32);
                    let below = f64::from_bits(p.to_bits() - rng.below(70));
                    let above = next_up(p, rng.below(4));
                    *rng.pick(&[p, below, above])
                }
                3 => f64::from_bits((rng.below(64) << 52) | (rng.next_u64() & ((1 << 52) - 1))), // exponent field < 64
                _ => f64::from_bits(((1 + rng.below(2045)) << 52) | (rng.next_u64() & ((1 << 52) - 1))), // any normal
            };
            let w = 1 + rng.below(64);
            if rng.chance(1, 2) {
                s = mag;
                e = next_up(mag, w);
            } else {
                e = -mag;
                s = -next_up(mag, w);
            }
            if e.is_finite() && s < e {
                narrow = true;
                st.bump("float_narrow_1_64_ulps");
                if mag < 8.0 * f64::MIN_POSITIVE {
                    st.bump("float_narrow_tiny_magnitude");
                }
            }
        }
        if !(s < e) && !rng.chance(1, 12) {
            std::mem::swap(&mut s, &mut e);
        }
        if i == 0 {
            s = 0.0;
            e = 1.0;
        }
        let mut raws = float_raws(&mut rng);
        if narrow {
            for _ in 0..24 {
                raws.push(rng.next_u64());
            }
        }
        st.bump("float_lines");
        st.add("float_draws", raws.len() as u64);
        if !(s < e) {
            st.bump("float_empty_or_nan");
        } else if (e - s).is_infinite() {
            st.bump("float_overflowing_length");
        } else if s.is_infinite() || e.is_infinite() {
            st.bump("float_infinite_bound");
        } else if e - s < f64::MIN_POSITIVE {
            st.bump("float_subnormal_length");
        } else if e <= 0.0 {
            st.bump("float_negative");
        } else {
            st.bump("float_ordinary");
        }
        emit(format!("float {:016x} {:016x} ; {}", s.to_bits(), e.to_bits(), join_raws(&raws)));
    }

    // (6) determinism: streams for many seeds
    let nstream = if thorough { 20_000 } else { 1_500 };
    let nwords = if thorough { 64 } else { 32 };
    for i in 0..nstream {
        let seed = match i {
            0 => 0,
            1 => 1,
            2 => u64::MAX,
            3 => 42,
            4 => 1u64 << 63,
            _ => {
                if rng.chance(1, 4) {
                    i as u64
                } else {
                    rng.next_u64()
                }
            }
        };
        emit(format!("stream {} {} {}", seed, nwords, rng.below(nwords + 1)));
        st.bump("stream");
    }

    // (7) next(range) streams from a seed, and period probes
    let ndraws = if thorough { 40_000 } else { 2_000 };
    for _ in 0..ndraws {
        let ty = *rng.pick(&TYPES);
        let form = *rng.pick(&FORMS);
        let (min, max) = ty_bounds(ty);
        let a = if form == "range" || form == "incl" { (rng.range_i64(-100, 100) as i128).clamp(min, max) } else { 0 };
        let b = match rng.below(4) {
            0 => max,
            1 => (a + 1 + rng.below(4) as i128).min(max),
            _ => (a + 1 + rng.below(1000) as i128).min(max),
        };
        emit(format!("draws:{} {} {} {} {} 24", ty, form, a, b, rng.next_u64()));
        st.bump("draws");
    }
    for _ in 0..ndraws / 4 {
        let (mut s, mut e) = (float_pool(&mut rng), float_pool(&mut rng));
        if !(s < e) && !rng.chance(1, 16) {
            std::mem::swap(&mut s, &mut e);
        }
        emit(format!("fdraws {:016x} {:016x} {} 16", s.to_bits(), e.to_bits(), rng.next_u64()));
        st.bump("fdraws");
    }
    for m in [2i128, 3, 4, 5, 6, 8, 10, 16, 32, 64] {
        for seed in [42u64, 0, 1, rng.next_u64()] {
            for p in [1usize, 2, 4, m as usize, 2 * m as usize, 64, 256] {
                emit(format!("period:u32 {} {} {} {}", m, seed, p + 96, p));
                st.bump("period_probe");
            }
        }
    }

    // permutation frequencies over runs of consecutive seeds (statistics: tested claim)
    for (n, ns) in [(2usize, 2_000u64), (3, 3_000), (4, 5_000), (5, 20_000)] {
        for k in 0..(if thorough { 6 } else { 2 }) {
            let seed0 = if k == 0 { 0 } else { rng.next_u64() >> 1 };
            emit(format!("permstat {} {} {}", n, ns, seed0));
            st.bump("permstat");
        }
    }

    // (8) shuffle from a seed
    let nshuf = if thorough { 30_000 } else { 2_000 };
    for i in 0..nshuf {
        let n = if i < 40 { i / 4 } else if rng.chance(1, 8) { rng.below(300) } else { rng.below(12) };
        emit(format!("shuffle {} {}", if i % 4 == 0 { i as u64 } else { rng.next_u64() }, n));
        st.bump("shuffle_seeded");
    }

    // (9) shuffle with replayed raw streams: all draw vectors for short slices, adversarial words
    let nmax = if thorough { 8 } else { 6 };
    for n in 0..=nmax {
        let mut lines: Vec<String> = Vec::new();
        perm_vectors(n, &mut |d: &[u64]| {
            lines.push(format!("shufraw {} ; {}", n, join_raws(d)));
        });
        for mut l in lines {
            if n <= 1 {
                l = format!("shufraw {}", n);
            }
            emit(l);
            st.bump("shufraw_exhaustive");
        }
    }
    for n in 0..=(if thorough { 8 } else { 7 }) {
        for mult in [0u64, 1, rng.next_u64() >> 8, (u64::MAX / 16) - 1] {
            emit(format!("shufall {} {}", n, mult));
            st.bump("shufall");
        }
    }
    let nraw = if thorough { 40_000 } else { 3_000 };
    for _ in 0..nraw {
        let cap = if rng.chance(1, 6) { 200 } else { 9 };
        let n = 2 + rng.below(cap) as usize;
        let mut raws = Vec::new();
        for i in 1..n as u64 {
            let len = i + 1;
            let r = match rng.below(6) {
                0 => u64::MAX,
                1 => u64::MAX - rng.below(len),
                2 => (((u64::MAX / len) * len) as u128 + rng.below(3) as u128).saturating_sub(1).min(u64::MAX as u128) as u64,
                3 => len * rng.below(1 << 20) + i, // maps to i
                4 => len * (rng.next_u64() % (u64::MAX / len)), // maps to 0
                _ => rng.next_u64(),
            };
            raws.push(r);
        }
        emit(format!("shufraw {} ; {}", n, join_raws(&raws)));
        st.bump("shufraw_adversarial");
    }
}

// ------------------------------------------------------------------------------------------------
// statistical part (TESTING, not proof)
// ------------------------------------------------------------------------------------------------

fn perm_index(v: &[usize]) -> usize {
    // Lehmer code
    let n = v.len();
    let mut idx = 0usize;
    for i in 0..n {
        let smaller = v[i + 1..].iter().filter(|&&x| x < v[i]).count();
        idx = idx * (n - i) + smaller;
    }
    idx
}

/// chi-square acceptance bound for n = 2..7 (cells = n!): df + 8*sqrt(2*df) + 20, rounded up
/// (the same table is in checks/C14.py and Driver/Rand.lean)
const CHI2_BOUND: [u64; 8] = [0, 0, 33, 51, 98, 263, 1043, 5863];

struct PermStat {
    reached: u64,
    /// sum over cells of (count*cells - nseeds)^2  ( = chi2 * cells * nseeds )
    s: u128,
    bad: u64,
    min: u64,
    max: u64,
    nseeds: u64,
}

fn perm_stat(n: usize, seeds: impl Iterator<Item = u64>) -> PermStat {
    let cells: usize = (1..=n).product();
    let mut counts = vec![0u64; cells];
    let mut bad = 0u64;
    let mut nseeds = 0u64;
    for seed in seeds {
        nseeds += 1;
        let mut g = Rng::from_seed(seed);
        let mut v: Vec<usize> = (0..n).collect();
        if catch(|| g.shuffle(&mut v)).is_err() || !is_perm_of_range(&v, n) {
            bad += 1;
            continue;
        }
        counts[perm_index(&v)] += 1;
    }
    let reached = counts.iter().filter(|&&c| c > 0).count() as u64;
    let s: u128 = counts
        .iter()
        .map(|&c| {
            let d = c as i128 * cells as i128 - nseeds as i128;
            (d * d) as u128
        })
        .sum();
    PermStat { reached, s, bad, min: *counts.iter().min().unwrap(), max: *counts.iter().max().unwrap(), nseeds }
}

fn stat(args: &Args) {
    let thorough = args.tier == "thorough";
    let nseeds: u64 = if thorough { 1_000_000 } else { 100_000 };
    let mut rng = SplitMix64::new(args.seed ^ 0x57A7);
    // (a) permutation frequencies of shuffle over many seeds
    for n in 2..=6usize {
        let cells: usize = (1..=n).product();
        for kind in ["sequential", "random"] {
            let st = if kind == "sequential" {
                perm_stat(n, 0..nseeds)
            } else {
                let seeds: Vec<u64> = (0..nseeds).map(|_| rng.next_u64()).collect();
                perm_stat(n, seeds.into_iter())
            };
            let chi2 = st.s as f64 / (cells as f64 * st.nseeds as f64);
            println!(
                "{{\"kind\":\"perm\",\"n\":{},\"seeds\":\"{}\",\"nseeds\":{},\"cells\":{},\"reached\":{},\"chi2\":{:.3},\"df\":{},\"bad\":{},\"min\":{},\"max\":{}}}",
                n, kind, nseeds, cells, st.reached, chi2, cells - 1, st.bad, st.min, st.max
            );
        }
    }
    // (b) period scan of next(0..m)
    const PMAX: usize = 4096;
    let len = 3 * PMAX;
    let mut seeds: Vec<u64> = vec![42, 0, 1, u64::MAX];
    for _ in 0..(if thorough { 28 } else { 4 }) {
        seeds.push(rng.next_u64());
    }
    for m in 2..=64u32 {
        for &seed in &seeds {
            let mut g = Rng::from_seed(seed);
            let xs: Vec<u32> = (0..len).map(|_| g.next(0..m)).collect();
            let mut found: Option<usize> = None;
            for p in 1..=PMAX {
                if (0..len - p).all(|i| xs[i] == xs[i + p]) {
                    found = Some(p);
                    break;
                }
            }
            // first 24 draws, for the report
            let head: Vec<String> = xs[..24].iter().map(|x| x.to_string()).collect();
            println!(
                "{{\"kind\":\"period\",\"m\":{},\"seed\":{},\"len\":{},\"pmax\":{},\"period\":{},\"head\":\"{}\"}}",
                m,
                seed,
                len,
                PMAX,
                match found {
                    Some(p) => p.to_string(),
                    None => "null".to_string(),
                },
                head.join(",")
            );
        }
    }
}

fn main() {
    let argv: Vec<String> = std::env::args().collect();
    if argv.get(1).map(|s| s.as_str()) == Some("stat") {
        install_quiet_panic_hook();
        let args = parse_args();
        stat(&args);
        return;
    }
    cli(gen, run_case);
}
