//! Several `Reader`s alive at the same time on one thread, used interleaved (wave 3, class (B)).
//!
//! case line:  `<BUF> <HEX0> <SCHED0> + <HEX1> <SCHED1> [+ ...] ; <k>.<op> ; <k>.new ; <k>.drop ; <k>.mv ; ...`
//!
//! Reader `k` reads input `k` under schedule `k`. It is created (`Reader::new`) by `k.new` or by its first step,
//! `k.drop` drops it (nothing may follow), `k.mv` moves the value to another place in memory. Lifecycle steps
//! print `.`. The specification is independence: the results of reader `k` are those of its own calls on a
//! reader used alone (the Lean model keeps one independent state per reader). Besides the comparison with the
//! spec (driver), `run` replays the calls of every reader ALONE (a fresh single Reader, same input, same schedule,
//! no other Reader alive) and through the independent tokenizer; a difference is marked in the view
//! (`!alone<k>:` / `!oracle:`).
use crate::common::*;
use crate::{exec, fmt_op, join_results, parse_dec, parse_hex, parse_op, parse_sched, run_op, Op, Oracle, Sched, Source};
use rlib_io::Reader;

#[derive(Clone, PartialEq, Eq, Debug)]
pub enum MStep {
    Run(usize, Op),
    New(usize),
    Drop(usize),
    Mv(usize),
}

impl MStep {
    pub fn reader(&self) -> usize {
        match self {
            MStep::Run(k, _) | MStep::New(k) | MStep::Drop(k) | MStep::Mv(k) => *k,
        }
    }
}

pub fn fmt_step(s: &MStep) -> String {
    match s {
        MStep::Run(k, op) => format!("{}.{}", k, fmt_op(op)),
        MStep::New(k) => format!("{}.new", k),
        MStep::Drop(k) => format!("{}.drop", k),
        MStep::Mv(k) => format!("{}.mv", k),
    }
}

pub struct MCase {
    pub inputs: Vec<(Vec<u8>, Sched)>,
    pub steps: Vec<MStep>,
}

fn parse_step(s: &str) -> Option<MStep> {
    let (k, r) = s.split_once('.')?;
    if r.contains('.') {
        return None;
    }
    let k = parse_dec(k)? as usize;
    Some(match r {
        "new" => MStep::New(k),
        "drop" => MStep::Drop(k),
        "mv" => MStep::Mv(k),
        _ => MStep::Run(k, parse_op(r)?),
    })
}

/// lifecycle check (the driver has the same one): index in range, `new` only on a reader that does not exist yet,
/// nothing after `drop`
fn life_ok(n: usize, steps: &[MStep]) -> bool {
    let mut st = vec![0u8; n]; // 0 = not created, 1 = live, 2 = dropped
    for s in steps {
        let k = s.reader();
        if k >= n || st[k] == 2 {
            return false;
        }
        match s {
            MStep::New(_) => {
                if st[k] != 0 {
                    return false;
                }
                st[k] = 1;
            }
            MStep::Drop(_) => st[k] = 2,
            _ => st[k] = 1,
        }
    }
    true
}

/// `hdr` = the header tokens (`BUF h0 s0 + h1 s1 ...`), `parts` = the steps
pub fn parse_multi<'a>(hdr: &[&str], parts: impl Iterator<Item = &'a str>) -> Option<MCase> {
    let buf = parse_dec(hdr[0])?;
    if buf < 1 {
        return None;
    }
    let mut inputs = Vec::new();
    let mut i = 1;
    loop {
        if i + 1 >= hdr.len() {
            return None;
        }
        inputs.push((parse_hex(hdr[i])?, parse_sched(hdr[i + 1])?));
        i += 2;
        if i == hdr.len() {
            break;
        }
        if hdr[i] != "+" {
            return None;
        }
        i += 1;
    }
    if inputs.len() < 2 {
        return None;
    }
    let mut steps = Vec::new();
    for p in parts {
        steps.push(parse_step(p)?);
    }
    if !life_ok(inputs.len(), &steps) {
        return None;
    }
    Some(MCase { inputs, steps })
}

pub struct MExec {
    pub results: Vec<String>,
    pub panicked: bool,
}

/// all readers on THIS thread, alive together as the steps say
pub fn exec_multi(case: &MCase) -> MExec {
    let n = case.inputs.len();
    let mut sources: Vec<Source> = case.inputs.iter().map(|(d, s)| Source::new(d, s)).collect();
    let mut results = Vec::with_capacity(case.steps.len());
    let mut panicked = false;
    {
        let mut slots: Vec<Option<&mut Source>> = sources.iter_mut().map(Some).collect();
        let mut readers: Vec<Option<Box<Reader>>> = (0..n).map(|_| None).collect();
        for step in &case.steps {
            let k = step.reader();
            if readers[k].is_none() {
                let src = match slots[k].take() {
                    Some(s) => s,
                    None => panic!("harness: reader {} used after drop", k),
                };
                match catch(move || Box::new(Reader::new(Box::new(src)))) {
                    Ok(r) => readers[k] = Some(r),
                    Err(p) => {
                        results.push(p);
                        panicked = true;
                        break;
                    }
                }
            }
            let res = match step {
                MStep::New(_) => Ok(".".to_string()),
                MStep::Drop(_) => {
                    let r = readers[k].take();
                    catch(move || {
                        drop(r);
                        ".".to_string()
                    })
                }
                MStep::Mv(_) => {
                    // Box -> stack -> a Vec slot -> a new Box: the value lives at a different address afterwards
                    let r = readers[k].take().unwrap();
                    let moved = catch(move || {
                        let on_stack: Reader = *r;
                        let mut v: Vec<Reader> = Vec::with_capacity(1);
                        v.push(on_stack);
                        Box::new(v.pop().unwrap())
                    });
                    match moved {
                        Ok(b) => {
                            readers[k] = Some(b);
                            Ok(".".to_string())
                        }
                        Err(p) => Err(p),
                    }
                }
                MStep::Run(_, op) => {
                    let rd: &mut Reader = readers[k].as_mut().unwrap();
                    catch(|| run_op(rd, op))
                }
            };
            match res {
                Ok(s) => results.push(s),
                Err(p) => {
                    results.push(p);
                    panicked = true;
                    break;
                }
            }
        }
        crate::dyn_clear();
        // readers still alive are dropped here, in index order, before the sources
        let _ = catch(move || drop(readers));
    }
    MExec { results, panicked }
}

pub fn run_multi(case: &MCase) -> String {
    let n = case.inputs.len();
    let ex = exec_multi(case);
    // the independent oracle: one tokenizer per reader; the in-domain prefix ends at the first call it cannot answer
    let mut orcs: Vec<Oracle> = case.inputs.iter().map(|(d, _)| Oracle::new(d)).collect();
    let mut orc: Vec<String> = Vec::new();
    for st in &case.steps {
        match st {
            MStep::Run(k, op) => {
                let mut s = String::new();
                if !orcs[*k].op(op, &mut s) {
                    break;
                }
                orc.push(s);
            }
            _ => orc.push(".".to_string()),
        }
    }
    let n_dom = orc.len();
    let n_view = n_dom.min(ex.results.len());
    let mut view = join_results(&ex.results[..n_view]);
    if n_dom < case.steps.len() {
        view.push_str(" ~");
    }
    let raw = view.clone();
    // independence, stated directly: the calls of reader k, replayed on a fresh Reader used ALONE (same input, same
    // schedule), give the same results - compared up to and including the first out-of-domain step of the interleaved run
    let m = (n_dom + 1).min(ex.results.len());
    for k in 0..n {
        let ops_k: Vec<Op> = case.steps.iter().filter_map(|s| if let MStep::Run(j, op) = s { if *j == k { Some(op.clone()) } else { None } } else { None }).collect();
        if ops_k.is_empty() {
            continue;
        }
        let mine: Vec<String> =
            case.steps[..m].iter().zip(&ex.results[..m]).filter(|(s, _)| matches!(s, MStep::Run(j, _) if *j == k)).map(|(_, r)| r.clone()).collect();
        let alone = exec(&case.inputs[k].0, &case.inputs[k].1, &ops_k);
        let c = mine.len().min(alone.results.len());
        if mine[..] != alone.results[..c] {
            view.push_str(&format!(" !alone{}:", k));
            view.push_str(&join_results(&alone.results[..c]));
        }
    }
    let n_impl = if ex.panicked { ex.results.len() - 1 } else { ex.results.len() };
    let c = n_impl.min(orc.len());
    if ex.results[..c] != orc[..c] {
        view.push_str(" !oracle:");
        view.push_str(&join_results(&orc));
    }
    out2(&raw, &view)
}
