//! Wave 4 streams.
//!
//! (8) degenerate arguments of every entry point - `read_vec(0)` (tuple shapes too), `read_vec(1)`, one-row vectors of
//!     tuples, tuples, `is_eof` / `read_vec(0)` between every two calls - FOLLOWED BY LINE READS, so that whitespace a
//!     call swallowed without being entitled to (seeded C08_m13: a `debug_assert!` in `read_vec` that calls `is_eof()`,
//!     which skips whitespace) is visible in the next result. Both build profiles get them.
//! (9) long lines / long tokens / long whitespace runs / long zero-padded integers / very many tiny tokens and lines,
//!     delivered in VERY MANY small reads (one byte, two, seven bytes per read, with and without Interrupted) and also
//!     all at once, answered in a child process on a thread with a deliberately small stack (header flag `ss`), so that
//!     recursion per refill / per byte / per element (seeded C08_m12: `read_line` finishes a line that spans refills
//!     by calling itself once per refill) is a crash with a failing input instead of a green run. Both profiles.
use crate::common::*;
use crate::gen::*;
use crate::streams::{count_lines, grammar_input, lines_input, LINE_SPECIALS};
use crate::{Atom, Item, Op, Oracle, Sched, INT_ATOMS};

// ---------------------------------------------------------------------------------------------
// (8) degenerate arguments, followed by line reads
// ---------------------------------------------------------------------------------------------

/// element shape of a `read_vec(0)`: it reads nothing, whatever the shape
fn v0_shape(rng: &mut SplitMix64) -> Vec<Atom> {
    match rng.below(7) {
        0 => vec![Atom::I32],
        1 => vec![Atom::Str],
        2 => vec![Atom::Chr],
        3 => vec![Atom::U8, Atom::Str],
        4 => vec![*rng.pick(&INT_ATOMS)],
        _ => (0..2 + rng.below(3)).map(|_| rand_atom(rng)).collect(),
    }
}

fn choose_atom(rng: &mut SplitMix64, tok: &[u8]) -> Atom {
    let v = valid_ints(tok);
    if !v.is_empty() && rng.chance(3, 5) {
        *rng.pick(&v)
    } else if rng.chance(3, 4) {
        Atom::Str
    } else {
        Atom::Chr
    }
}

/// One token-reading call at the oracle's position, in one of the forms `r:a`, `v:1:a`, `v:n:a`, `t:a,b..`,
/// `v:1:a,b..` (one row of a tuple), `v:2:a,b`; None when no token is left. The oracle is advanced past what it reads.
fn token_call(rng: &mut SplitMix64, o: &mut Oracle, data: &[u8]) -> Option<(Op, &'static str)> {
    let mut scratch = String::new();
    let mut c = Oracle { d: o.d, p: o.p };
    let want = 1 + rng.below(4) as usize;
    let same = rng.chance(1, 3);
    let mut atoms: Vec<Atom> = Vec::new();
    for i in 0..want {
        let (s, e) = match c.peek_token() {
            Some(t) => t,
            None => break,
        };
        let tok = &data[s..e];
        let a = if same && i > 0 {
            let a0 = atoms[0];
            if crate::is_int(a0) && crate::int_value(a0, tok).is_none() {
                break;
            }
            a0
        } else {
            choose_atom(rng, tok)
        };
        scratch.clear();
        if !c.atom(a, &mut scratch) {
            break;
        }
        atoms.push(a);
    }
    if atoms.is_empty() {
        return None;
    }
    let m = atoms.len();
    let all_same = atoms.iter().all(|a| *a == atoms[0]);
    let (op, kind): (Op, &'static str) = if m == 1 {
        if rng.chance(1, 2) {
            (Op::R(atoms[0]), "degen_call_read")
        } else {
            (Op::V(1, vec![atoms[0]]), "degen_call_read_vec_1")
        }
    } else if all_same && rng.chance(2, 3) {
        (Op::V(m, vec![atoms[0]]), "degen_call_read_vec_n")
    } else if m % 2 == 0 && m >= 4 && atoms[..m / 2] == atoms[m / 2..] && rng.chance(1, 2) {
        (Op::V(2, atoms[..m / 2].to_vec()), "degen_call_read_vec_2_rows_of_tuples")
    } else if rng.chance(1, 2) {
        (Op::T(atoms), "degen_call_tuple")
    } else {
        (Op::V(1, atoms), "degen_call_read_vec_1_row_of_a_tuple")
    };
    o.p = c.p;
    Some((op, kind))
}

#[derive(Clone, Copy, PartialEq, Eq)]
enum Between {
    Mix,
    EofEverywhere,
    V0Everywhere,
}

/// A script that is valid on `data` by construction (every token call is simulated on the oracle; `line`, `lines`,
/// `eof` and `read_vec(0)` are valid anywhere) and in which line reads follow the other calls closely.
fn degenerate_script(g: &mut Gen, rng: &mut SplitMix64, data: &[u8], mode: Between) -> Vec<Op> {
    let mut o = Oracle::new(data);
    let mut ops: Vec<Op> = Vec::new();
    let steps = 3 + rng.below(12);
    let between = |g: &mut Gen, rng: &mut SplitMix64, o: &mut Oracle, ops: &mut Vec<Op>| match mode {
        Between::Mix => {}
        Between::EofEverywhere => {
            ops.push(Op::Eof);
            o.eof();
            g.emit_count_pair("degen_eof_between_two_calls");
        }
        Between::V0Everywhere => {
            ops.push(Op::V(0, v0_shape(rng)));
            g.emit_count_pair("degen_read_vec_0_between_two_calls");
        }
    };
    if mode != Between::Mix && rng.chance(1, 2) {
        between(g, rng, &mut o, &mut ops);
    }
    for _ in 0..steps {
        if o.p >= data.len() && rng.chance(1, 2) {
            break;
        }
        let at_ws = o.p < data.len() && crate::is_ws(data[o.p]);
        match rng.below(20) {
            0..=6 => {
                if at_ws && matches!(ops.last(), Some(Op::V(0, _))) {
                    g.emit_count_pair("degen_line_read_right_after_read_vec_0_at_whitespace");
                }
                if at_ws && reads_tokens(ops.last()) {
                    g.emit_count_pair("degen_line_read_right_after_vec_or_tuple_at_whitespace");
                }
                ops.push(Op::Line);
                o.line();
            }
            7 => {
                if at_ws && matches!(ops.last(), Some(Op::V(0, _))) {
                    g.emit_count_pair("degen_line_read_right_after_read_vec_0_at_whitespace");
                }
                ops.push(Op::Lines);
                while o.line().is_some() {}
            }
            8..=9 if mode == Between::Mix => {
                ops.push(Op::Eof);
                o.eof();
            }
            10..=13 if mode == Between::Mix => {
                ops.push(Op::V(0, v0_shape(rng)));
                g.emit_count_pair("degen_read_vec_0");
                continue;
            }
            _ => match token_call(rng, &mut o, data) {
                Some((op, kind)) => {
                    ops.push(op);
                    g.emit_count_pair(kind);
                }
                None => {
                    ops.push(Op::Line);
                    o.line();
                }
            },
        }
        between(g, rng, &mut o, &mut ops);
    }
    ops.push(Op::Line);
    if rng.chance(1, 2) {
        ops.push(Op::Lines);
    }
    ops.push(Op::Eof);
    ops
}

/// helper for the counter above: a vector (n >= 1) or tuple read
fn reads_tokens(op: Option<&Op>) -> bool {
    match op {
        Some(Op::V(n, _)) => *n >= 1,
        Some(Op::T(_)) => true,
        _ => false,
    }
}

const ALPHA: [u8; 6] = [b'1', b'-', b' ', b'\n', b'\r', b'a'];

fn small_input(mut idx: u64, n: usize) -> Vec<u8> {
    let mut v = vec![0u8; n];
    for i in (0..n).rev() {
        v[i] = ALPHA[(idx % 6) as usize];
        idx /= 6;
    }
    v
}

/// the fixed script shapes of the exhaustive part: a degenerate call at the start / after one call, then line reads to the end
fn small_shapes(rng: &mut SplitMix64, data: &[u8]) -> Vec<Vec<Op>> {
    let tail = |o: &Oracle| -> Vec<Op> {
        let rest = &o.d[o.p.min(o.d.len())..];
        let mut v = vec![Op::Line; count_lines(rest) + 1];
        v.push(Op::Eof);
        v
    };
    let mut out: Vec<Vec<Op>> = Vec::new();
    // read_vec(0) first
    {
        let o = Oracle::new(data);
        let mut ops = vec![Op::V(0, v0_shape(rng))];
        ops.extend(tail(&o));
        out.push(ops);
    }
    // read_vec(0) first, then read_lines
    out.push(vec![Op::V(0, v0_shape(rng)), Op::Lines, Op::Eof]);
    // one line, read_vec(0), the other lines
    {
        let mut o = Oracle::new(data);
        o.line();
        let mut ops = vec![Op::Line, Op::V(0, v0_shape(rng))];
        ops.extend(tail(&o));
        out.push(ops);
    }
    // one token call (read / read_vec(1) / tuple / one-row vector), [read_vec(0)], then the lines
    for with_v0 in [true, false] {
        let mut o = Oracle::new(data);
        if let Some((op, _)) = token_call(rng, &mut o, data) {
            let mut ops = vec![op];
            if with_v0 {
                ops.push(Op::V(0, v0_shape(rng)));
            }
            ops.extend(tail(&o));
            out.push(ops);
        }
    }
    // the first token as read_vec(1), then the lines
    {
        let mut o = Oracle::new(data);
        if let Some((s, e)) = o.peek_token() {
            let a = choose_atom(rng, &data[s..e]);
            let mut scratch = String::new();
            if o.atom(a, &mut scratch) {
                let mut ops = vec![Op::V(1, vec![a])];
                ops.extend(tail(&o));
                out.push(ops);
            }
        }
    }
    out
}

fn note_v0_then_line(g: &mut Gen, data: &[u8], ops: &[Op]) {
    // does some read_vec(0) stand at whitespace with a line read as the next call? (what C08_m13 needs)
    let mut o = Oracle::new(data);
    let mut scratch = String::new();
    for (i, op) in ops.iter().enumerate() {
        if let Op::V(0, _) = op {
            let at_ws = o.p < data.len() && crate::is_ws(data[o.p]);
            if at_ws && matches!(ops.get(i + 1), Some(Op::Line) | Some(Op::Lines)) {
                g.emit_count_pair("cases_read_vec_0_at_whitespace_then_line_read");
                return;
            }
        }
        scratch.clear();
        if !o.op(op, &mut scratch) {
            return;
        }
    }
}

pub fn stream_degenerate(g: &mut Gen, rng: &mut SplitMix64, thorough: bool) {
    const STREAM: &str = "stream8_degenerate_args_then_lines";
    // 8a exhaustive: every input over {1,-,space,LF,CR,a} up to a length, fixed shapes, all at once and byte by byte
    let upto = g.size(thorough, (3, 4), (2, 3));
    let sample: &[(usize, usize)] = if thorough { &[(5, 400), (6, 200)] } else { &[(4, 40), (5, 20)] };
    let mut inputs: Vec<Vec<u8>> = Vec::new();
    for n in 0..=upto {
        for idx in 0..6u64.pow(n as u32) {
            inputs.push(small_input(idx, n));
        }
    }
    if !g.lite() || thorough {
        for &(n, cnt) in sample {
            for _ in 0..cnt {
                inputs.push(small_input(rng.below(6u64.pow(n as u32)), n));
            }
        }
    } else {
        for _ in 0..40 {
            let n = 3 + rng.below(3) as usize;
            inputs.push(small_input(rng.below(6u64.pow(n as u32)), n));
        }
    }
    for input in &inputs {
        for ops in small_shapes(rng, input) {
            let p = prep(input, &ops);
            note_v0_then_line(g, input, &ops);
            g.emit_count_pair("pairs_stream8");
            g.emit(STREAM, &p, &[], "sched_all_at_once");
            if !input.is_empty() {
                let mut s = Sched::new();
                if rng.chance(1, 3) {
                    push_item(&mut s, Item::Intr, 1);
                }
                push_item(&mut s, Item::Chunk(1), input.len() as u64);
                g.emit(STREAM, &p, &s, "sched_byte_by_byte");
            }
        }
    }
    // 8b random: line-oriented, grammar and special inputs; calls of every form mixed with line reads
    let count = g.size(thorough, (260, 24_000), (120, 3000));
    for i in 0..count {
        let data: Vec<u8> = match rng.below(10) {
            0..=4 => lines_input(rng),
            5..=7 => grammar_input(rng).data,
            8 => LINE_SPECIALS[rng.below(LINE_SPECIALS.len() as u64) as usize].to_vec(),
            _ => {
                // a count line, then that many values (often zero), then text lines: `let n = read(); let v = read_vec(n);`
                let n = if rng.chance(1, 2) { 0 } else { rng.below(4) };
                let mut d = format!("{}", n).into_bytes();
                rand_sep(rng, &mut d);
                for _ in 0..n {
                    d.extend(int_token(rng, Atom::I32));
                    rand_sep(rng, &mut d);
                }
                d.extend(lines_input(rng));
                d
            }
        };
        let mode = match i % 4 {
            0 | 1 => Between::Mix,
            2 => Between::EofEverywhere,
            _ => Between::V0Everywhere,
        };
        let ops = degenerate_script(g, rng, &data, mode);
        let p = prep(&data, &ops);
        note_v0_then_line(g, &data, &ops);
        g.emit_count_pair("pairs_stream8");
        let mut kinds = pick_kinds(rng, &data, true);
        kinds.truncate(2);
        emit_under(g, rng, STREAM, &p, &kinds);
    }
}

// ---------------------------------------------------------------------------------------------
// (9) long runs delivered in very many small reads, on a small stack
// ---------------------------------------------------------------------------------------------

#[derive(Clone, Copy, PartialEq, Eq, Debug)]
enum Run {
    Line,
    LineWithCrs,
    Token,
    Blanks,
    EmptyLines,
    CrLfLines,
    ZeroPaddedInt,
    TinyTokens,
    TinyLines,
}

const RUNS: [Run; 9] =
    [Run::Line, Run::Token, Run::Blanks, Run::ZeroPaddedInt, Run::TinyTokens, Run::EmptyLines, Run::LineWithCrs, Run::TinyLines, Run::CrLfLines];

fn run_name(r: Run) -> &'static str {
    match r {
        Run::Line => "long_run_one_line",
        Run::LineWithCrs => "long_run_one_line_with_bare_crs",
        Run::Token => "long_run_one_token",
        Run::Blanks => "long_run_blanks_before_a_token",
        Run::EmptyLines => "long_run_empty_lines",
        Run::CrLfLines => "long_run_crlf_empty_lines",
        Run::ZeroPaddedInt => "long_run_zero_padded_integer",
        Run::TinyTokens => "long_run_very_many_one_digit_tokens",
        Run::TinyLines => "long_run_very_many_one_byte_lines",
    }
}

/// (input, script of at most 5 calls); the script is valid by construction
fn long_case(rng: &mut SplitMix64, run: Run, len: usize) -> (Vec<u8>, Vec<Op>) {
    let mut d: Vec<u8> = Vec::with_capacity(len + 64);
    if rng.chance(1, 3) {
        d.extend_from_slice(b"5 x\n");
    }
    let pre = d.len();
    let lead: Vec<Op> = if pre > 0 { vec![Op::Line] } else { vec![] };
    let ops: Vec<Op> = match run {
        Run::Line | Run::LineWithCrs => {
            // one line of `len` bytes: printable bytes incl. blanks (no LF), then LF / CR LF / nothing, then a short line
            for _ in 0..len {
                let b = 0x20 + rng.below(0x7e - 0x20 + 1) as u8;
                d.push(if run == Run::LineWithCrs && rng.chance(1, 50) { b'\r' } else { b });
            }
            match rng.below(3) {
                0 => d.push(b'\n'),
                1 => d.extend_from_slice(b"\r\n"),
                _ => {}
            }
            let unterminated = *d.last().unwrap() != b'\n';
            if !unterminated {
                d.extend_from_slice(b" tail 12\r\n");
            }
            match rng.below(4) {
                0 => vec![Op::Line, Op::Line, Op::Line, Op::Eof],
                1 => vec![Op::Lines, Op::Eof],
                2 => vec![Op::V(0, vec![Atom::Str]), Op::Line, Op::Lines],
                _ => vec![Op::Line, Op::Eof, Op::Lines],
            }
        }
        Run::Token => {
            for _ in 0..len {
                d.push(0x21 + rng.below(0x7e - 0x21 + 1) as u8);
            }
            let variant = rng.below(5);
            // (the last script reads the token as a LINE and then the number: the number must be on the next line)
            d.extend_from_slice(if variant != 4 && rng.chance(1, 2) { b" 7\n" } else { b"\r\n7 " });
            match variant {
                0 => vec![Op::R(Atom::Str), Op::R(Atom::I32), Op::Eof],
                1 => vec![Op::V(1, vec![Atom::Str]), Op::Line, Op::Line],
                2 => vec![Op::T(vec![Atom::Str, Atom::U8]), Op::Lines],
                3 => vec![Op::R(Atom::Chr), Op::R(Atom::Str), Op::Line, Op::Eof],
                _ => vec![Op::Line, Op::R(Atom::I64), Op::Eof],
            }
        }
        Run::Blanks => {
            let lf = rng.chance(1, 2);
            for _ in 0..len {
                d.push(match rng.below(if lf { 40 } else { 8 }) {
                    0 => b'\t',
                    1 => 0x0c,
                    2 if lf => b'\n',
                    3 if lf => b'\r',
                    _ => b' ',
                });
            }
            d.extend_from_slice(b"42 x\n");
            match rng.below(5) {
                0 => vec![Op::Eof, Op::R(Atom::I32), Op::Line],
                1 => vec![Op::R(Atom::U8), Op::R(Atom::Str), Op::Eof],
                2 => vec![Op::T(vec![Atom::Chr, Atom::Chr, Atom::Str]), Op::Line, Op::Line],
                3 => vec![Op::V(1, vec![Atom::I64, Atom::Chr]), Op::Lines],
                _ => vec![Op::V(0, vec![Atom::I32]), Op::Line, Op::Eof],
            }
        }
        Run::EmptyLines | Run::CrLfLines => {
            let unit: &[u8] = if run == Run::EmptyLines { b"\n" } else { b"\r\n" };
            for _ in 0..len / unit.len() {
                d.extend_from_slice(unit);
            }
            d.extend_from_slice(b"9");
            match rng.below(3) {
                0 => vec![Op::Lines, Op::Eof],
                1 => vec![Op::Line, Op::Eof, Op::R(Atom::U8), Op::Line],
                _ => vec![Op::R(Atom::I8), Op::Lines],
            }
        }
        Run::ZeroPaddedInt => {
            // a valid decimal token: leading zeros do not change the value
            let a = *rng.pick(&[Atom::I64, Atom::U8, Atom::I8, Atom::U128, Atom::I32, Atom::Usize]);
            let t = int_token(rng, a);
            let (sign, digits) = if t[0] == b'-' { (&t[..1], &t[1..]) } else { (&t[..0], &t[..]) };
            d.extend_from_slice(sign);
            for _ in 0..len {
                d.push(b'0');
            }
            d.extend_from_slice(digits);
            d.extend_from_slice(b" x\n");
            match rng.below(3) {
                0 => vec![Op::R(a), Op::R(Atom::Str), Op::Eof],
                1 => vec![Op::V(1, vec![a]), Op::Line, Op::Line],
                _ => vec![Op::T(vec![a, Atom::Chr]), Op::Lines],
            }
        }
        Run::TinyTokens => {
            let n = len / 2;
            for i in 0..n {
                d.push(b'0' + ((i as u64 + rng.below(3)) % 10) as u8);
                d.push(if i % 16 == 15 { b'\n' } else { b' ' });
            }
            d.extend_from_slice(b"end\n");
            match rng.below(4) {
                0 => vec![Op::V(n, vec![Atom::U8]), Op::R(Atom::Str), Op::Eof],
                1 => vec![Op::V(n / 2, vec![Atom::I64, Atom::Chr]), Op::Line, Op::Line],
                2 => vec![Op::V(n / 8, vec![Atom::Chr; 8]), Op::Line, Op::Lines],
                _ => vec![Op::V(n - 1, vec![Atom::Str]), Op::T(vec![Atom::I8, Atom::Str]), Op::Eof],
            }
        }
        Run::TinyLines => {
            for i in 0..len / 2 {
                d.push(b'a' + (i % 26) as u8);
                d.push(b'\n');
            }
            match rng.below(2) {
                0 => vec![Op::Lines, Op::Line],
                _ => vec![Op::Line, Op::Lines, Op::Eof],
            }
        }
    };
    let mut all = lead;
    all.extend(ops);
    // every script above is valid on its input by construction; make sure (a generator bug must not look like a finding)
    assert_eq!(crate::oracle_run(&d, &all).len(), all.len(), "generator bug: script not valid on its input");
    (d, all)
}

const LONG_KINDS: [&str; 6] = [
    "sched_byte_by_byte",
    "sched_all_7s",
    "sched_byte_by_byte_with_interrupts",
    "sched_all_at_once",
    "sched_all_2s",
    "sched_random_1_3",
];

fn long_sched(rng: &mut SplitMix64, kind: usize, n: usize) -> Sched {
    let mut s = Sched::new();
    match kind {
        0 => push_item(&mut s, Item::Chunk(1), n as u64),
        1 => push_item(&mut s, Item::Chunk(7), (n as u64 + 6) / 7),
        2 => {
            push_item(&mut s, Item::Chunk(1), n as u64);
            s = sprinkle(rng, &s, false);
        }
        3 => {}
        4 => push_item(&mut s, Item::Chunk(2), (n as u64 + 1) / 2),
        _ => {
            let mut pos = 0usize;
            while pos < n {
                let k = 1 + rng.below(3) as usize;
                let c = 1 + rng.below(200);
                push_item(&mut s, Item::Chunk(k), c);
                pos += k * c as usize;
            }
        }
    }
    s
}

pub fn stream_long_runs(g: &mut Gen, rng: &mut SplitMix64, thorough: bool) {
    const STREAM: &str = "stream9_long_runs_tiny_reads_small_stack";
    let b = g.buf();
    // quick: every kind of run once at 10..14 thousand bytes (byte by byte) and once at 30..45 thousand bytes
    // (rotating schedules); thorough: more of them and up to 3*BUF
    let count = g.size(thorough, (18, 160), (18, 60));
    for i in 0..count {
        let run = RUNS[i % RUNS.len()];
        let round = i / RUNS.len();
        let len = match round {
            0 => 10_000 + rng.below(4_000) as usize,
            1 => 30_000 + rng.below(15_000) as usize,
            _ => match rng.below(4) {
                0 => b + 1 + rng.below(b as u64) as usize,
                1 => 3 * b + rng.below(b as u64) as usize,
                _ => 8_000 + rng.below(60_000) as usize,
            },
        };
        let kind = match round {
            0 => 0,
            1 => [1, 0, 2, 3, 4, 5][i % 6],
            _ => rng.below(6) as usize,
        };
        let (data, ops) = long_case(rng, run, len);
        let p = prep(&data, &ops);
        let s = long_sched(rng, kind, data.len());
        g.emit_count_pair(run_name(run));
        if kind != 3 {
            g.emit_count_pair("cases_long_run_in_more_than_1000_reads");
        }
        g.emit_ss(STREAM, &p, &s, LONG_KINDS[kind]);
    }
}
