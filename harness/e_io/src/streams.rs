//! Streams (1) exhaustive small, (2) grammar, (3) lines, (6) out-of-domain.
use crate::common::*;
use crate::gen::*;
use crate::{int_value, Atom, Item, Op, Oracle, Sched, INT_ATOMS};
use std::collections::HashMap;

// ---------------------------------------------------------------------------------------------
// (1) exhaustive small scope: all chunkings x all single-interrupt placements
// ---------------------------------------------------------------------------------------------

const ALPHA: [u8; 6] = [b'1', b'-', b' ', b'\n', b'\r', b'a'];

fn small_input(mut idx: u64, n: usize) -> Vec<u8> {
    let mut v = vec![0u8; n];
    for i in (0..n).rev() {
        v[i] = ALPHA[(idx % 6) as usize];
        idx /= 6;
    }
    v
}

/// the same alphabet plus NUL (a token byte; also the value `peek` yields at end of input)
const ALPHA7: [u8; 7] = [b'1', b'-', b' ', b'\n', b'\r', b'a', 0];

fn small_input7(mut idx: u64, n: usize) -> Vec<u8> {
    let mut v = vec![0u8; n];
    for i in (0..n).rev() {
        v[i] = ALPHA7[(idx % 7) as usize];
        idx /= 7;
    }
    v
}

pub fn count_lines(data: &[u8]) -> usize {
    let mut o = Oracle::new(data);
    let mut k = 0;
    while o.line().is_some() {
        k += 1;
    }
    k
}

pub fn small_token_script(rng: &mut SplitMix64, data: &[u8]) -> Vec<Op> {
    let mut o = Oracle::new(data);
    let mut ops = Vec::new();
    let mut scratch = String::new();
    loop {
        if rng.chance(1, 6) {
            ops.push(Op::Eof);
            o.eof();
        }
        let (s, e) = match o.peek_token() {
            Some(t) => t,
            None => break,
        };
        if rng.chance(1, 10) {
            ops.push(Op::Line);
            o.line();
            continue;
        }
        let tok = &data[s..e];
        let ints: Vec<Atom> =
            [Atom::I8, Atom::I64, Atom::U8].iter().copied().filter(|a| int_value(*a, tok).is_some()).collect();
        let a = if !ints.is_empty() && rng.chance(1, 2) {
            *rng.pick(&ints)
        } else if rng.chance(1, 2) {
            Atom::Str
        } else {
            Atom::Chr
        };
        scratch.clear();
        assert!(o.atom(a, &mut scratch));
        ops.push(Op::R(a));
    }
    ops.push(Op::Eof);
    ops
}

fn small_pair(g: &mut Gen, rng: &mut SplitMix64, input: &[u8], sk: u64) {
    let ops: Vec<Op> = match sk {
        0 => {
            let mut v = vec![Op::Line; count_lines(input) + 1];
            v.push(Op::Eof);
            v
        }
        1 => vec![Op::Lines, Op::Eof],
        _ => small_token_script(rng, input),
    };
    let p = prep(input, &ops);
    g.emit_count_pair("pairs_stream1");
    let n = input.len();
    if n == 0 {
        g.emit("stream1_small_exhaustive", &p, &[], "sched_exhaustive_plain");
        g.emit("stream1_small_exhaustive", &p, &[(Item::Intr, 1)], "sched_exhaustive_one_interrupt");
        return;
    }
    for mask in 0u32..(1 << (n - 1)) {
        let mut chunks: Vec<usize> = Vec::new();
        let mut cur = 1usize;
        for j in 0..n - 1 {
            if mask >> j & 1 == 1 {
                chunks.push(cur);
                cur = 1;
            } else {
                cur += 1;
            }
        }
        chunks.push(cur);
        let mut s = Sched::new();
        for &c in &chunks {
            push_item(&mut s, Item::Chunk(c), 1);
        }
        g.emit("stream1_small_exhaustive", &p, &s, "sched_exhaustive_plain");
        for at in 0..=chunks.len() {
            let mut s = Sched::new();
            for (i, &c) in chunks.iter().enumerate() {
                if i == at {
                    push_item(&mut s, Item::Intr, 1);
                }
                push_item(&mut s, Item::Chunk(c), 1);
            }
            if at == chunks.len() {
                push_item(&mut s, Item::Intr, 1);
            }
            g.emit("stream1_small_exhaustive", &p, &s, "sched_exhaustive_one_interrupt");
        }
    }
}

pub fn stream_small(g: &mut Gen, rng: &mut SplitMix64, thorough: bool) {
    let full_upto = g.size(thorough, (3, 4), (2, 3));
    for n in 0..=full_upto {
        for idx in 0..6u64.pow(n as u32) {
            let input = small_input(idx, n);
            for sk in 0..3 {
                small_pair(g, rng, &input, sk);
            }
        }
    }
    // inputs with at least one NUL byte over the 7-letter alphabet: all of them up to length 2 (thorough: 4), a sample above
    let nul_upto = g.size(thorough, (2, 4), (1, 2));
    for n in 1..=nul_upto {
        for idx in 0..7u64.pow(n as u32) {
            let input = small_input7(idx, n);
            if input.contains(&0) {
                for sk in 0..3 {
                    small_pair(g, rng, &input, sk);
                }
            }
        }
    }
    let nul_plan: &[(usize, usize)] = if g.lite() { &[(2, 4), (3, 2)] } else if thorough { &[(5, 300), (6, 100)] } else { &[(3, 14), (4, 5), (5, 2)] };
    for &(n, cnt) in nul_plan {
        let mut done = 0;
        while done < cnt {
            let input = small_input7(rng.below(7u64.pow(n as u32)), n);
            if input.contains(&0) {
                let sk = rng.below(3);
                small_pair(g, rng, &input, sk);
                done += 1;
            }
        }
    }
    // sampled lengths: for each sampled (input, script) again all chunkings x single interrupts
    let plan: &[(usize, usize, bool)] = if g.lite() {
        if thorough { &[(4, 30, false), (5, 10, false)] } else { &[(3, 6, false), (4, 2, false)] }
    } else if thorough {
        &[(5, 2000, true), (6, 1000, true)]
    } else {
        &[(4, 6, false), (5, 3, false), (6, 2, false)]
    };
    for &(n, cnt, all_scripts) in plan {
        for _ in 0..cnt {
            let input = small_input(rng.below(6u64.pow(n as u32)), n);
            if all_scripts {
                for sk in 0..3 {
                    small_pair(g, rng, &input, sk);
                }
            } else {
                let sk = rng.below(3);
                small_pair(g, rng, &input, sk);
            }
        }
    }
}

// ---------------------------------------------------------------------------------------------
// (2) grammar: tokens x separators
// ---------------------------------------------------------------------------------------------

pub fn grammar_input(rng: &mut SplitMix64) -> Inp {
    let mut toks: Vec<(Vec<u8>, Atom)> = Vec::new();
    let segs = 1 + rng.below(3);
    for _ in 0..segs {
        match rng.below(4) {
            0 | 1 => {
                for _ in 0..rng.below(8) {
                    let a = rand_atom(rng);
                    toks.push((token_for(rng, a), a));
                }
            }
            2 => {
                // table: rows of one tuple shape
                let k = if rng.chance(1, 5) { 6 + rng.below(3) } else { 2 + rng.below(4) } as usize;
                let shape: Vec<Atom> = (0..k).map(|_| rand_atom(rng)).collect();
                for _ in 0..1 + rng.below(5) {
                    for &a in &shape {
                        toks.push((token_for(rng, a), a));
                    }
                }
            }
            _ => {
                let a = rand_atom(rng);
                for _ in 0..1 + rng.below(12) {
                    toks.push((token_for(rng, a), a));
                }
            }
        }
    }
    let mut data = Vec::new();
    let mut hints = HashMap::new();
    if rng.chance(1, 3) {
        rand_sep(rng, &mut data);
    }
    let nt = toks.len();
    for (i, (t, a)) in toks.into_iter().enumerate() {
        hints.insert(data.len(), a);
        data.extend_from_slice(&t);
        if i + 1 < nt || rng.chance(2, 3) {
            rand_sep(rng, &mut data);
        }
    }
    Inp { data, hints }
}

pub fn stream_grammar(g: &mut Gen, rng: &mut SplitMix64, thorough: bool) {
    let pairs = g.size(thorough, (1500, 133_000), (250, 4000));
    for _ in 0..pairs {
        let inp = grammar_input(rng);
        let strict = rng.chance(1, 2);
        let items = build_items(rng, &inp, strict, true, true);
        let ops = group(rng, &items);
        let p = prep(&inp.data, &ops);
        g.emit_count_pair("pairs_stream2");
        let kinds = pick_kinds(rng, &inp.data, false);
        emit_under(g, rng, "stream2_grammar", &p, &kinds);
    }
}

// ---------------------------------------------------------------------------------------------
// (3) line-oriented inputs
// ---------------------------------------------------------------------------------------------

pub fn lines_input(rng: &mut SplitMix64) -> Vec<u8> {
    let nl = rng.below(8) as usize;
    let mut out = Vec::new();
    for i in 0..nl {
        match rng.below(20) {
            0..=2 => {}
            3..=9 => {
                let l = 1 + rng.below(20) as usize;
                out.extend(printable(rng, l));
            }
            10..=13 => {
                for j in 0..1 + rng.below(4) {
                    if j > 0 {
                        out.push(b' ');
                    }
                    let a = *rng.pick(&[Atom::I32, Atom::I32, Atom::U8, Atom::I64, Atom::I8, Atom::U128, Atom::U128, Atom::I128, Atom::U64]);
                    out.extend(int_token(rng, a));
                }
            }
            14..=15 => {
                let (a, b) = (rng.below(8) as usize, rng.below(8) as usize);
                out.extend(printable(rng, a));
                out.push(b'\r');
                out.extend(printable(rng, b));
            }
            16..=17 => {
                let l = rng.below(10) as usize;
                out.extend(printable(rng, l));
                out.push(b'\r');
            }
            _ => {
                for j in 0..1 + rng.below(4) {
                    if j > 0 {
                        out.push(if rng.chance(1, 4) { b'\t' } else { b' ' });
                    }
                    let l = if rng.chance(1, 6) { 21 + rng.below(40) } else { 1 + rng.below(6) } as usize;
                    out.extend(word(rng, l));
                }
            }
        }
        if i + 1 == nl {
            match rng.below(4) {
                0 => {}
                1 => out.push(b'\r'),
                2 => out.push(b'\n'),
                _ => out.extend_from_slice(b"\r\n"),
            }
        } else if rng.chance(1, 2) {
            out.push(b'\n');
        } else {
            out.extend_from_slice(b"\r\n");
        }
    }
    out
}

fn lines_mixed_script(rng: &mut SplitMix64, data: &[u8]) -> Vec<Op> {
    let mut o = Oracle::new(data);
    let mut ops = Vec::new();
    let mut scratch = String::new();
    for _ in 0..40 {
        if o.p >= data.len() && rng.chance(1, 2) {
            break;
        }
        match rng.below(10) {
            0..=4 => {
                ops.push(Op::Line);
                o.line();
            }
            5 => {
                ops.push(Op::Eof);
                o.eof();
            }
            6..=8 => match o.peek_token() {
                Some((s, e)) => {
                    let v = valid_ints(&data[s..e]);
                    let a = if !v.is_empty() && rng.chance(3, 5) {
                        *rng.pick(&v)
                    } else if rng.chance(3, 4) {
                        Atom::Str
                    } else {
                        Atom::Chr
                    };
                    scratch.clear();
                    assert!(o.atom(a, &mut scratch));
                    ops.push(Op::R(a));
                }
                None => {
                    ops.push(Op::Line);
                    o.line();
                }
            },
            _ => {
                if rng.chance(1, 3) {
                    ops.push(Op::Lines);
                    while o.line().is_some() {}
                } else {
                    ops.push(Op::Line);
                    o.line();
                }
            }
        }
    }
    ops.push(Op::Line);
    ops.push(Op::Eof);
    ops
}

pub fn lines_scripts(rng: &mut SplitMix64, data: &[u8]) -> Vec<Vec<Op>> {
    let k = count_lines(data);
    let mut a = vec![Op::Line; k + 1 + rng.below(2) as usize];
    if rng.chance(1, 2) {
        a.push(Op::Eof);
    }
    let b = match rng.below(3) {
        0 => vec![Op::Lines, Op::Eof],
        1 => vec![Op::Lines, Op::Line, Op::Eof],
        _ => vec![Op::Line, Op::Lines, Op::Lines],
    };
    let c = lines_mixed_script(rng, data);
    vec![a, b, c]
}

pub const LINE_SPECIALS: [&[u8]; 34] = [
    // NUL is a byte like any other (it is also what `peek` returns at end of input); VT is not whitespace
    b"\0",
    b"a\0b",
    b"a\0b\n",
    b"\0\n\0",
    b"\r\0\n",
    b"\0\r\n\0\r",
    b"x \0 y\0",
    b"-\0 1\0",
    b"a\x0bb \x0b\n\x7f",
    b"12\0\r\n\0 7",
    b"",
    b"\r",
    b"\n",
    b"\r\n",
    b"\n\r",
    b"\r\r",
    b"\n\n",
    b"\r\r\n",
    b"\r\n\r",
    b"\r\n\r\n",
    b"\nabc\r",
    b"abc\r",
    b"abc\r\n",
    b"abc\n",
    b"abc",
    b"a\rb\n",
    b"a\rb",
    b"a\r\rb\r\n",
    b" \r\n ",
    b"12\r\n-7\r",
    b"12 34\r\nx y\r\n\r\nlast",
    b"\n\n\nabc\r",
    b"\nabc\r\n\r",
    b"5\r",
];

pub fn stream_lines(g: &mut Gen, rng: &mut SplitMix64, thorough: bool) {
    let rounds = g.size(thorough, (1, 40), (1, 2));
    for _ in 0..rounds {
        for sp in LINE_SPECIALS.iter() {
            for ops in lines_scripts(rng, sp) {
                let p = prep(sp, &ops);
                g.emit_count_pair("pairs_stream3");
                let mut kinds = vec![SK::All, SK::Intr];
                if !sp.is_empty() {
                    kinds.push(SK::Bytes);
                }
                if sp.contains(&b'\r') {
                    kinds.push(SK::AroundCr);
                }
                emit_under(g, rng, "stream3_lines", &p, &kinds);
            }
        }
    }
    let inputs = g.size(thorough, (330, 32_000), (60, 2000));
    for _ in 0..inputs {
        let data = lines_input(rng);
        for ops in lines_scripts(rng, &data) {
            let p = prep(&data, &ops);
            g.emit_count_pair("pairs_stream3");
            let kinds = pick_kinds(rng, &data, true);
            emit_under(g, rng, "stream3_lines", &p, &kinds);
        }
    }
}

// ---------------------------------------------------------------------------------------------
// (6) out-of-domain probes (small separate stream)
// ---------------------------------------------------------------------------------------------

fn non_numeric_word(rng: &mut SplitMix64, a: Atom) -> Vec<u8> {
    loop {
        let l = 1 + rng.below(6) as usize;
        let w = word(rng, l);
        if int_value(a, &w).is_none() {
            return w;
        }
    }
}

fn overflowing(rng: &mut SplitMix64, a: Atom) -> Vec<u8> {
    let signed = crate::is_signed(a);
    let max: u128 = match a {
        Atom::I8 => i8::MAX as u128,
        Atom::I16 => i16::MAX as u128,
        Atom::I32 => i32::MAX as u128,
        Atom::I64 | Atom::Isize => i64::MAX as u128,
        Atom::I128 => i128::MAX as u128,
        Atom::U8 => u8::MAX as u128,
        Atom::U16 => u16::MAX as u128,
        Atom::U32 => u32::MAX as u128,
        Atom::U64 | Atom::Usize => u64::MAX as u128,
        _ => u128::MAX,
    };
    match rng.below(4) {
        0 if max < u128::MAX => (max + 1).to_string().into_bytes(),
        1 if signed => format!("-{}", max + 2).into_bytes(),
        2 => {
            let mut s = max.to_string();
            s.push((b'0' + rng.below(10) as u8) as char);
            s.into_bytes()
        }
        _ => {
            let mut s: String = (0..41 + rng.below(5)).map(|_| (b'1' + rng.below(9) as u8) as char).collect();
            if signed && rng.chance(1, 2) {
                s.insert(0, '-');
            }
            s.into_bytes()
        }
    }
}

/// Bytes >= 0x80 (Latin-1 through `u8 as char`): outside the property's domain (it speaks of ASCII inputs), so these
/// cases exist only as `full` twin lines (`S any`): model and implementation are compared, differences are counted, never a verdict.
pub fn stream_non_ascii(g: &mut Gen, rng: &mut SplitMix64, thorough: bool) {
    let count = g.size(thorough, (40, 2000), (10, 100));
    for _ in 0..count {
        let mut data = Vec::new();
        let nt = 1 + rng.below(5);
        for i in 0..nt {
            let l = 1 + rng.below(6) as usize;
            let mut w = word(rng, l);
            for _ in 0..1 + rng.below(2) {
                let at = rng.below(w.len() as u64) as usize;
                w[at] = 0x80 + rng.below(0x80) as u8;
            }
            data.extend_from_slice(&w);
            if i + 1 < nt || rng.chance(1, 2) {
                rand_sep(rng, &mut data);
            }
        }
        let ops = if rng.chance(1, 2) { lines_mixed_script(rng, &data) } else { small_token_script(rng, &data) };
        let p = prep(&data, &ops);
        g.emit_count_pair("pairs_stream6b");
        emit_under(g, rng, "stream6b_non_ascii_counted_only", &p, &[SK::All, SK::Bytes]);
    }
}

pub fn stream_ood(g: &mut Gen, rng: &mut SplitMix64, thorough: bool) {
    let count = g.size(thorough, (100, 9000), (30, 500));
    const UNSIGNED: [Atom; 6] = [Atom::U8, Atom::U16, Atom::U32, Atom::U64, Atom::U128, Atom::Usize];
    const SIGNED: [Atom; 6] = [Atom::I8, Atom::I16, Atom::I32, Atom::I64, Atom::I128, Atom::Isize];
    for _ in 0..count {
        let a = *rng.pick(&INT_ATOMS);
        let (data, ops, what): (Vec<u8>, Vec<Op>, &'static str) = match rng.below(9) {
            0 => {
                let mut d = non_numeric_word(rng, a);
                d.extend_from_slice(b" 12\n");
                (d, vec![Op::R(a), Op::R(Atom::I32), Op::Eof], "ood_int_from_non_numeric_token")
            }
            1 => {
                let mut d = b"7 ".to_vec();
                d.extend(overflowing(rng, a));
                d.push(b'\n');
                (d, vec![Op::R(Atom::U8), Op::R(a), Op::Eof], "ood_token_overflows_type")
            }
            2 => {
                let u = *rng.pick(&UNSIGNED);
                let d = format!("-{} 3", rng.below(300)).into_bytes();
                (d, vec![Op::R(u), Op::R(Atom::Str)], "ood_unsigned_from_negative_token")
            }
            3 => {
                let d = format!("+{}\n", rng.below(100)).into_bytes();
                (d, vec![Op::R(a), Op::Eof], "ood_plus_sign")
            }
            4 => {
                let d = if rng.chance(1, 2) { b"12  \n".to_vec() } else { b"12".to_vec() };
                let last = if rng.chance(1, 2) { Op::R(Atom::Str) } else { Op::R(*rng.pick(&INT_ATOMS)) };
                (d, vec![Op::R(Atom::I32), Op::R(a), last, Op::Eof], "ood_read_past_the_end")
            }
            5 => {
                let d = b"1 2\n".to_vec();
                let op = match rng.below(4) {
                    0 => Op::T(vec![Atom::I32, a, a]),
                    1 => Op::V(3, vec![a]),
                    2 => Op::V(2, vec![Atom::I32, Atom::Str]),
                    _ => Op::T(vec![Atom::Str, Atom::Str, Atom::Str, a]),
                };
                (d, vec![op, Op::Eof, Op::Line], "ood_tuple_or_vec_past_the_end")
            }
            6 => {
                let s = *rng.pick(&SIGNED);
                let d: &[u8] = *rng.pick(&[&b"- 5"[..], b"--5 1", b"1-2 3", b"12a 4", b"-\n", b"1.5 2", b"0x10"]);
                (d.to_vec(), vec![Op::R(s), Op::R(Atom::Str), Op::Eof], "ood_malformed_number")
            }
            7 => {
                let d: &[u8] = *rng.pick(&[&b""[..], b" ", b"\n", b"\r\n \t"]);
                let op = if rng.chance(1, 2) { Op::R(a) } else { Op::R(Atom::Str) };
                (d.to_vec(), vec![op, Op::Eof, Op::Line], "ood_read_from_blank_input")
            }
            _ => {
                // overflow in the middle of a vector: later elements are never read
                let mut d = b"1 2 ".to_vec();
                d.extend(overflowing(rng, a));
                d.extend_from_slice(b" 4\n");
                (d, vec![Op::V(4, vec![a]), Op::Eof], "ood_overflow_inside_vec")
            }
        };
        let p = prep(&data, &ops);
        g.emit_count_pair(what);
        let second = if data.is_empty() {
            SK::Intr
        } else if rng.chance(1, 2) {
            SK::Bytes
        } else {
            SK::Intr
        };
        emit_under(g, rng, "stream6_out_of_domain", &p, &[SK::All, second]);
    }
}
