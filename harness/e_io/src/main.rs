//! Correspondence harness for engine `io`, reader half (property C08): drives rlib_io::Reader
//! through a schedule-driven `Read` source.
//!
//! case line:  `<BUF> <HEX> <SCHED> ; <op> ; <op> ; ...`
//! result:     `I <raw> | V <view>`   (view = raw + `!sched:` / `!oracle:` markers)
//! several live readers on one thread, interleaved: see multi.rs (case lines with `+` in the header)
#[path = "../../common/mod.rs"]
mod common;

use common::*;
use rlib_io::{Readable, Reader};
use std::cell::RefCell;
use std::fmt::Write as _;
use std::io::Read;

// ---------------------------------------------------------------------------------------------
// atoms
// ---------------------------------------------------------------------------------------------

#[derive(Clone, Copy, PartialEq, Eq, Debug, Hash, PartialOrd, Ord)]
pub enum Atom {
    I8,
    I16,
    I32,
    I64,
    I128,
    Isize,
    U8,
    U16,
    U32,
    U64,
    U128,
    Usize,
    Str,
    Chr,
}

pub const ATOMS: [(&str, Atom); 14] = [
    ("i8", Atom::I8),
    ("i16", Atom::I16),
    ("i32", Atom::I32),
    ("i64", Atom::I64),
    ("i128", Atom::I128),
    ("isize", Atom::Isize),
    ("u8", Atom::U8),
    ("u16", Atom::U16),
    ("u32", Atom::U32),
    ("u64", Atom::U64),
    ("u128", Atom::U128),
    ("usize", Atom::Usize),
    ("str", Atom::Str),
    ("chr", Atom::Chr),
];

pub const INT_ATOMS: [Atom; 12] = [
    Atom::I8,
    Atom::I16,
    Atom::I32,
    Atom::I64,
    Atom::I128,
    Atom::Isize,
    Atom::U8,
    Atom::U16,
    Atom::U32,
    Atom::U64,
    Atom::U128,
    Atom::Usize,
];

pub fn atom_name(a: Atom) -> &'static str {
    ATOMS.iter().find(|(_, x)| *x == a).unwrap().0
}

pub fn parse_atom(s: &str) -> Option<Atom> {
    ATOMS.iter().find(|(n, _)| *n == s).map(|(_, a)| *a)
}

pub fn is_signed(a: Atom) -> bool {
    matches!(a, Atom::I8 | Atom::I16 | Atom::I32 | Atom::I64 | Atom::I128 | Atom::Isize)
}

pub fn is_int(a: Atom) -> bool {
    !matches!(a, Atom::Str | Atom::Chr)
}

/// `with_int!(atom, T, body-using-T, fallback)`
macro_rules! with_int {
    ($a:expr, $T:ident, $body:expr, $other:expr) => {
        match $a {
            Atom::I8 => { type $T = i8; $body }
            Atom::I16 => { type $T = i16; $body }
            Atom::I32 => { type $T = i32; $body }
            Atom::I64 => { type $T = i64; $body }
            Atom::I128 => { type $T = i128; $body }
            Atom::Isize => { type $T = isize; $body }
            Atom::U8 => { type $T = u8; $body }
            Atom::U16 => { type $T = u16; $body }
            Atom::U32 => { type $T = u32; $body }
            Atom::U64 => { type $T = u64; $body }
            Atom::U128 => { type $T = u128; $body }
            Atom::Usize => { type $T = usize; $body }
            _ => $other,
        }
    };
}

/// `with_atom!(atom, T, body-using-T)` over all 14 atoms (str = String, chr = char)
macro_rules! with_atom {
    ($a:expr, $T:ident, $body:expr) => {
        match $a {
            Atom::Str => { type $T = String; $body }
            Atom::Chr => { type $T = char; $body }
            other => with_int!(other, $T, $body, unreachable!()),
        }
    };
}

mod big;
mod gen;
mod mgen;
mod multi;
mod streams;
mod wave4;

// ---------------------------------------------------------------------------------------------
// printing of results
// ---------------------------------------------------------------------------------------------

const HEXD: &[u8; 16] = b"0123456789abcdef";

pub fn hex2(o: &mut String, b: u32) {
    if b < 256 {
        o.push(HEXD[(b >> 4) as usize] as char);
        o.push(HEXD[(b & 15) as usize] as char);
    } else {
        // cannot happen with Reader (`byte as char`), but never print something ambiguous
        let _ = write!(o, "{{{:x}}}", b);
    }
}

pub fn hex_of(data: &[u8]) -> String {
    if data.is_empty() {
        return "-".to_string();
    }
    let mut s = String::with_capacity(data.len() * 2);
    for &b in data {
        hex2(&mut s, b as u32);
    }
    s
}

trait Show {
    fn show(&self, o: &mut String);
}

macro_rules! show_int {
    ($($t:ty),*) => {$(
        impl Show for $t {
            fn show(&self, o: &mut String) {
                o.push_str(&self.to_string());
            }
        }
    )*};
}
show_int!(i8, i16, i32, i64, i128, isize, u8, u16, u32, u64, u128, usize);

impl Show for String {
    fn show(&self, o: &mut String) {
        o.push('s');
        for c in self.chars() {
            hex2(o, c as u32);
        }
    }
}

impl Show for char {
    fn show(&self, o: &mut String) {
        o.push('c');
        hex2(o, *self as u32);
    }
}

impl<T: Show> Show for Vec<T> {
    fn show(&self, o: &mut String) {
        o.push('[');
        for (i, x) in self.iter().enumerate() {
            if i > 0 {
                o.push(',');
            }
            x.show(o);
        }
        o.push(']');
    }
}

macro_rules! show_tuple {
    ($($t:ident $i:tt),*) => {
        impl<$($t: Show,)*> Show for ($($t,)*) {
            fn show(&self, o: &mut String) {
                o.push('(');
                $(
                    if $i > 0 { o.push(','); }
                    self.$i.show(o);
                )*
                o.push(')');
            }
        }
    };
}
show_tuple!(A 0, B 1);
show_tuple!(A 0, B 1, C 2);
show_tuple!(A 0, B 1, C 2, D 3);
show_tuple!(A 0, B 1, C 2, D 3, E 4);
show_tuple!(A 0, B 1, C 2, D 3, E 4, F 5);
show_tuple!(A 0, B 1, C 2, D 3, E 4, F 5, G 6);
show_tuple!(A 0, B 1, C 2, D 3, E 4, F 5, G 6, H 7);

fn show_line(s: &str, o: &mut String) {
    o.push('L');
    for c in s.chars() {
        hex2(o, c as u32);
    }
}

// ---------------------------------------------------------------------------------------------
// Dyn: a Readable whose concrete type is taken from a thread-local cyclic pattern, so that tuples
// and vectors of tuples go through rlib's real tuple impls.
// ---------------------------------------------------------------------------------------------

thread_local! {
    static DYNQ: RefCell<(Vec<Atom>, usize)> = RefCell::new((Vec::new(), 0));
}

fn dyn_set(p: &[Atom]) {
    DYNQ.with(|q| {
        let mut q = q.borrow_mut();
        q.0.clear();
        q.0.extend_from_slice(p);
        q.1 = 0;
    });
}

pub fn dyn_clear() {
    dyn_set(&[]);
}

struct Dyn(String);

impl Readable for Dyn {
    fn read(reader: &mut Reader) -> Self {
        let a = DYNQ.with(|q| {
            let mut q = q.borrow_mut();
            if q.0.is_empty() {
                panic!("harness: Dyn pattern empty");
            }
            let a = q.0[q.1 % q.0.len()];
            q.1 += 1;
            a
        });
        let mut s = String::new();
        with_atom!(a, T, reader.read::<T>().show(&mut s));
        Dyn(s)
    }
}

impl Show for Dyn {
    fn show(&self, o: &mut String) {
        o.push_str(&self.0);
    }
}

// ---------------------------------------------------------------------------------------------
// schedule-driven source
// ---------------------------------------------------------------------------------------------

#[derive(Clone, Copy, PartialEq, Eq, Debug)]
pub enum Item {
    Chunk(usize),
    Intr,
}

pub type Sched = Vec<(Item, u64)>;

pub struct Source<'a> {
    data: &'a [u8],
    pos: usize,
    items: &'a [(Item, u64)],
    idx: usize,
    used: u64,
    pending: usize,
    calls: u64,
    first_room: Option<usize>,
}

impl<'a> Source<'a> {
    pub fn new(data: &'a [u8], items: &'a [(Item, u64)]) -> Self {
        Source { data, pos: 0, items, idx: 0, used: 0, pending: 0, calls: 0, first_room: None }
    }

    fn next_item(&mut self) -> Option<Item> {
        while self.idx < self.items.len() {
            let (it, cnt) = self.items[self.idx];
            if self.used < cnt {
                self.used += 1;
                return Some(it);
            }
            self.idx += 1;
            self.used = 0;
        }
        None
    }
}

impl<'a> Read for Source<'a> {
    fn read(&mut self, buf: &mut [u8]) -> std::io::Result<usize> {
        if self.first_room.is_none() {
            self.first_room = Some(buf.len());
        }
        self.calls += 1;
        loop {
            if self.pending == 0 {
                match self.next_item() {
                    Some(Item::Intr) => return Err(std::io::Error::from(std::io::ErrorKind::Interrupted)),
                    Some(Item::Chunk(k)) => {
                        if self.pos == self.data.len() {
                            // a chunk item with no data left is skipped (all repetitions of it at once)
                            self.used = self.items[self.idx].1;
                            continue;
                        }
                        self.pending = k.min(self.data.len() - self.pos);
                    }
                    None => {
                        if self.pos == self.data.len() {
                            return Ok(0);
                        }
                        self.pending = self.data.len() - self.pos;
                    }
                }
            }
            let n = self.pending.min(buf.len());
            buf[..n].copy_from_slice(&self.data[self.pos..self.pos + n]);
            self.pos += n;
            self.pending -= n;
            return Ok(n);
        }
    }
}

// ---------------------------------------------------------------------------------------------
// ops
// ---------------------------------------------------------------------------------------------

#[derive(Clone, PartialEq, Eq, Debug)]
pub enum Op {
    R(Atom),
    T(Vec<Atom>),
    /// read_vec of n single atoms (1 atom) or n tuples (2..=8 atoms)
    V(usize, Vec<Atom>),
    Line,
    Lines,
    Eof,
}

/// sanity cap on `v:<n>:` (never reached by the generator; avoids an allocation abort on garbage lines)
const MAX_VEC_N: usize = 1 << 26;

fn parse_atoms(s: &str, lo: usize, hi: usize) -> Option<Vec<Atom>> {
    let v: Option<Vec<Atom>> = s.split(',').map(parse_atom).collect();
    let v = v?;
    if v.len() < lo || v.len() > hi {
        return None;
    }
    Some(v)
}

pub fn parse_dec(s: &str) -> Option<u64> {
    if s.is_empty() || !s.bytes().all(|b| b.is_ascii_digit()) {
        return None;
    }
    s.parse::<u64>().ok()
}

pub fn parse_op(s: &str) -> Option<Op> {
    match s {
        "line" => return Some(Op::Line),
        "lines" => return Some(Op::Lines),
        "eof" => return Some(Op::Eof),
        _ => {}
    }
    if let Some(r) = s.strip_prefix("r:") {
        return parse_atom(r).map(Op::R);
    }
    if let Some(r) = s.strip_prefix("t:") {
        return parse_atoms(r, 2, 8).map(Op::T);
    }
    if let Some(r) = s.strip_prefix("v:") {
        let (n, atoms) = r.split_once(':')?;
        let n = parse_dec(n)? as usize;
        if n > MAX_VEC_N {
            return None;
        }
        return parse_atoms(atoms, 1, 8).map(|a| Op::V(n, a));
    }
    None
}

pub fn fmt_atoms(v: &[Atom]) -> String {
    v.iter().map(|a| atom_name(*a)).collect::<Vec<_>>().join(",")
}

pub fn fmt_op(op: &Op) -> String {
    match op {
        Op::R(a) => format!("r:{}", atom_name(*a)),
        Op::T(v) => format!("t:{}", fmt_atoms(v)),
        Op::V(n, v) => format!("v:{}:{}", n, fmt_atoms(v)),
        Op::Line => "line".into(),
        Op::Lines => "lines".into(),
        Op::Eof => "eof".into(),
    }
}

pub fn parse_sched(s: &str) -> Option<Sched> {
    let mut out = Vec::new();
    if s == "-" {
        return Some(out);
    }
    for item in s.split(',') {
        let (k, n) = match item.split_once('x') {
            Some((k, n)) => (k, parse_dec(n)?),
            None => (item, 1),
        };
        if n < 1 {
            return None;
        }
        let it = if k == "i" {
            Item::Intr
        } else {
            let k = parse_dec(k)?;
            if k < 1 {
                return None;
            }
            Item::Chunk(k as usize)
        };
        out.push((it, n));
    }
    Some(out)
}

pub fn fmt_sched(s: &[(Item, u64)]) -> String {
    if s.is_empty() {
        return "-".to_string();
    }
    let mut o = String::new();
    for &(it, n) in s {
        let one = match it {
            Item::Intr => "i".to_string(),
            Item::Chunk(k) => k.to_string(),
        };
        if n >= 4 {
            if !o.is_empty() {
                o.push(',');
            }
            let _ = write!(o, "{}x{}", one, n);
        } else {
            for _ in 0..n {
                if !o.is_empty() {
                    o.push(',');
                }
                o.push_str(&one);
            }
        }
    }
    o
}

pub fn parse_hex(s: &str) -> Option<Vec<u8>> {
    if s == "-" {
        return Some(Vec::new());
    }
    let b = s.as_bytes();
    if b.is_empty() || b.len() % 2 != 0 {
        return None;
    }
    let val = |c: u8| -> Option<u8> {
        match c {
            b'0'..=b'9' => Some(c - b'0'),
            b'a'..=b'f' => Some(c - b'a' + 10),
            _ => None,
        }
    };
    let mut out = Vec::with_capacity(b.len() / 2);
    for p in b.chunks(2) {
        out.push(val(p[0])? * 16 + val(p[1])?);
    }
    Some(out)
}

pub struct Case {
    pub buf: usize,
    pub full: bool,
    /// 4th header token `ss`: the case is run in a child process on a thread with a deliberately small stack (wave 4)
    pub ss: bool,
    pub data: Vec<u8>,
    pub sched: Sched,
    pub ops: Vec<Op>,
}

pub fn parse_case(line: &str) -> Option<Case> {
    let mut parts = line.split(';').map(|p| p.trim());
    let hdr: Vec<&str> = parts.next()?.split_whitespace().collect();
    // optional 4th header token `full`: print ALL results as raw and `any` as view (out-of-domain twins: the
    // check only counts model/implementation differences on them)
    let full = hdr.len() == 4 && hdr[3] == "full";
    // 4th header token `ss`: same case, but run on a small stack (see `run_in_small_stack_child`); the model ignores it
    let ss = hdr.len() == 4 && hdr[3] == "ss";
    if hdr.len() != 3 && !full && !ss {
        return None;
    }
    let buf = parse_dec(hdr[0])? as usize;
    if buf < 1 {
        return None;
    }
    let data = parse_hex(hdr[1])?;
    let sched = parse_sched(hdr[2])?;
    let mut ops = Vec::new();
    for p in parts {
        ops.push(parse_op(p)?);
    }
    Some(Case { buf, data, sched, ops, full, ss })
}

// ---------------------------------------------------------------------------------------------
// running a script on the real Reader
// ---------------------------------------------------------------------------------------------

macro_rules! by_arity {
    ($k:expr, $D:ident, $body:expr) => {
        match $k {
            2 => { type $D = (Dyn, Dyn); $body }
            3 => { type $D = (Dyn, Dyn, Dyn); $body }
            4 => { type $D = (Dyn, Dyn, Dyn, Dyn); $body }
            5 => { type $D = (Dyn, Dyn, Dyn, Dyn, Dyn); $body }
            6 => { type $D = (Dyn, Dyn, Dyn, Dyn, Dyn, Dyn); $body }
            7 => { type $D = (Dyn, Dyn, Dyn, Dyn, Dyn, Dyn, Dyn); $body }
            8 => { type $D = (Dyn, Dyn, Dyn, Dyn, Dyn, Dyn, Dyn, Dyn); $body }
            _ => panic!("harness: bad arity"),
        }
    };
}

pub fn run_op(reader: &mut Reader, op: &Op) -> String {
    let mut o = String::new();
    match op {
        Op::R(a) => with_atom!(*a, T, reader.read::<T>().show(&mut o)),
        Op::T(atoms) => {
            dyn_set(atoms);
            by_arity!(atoms.len(), D, reader.read::<D>().show(&mut o))
        }
        Op::V(n, atoms) if atoms.len() == 1 => {
            with_atom!(atoms[0], T, reader.read_vec::<T>(*n).show(&mut o))
        }
        Op::V(n, atoms) => {
            dyn_set(atoms);
            by_arity!(atoms.len(), D, reader.read_vec::<D>(*n).show(&mut o))
        }
        Op::Line => match reader.read_line() {
            Some(s) => show_line(&s, &mut o),
            None => o.push_str("none"),
        },
        Op::Lines => {
            let ls = reader.read_lines();
            o.push_str("lines[");
            for (i, l) in ls.iter().enumerate() {
                if i > 0 {
                    o.push(',');
                }
                show_line(l, &mut o);
            }
            o.push(']');
        }
        Op::Eof => o.push_str(if reader.is_eof() { "true" } else { "false" }),
    }
    o
}

pub struct Exec {
    pub results: Vec<String>,
    pub panicked: bool,
}

pub fn exec(data: &[u8], sched: &[(Item, u64)], ops: &[Op]) -> Exec {
    let mut src = Source::new(data, sched);
    let mut results = Vec::with_capacity(ops.len());
    let mut panicked = false;
    {
        let mut reader = Reader::new(Box::new(&mut src));
        for op in ops {
            match catch(|| run_op(&mut reader, op)) {
                Ok(s) => results.push(s),
                Err(p) => {
                    results.push(p);
                    panicked = true;
                    break;
                }
            }
        }
        dyn_clear();
    }
    Exec { results, panicked }
}

pub fn join_results(r: &[String]) -> String {
    if r.is_empty() {
        "-".to_string()
    } else {
        r.join(" ")
    }
}

// ---------------------------------------------------------------------------------------------
// independent oracle: a straightforward tokenizer on the byte slice
// ---------------------------------------------------------------------------------------------

pub fn is_ws(b: u8) -> bool {
    matches!(b, 0x20 | 0x09 | 0x0a | 0x0c | 0x0d)
}

/// value of a token as an integer of type `a`, printed in decimal; None = not oracle-able
pub fn int_value(a: Atom, tok: &[u8]) -> Option<String> {
    let digits = if is_signed(a) && tok.first() == Some(&b'-') { &tok[1..] } else { tok };
    if digits.is_empty() || !digits.iter().all(|b| b.is_ascii_digit()) {
        return None;
    }
    let s = std::str::from_utf8(tok).ok()?;
    with_int!(a, T, s.parse::<T>().ok().map(|v| v.to_string()), None)
}

pub struct Oracle<'a> {
    pub d: &'a [u8],
    pub p: usize,
}

impl<'a> Oracle<'a> {
    pub fn new(d: &'a [u8]) -> Self {
        Oracle { d, p: 0 }
    }
    pub fn skip_ws(&mut self) {
        while self.p < self.d.len() && is_ws(self.d[self.p]) {
            self.p += 1;
        }
    }
    pub fn next_token(&mut self) -> Option<&'a [u8]> {
        self.skip_ws();
        let s = self.p;
        while self.p < self.d.len() && !is_ws(self.d[self.p]) {
            self.p += 1;
        }
        if s == self.p {
            None
        } else {
            Some(&self.d[s..self.p])
        }
    }
    /// (start, end) of the next token without consuming anything
    pub fn peek_token(&self) -> Option<(usize, usize)> {
        let mut c = Oracle { d: self.d, p: self.p };
        let t = c.next_token()?;
        Some((c.p - t.len(), c.p))
    }
    /// false = the oracle gives up
    pub fn atom(&mut self, a: Atom, o: &mut String) -> bool {
        match a {
            Atom::Chr => {
                self.skip_ws();
                if self.p < self.d.len() {
                    o.push('c');
                    hex2(o, self.d[self.p] as u32);
                    self.p += 1;
                    true
                } else {
                    false
                }
            }
            Atom::Str => match self.next_token() {
                Some(t) => {
                    o.push('s');
                    for &b in t {
                        hex2(o, b as u32);
                    }
                    true
                }
                None => false,
            },
            _ => match self.next_token() {
                Some(t) => match int_value(a, t) {
                    Some(s) => {
                        o.push_str(&s);
                        true
                    }
                    None => false,
                },
                None => false,
            },
        }
    }
    pub fn line(&mut self) -> Option<&'a [u8]> {
        if self.p >= self.d.len() {
            return None;
        }
        let rest = &self.d[self.p..];
        match rest.iter().position(|&b| b == b'\n') {
            Some(i) => {
                self.p += i + 1;
                if i > 0 && rest[i - 1] == b'\r' {
                    Some(&rest[..i - 1])
                } else {
                    Some(&rest[..i])
                }
            }
            None => {
                self.p = self.d.len();
                Some(rest)
            }
        }
    }
    pub fn eof(&mut self) -> bool {
        self.skip_ws();
        self.p == self.d.len()
    }
    fn tuple(&mut self, atoms: &[Atom], o: &mut String) -> bool {
        o.push('(');
        for (i, a) in atoms.iter().enumerate() {
            if i > 0 {
                o.push(',');
            }
            if !self.atom(*a, o) {
                return false;
            }
        }
        o.push(')');
        true
    }
    pub fn op(&mut self, op: &Op, o: &mut String) -> bool {
        match op {
            Op::R(a) => self.atom(*a, o),
            Op::T(atoms) => self.tuple(atoms, o),
            Op::V(n, atoms) => {
                o.push('[');
                for i in 0..*n {
                    if i > 0 {
                        o.push(',');
                    }
                    let ok = if atoms.len() == 1 { self.atom(atoms[0], o) } else { self.tuple(atoms, o) };
                    if !ok {
                        return false;
                    }
                }
                o.push(']');
                true
            }
            Op::Line => {
                match self.line() {
                    Some(l) => {
                        o.push('L');
                        for &b in l {
                            hex2(o, b as u32);
                        }
                    }
                    None => o.push_str("none"),
                }
                true
            }
            Op::Lines => {
                o.push_str("lines[");
                let mut first = true;
                while let Some(l) = self.line() {
                    if !first {
                        o.push(',');
                    }
                    first = false;
                    o.push('L');
                    for &b in l {
                        hex2(o, b as u32);
                    }
                }
                o.push(']');
                true
            }
            Op::Eof => {
                o.push_str(if self.eof() { "true" } else { "false" });
                true
            }
        }
    }
}

/// results of the longest script prefix the oracle can answer
pub fn oracle_run(data: &[u8], ops: &[Op]) -> Vec<String> {
    let mut o = Oracle::new(data);
    let mut out = Vec::new();
    for op in ops {
        let mut s = String::new();
        if !o.op(op, &mut s) {
            break;
        }
        out.push(s);
    }
    out
}

// ---------------------------------------------------------------------------------------------
// run
// ---------------------------------------------------------------------------------------------

static SS_CHILD: std::sync::atomic::AtomicBool = std::sync::atomic::AtomicBool::new(false);

/// Stack of the worker thread of an `ss` child: 256 KiB of head room plus four times the size of the Reader value itself
/// (its buffer is an inline array today: `Reader::new` and a by-value move of it legitimately need that much in a debug
/// build). Loops of the reader need a constant amount of stack; recursion per byte / per refill / per element over an
/// input of tens of thousands of bytes delivered in tens of thousands of reads needs megabytes.
fn small_stack() -> usize {
    (256 << 10) + 4 * std::mem::size_of::<Reader>()
}

/// Run one case in a child process (`run --ss-child 1`) whose worker thread has the small stack: the child's death
/// (stack overflow = SIGSEGV/abort, which `catch_unwind` cannot turn into a value) is reported as the view `STACK!…`,
/// so the check gets a failing input, a shrunk script and a replay like for any other violation.
fn run_in_small_stack_child(line: &str) -> String {
    use std::io::Write;
    use std::process::{Command, Stdio};
    let exe = match std::env::current_exe() {
        Ok(e) => e,
        Err(_) => return out1("INVALID"),
    };
    let mut child = match Command::new(exe).args(["run", "--ss-child", "1"]).stdin(Stdio::piped()).stdout(Stdio::piped()).stderr(Stdio::null()).spawn() {
        Ok(c) => c,
        Err(_) => return out1("INVALID"),
    };
    {
        let mut stdin = child.stdin.take().unwrap();
        let _ = stdin.write_all(line.as_bytes());
        let _ = stdin.write_all(b"\n");
    }
    let out = match child.wait_with_output() {
        Ok(o) => o,
        Err(_) => return out1("INVALID"),
    };
    let text = String::from_utf8_lossy(&out.stdout);
    let first = text.lines().next().unwrap_or("");
    if out.status.success() && first.starts_with("I ") {
        first.to_string()
    } else {
        out2("crashed-on-small-stack", &format!("STACK!the-process-died-on-a-{}-KiB-stack", small_stack() >> 10))
    }
}

fn run_case(line: &str) -> String {
    // several live readers: `<BUF> <hex0> <sched0> + <hex1> <sched1> ... ; <k>.<op> ; ...` (multi.rs)
    {
        let mut parts = line.split(';').map(|p| p.trim());
        let hdr: Vec<&str> = parts.next().unwrap_or("").split_whitespace().collect();
        if hdr.len() >= 4 && hdr[3] == "+" {
            return match multi::parse_multi(&hdr, parts) {
                Some(c) => multi::run_multi(&c),
                None => "I INVALID | V INVALID".to_string(),
            };
        }
    }
    let case = match parse_case(line) {
        Some(c) => c,
        None => return "I INVALID | V INVALID".to_string(),
    };
    if case.ss && !SS_CHILD.load(std::sync::atomic::Ordering::Relaxed) {
        return run_in_small_stack_child(line);
    }
    let ex = exec(&case.data, &case.sched, &case.ops);
    if case.full {
        return out2(&join_results(&ex.results), "any");
    }
    // The independent oracle answers exactly the operations inside the property's domain (valid integer tokens in
    // range, no token / char read when nothing is left) and gives up at the first one outside it. The VIEW is the
    // implementation's results for that in-domain prefix, ` ~` if the script goes on outside the domain (the driver
    // prints the same mark); results outside the domain stay in RAW only (compared with the model, not the spec).
    let orc = oracle_run(&case.data, &case.ops);
    let n_dom = orc.len();
    let n_view = n_dom.min(ex.results.len());
    let mut view = join_results(&ex.results[..n_view]);
    if n_dom < case.ops.len() {
        view.push_str(" ~");
    }
    // delivery independence, without pinning values: the same script under the one-big-read schedule must give the
    // same results up to and including the first out-of-domain operation (after a `char` read past the end the
    // release build exposes stale buffer contents, so later results are not compared).
    if !case.sched.is_empty() {
        let ex2 = exec(&case.data, &[], &case.ops);
        let m1 = (n_dom + 1).min(ex.results.len());
        let m2 = (n_dom + 1).min(ex2.results.len());
        if ex.results[..m1] != ex2.results[..m2] {
            view.push_str(" !sched:");
            view.push_str(&join_results(&ex2.results[..m2]));
        }
    }
    let n_impl = if ex.panicked { ex.results.len() - 1 } else { ex.results.len() };
    let n = n_impl.min(orc.len());
    if ex.results[..n] != orc[..n] {
        view.push_str(" !oracle:");
        view.push_str(&join_results(&orc));
    }
    // RAW = the in-domain prefix as well: results outside the property's domain are compared (and only counted by
    // `check`) on the `full` twin lines of the out-of-domain stream, never on this line.
    let raw = { let mut r = join_results(&ex.results[..n_view]); if n_dom < case.ops.len() { r.push_str(" ~"); } r };
    out2(&raw, &view)
}

/// The reader's buffer size as seen from outside: the length of the slice offered to the first `read` call
/// (a probe on a one-byte input). Used when the constant cannot be read from the source text (`--buf auto`), and
/// reported next to the extracted value otherwise. It only steers where the boundary-targeted inputs are aimed and
/// which BUF the model runs with; the verdict does not depend on it (the theorems hold for every BUF >= 1).
pub fn observed_buf() -> usize {
    let data = [b'1'];
    let mut src = Source::new(&data, &[]);
    {
        let mut reader = Reader::new(Box::new(&mut src));
        let _ = catch(|| reader.is_eof());
    }
    src.first_room.unwrap_or(0)
}

fn main() {
    if std::env::args().nth(1).as_deref() == Some("probe") {
        install_quiet_panic_hook();
        println!("{}", observed_buf());
        return;
    }
    // `run --ss-child 1`: the cases (one, sent by `run_in_small_stack_child`) are answered on a thread with a small stack
    if std::env::args().any(|a| a == "--ss-child") {
        SS_CHILD.store(true, std::sync::atomic::Ordering::Relaxed);
        let t = std::thread::Builder::new().stack_size(small_stack()).spawn(|| cli(gen::gen, run_case)).unwrap();
        if t.join().is_err() {
            std::process::exit(3);
        }
        return;
    }
    cli(gen::gen, run_case);
}
