//! Streams (4) boundary at BUF and (5) long inputs (>= 3*BUF).
use crate::common::*;
use crate::gen::*;
use crate::{Atom, Item, Op, Oracle, Sched};
use std::collections::HashMap;

#[derive(Clone, Copy, PartialEq, Eq, Debug)]
enum Mode {
    Ints,
    Words,
    Lines,
    Mixed,
}

struct Big {
    mode: Mode,
    out: Vec<u8>,
    hints: HashMap<usize, Atom>,
}

fn digits(rng: &mut SplitMix64, len: usize) -> Vec<u8> {
    (0..len).map(|i| if i == 0 { b'1' + rng.below(9) as u8 } else { b'0' + rng.below(10) as u8 }).collect()
}

impl Big {
    fn tok(&mut self, t: &[u8], hint: Option<Atom>) {
        if let Some(h) = hint {
            self.hints.insert(self.out.len(), h);
        }
        self.out.extend_from_slice(t);
    }

    /// separator after a token / terminator after a line
    fn sep(&mut self, rng: &mut SplitMix64) {
        if self.mode == Mode::Lines {
            if rng.chance(1, 2) {
                self.out.push(b'\n');
            } else {
                self.out.extend_from_slice(b"\r\n");
            }
        } else {
            rand_sep(rng, &mut self.out);
        }
    }

    /// one token + separator (one line + terminator), at most 80 bytes
    fn unit(&mut self, rng: &mut SplitMix64) {
        match self.mode {
            Mode::Ints => {
                let l = 1 + rng.below(18) as usize;
                let mut t = digits(rng, l);
                if rng.chance(1, 4) {
                    t.insert(0, b'-');
                }
                self.tok(&t, Some(Atom::I64));
            }
            Mode::Words => {
                let l = 1 + rng.below(40) as usize;
                let w = word(rng, l);
                self.tok(&w, Some(Atom::Str));
            }
            Mode::Lines => {
                let l = rng.below(61) as usize;
                let w = printable(rng, l);
                self.tok(&w, None);
            }
            Mode::Mixed => {
                let a = rand_atom(rng);
                let t = token_for(rng, a);
                self.tok(&t, Some(a));
            }
        }
        self.sep(rng);
    }

    /// exactly `len` bytes ending in a one-byte separator
    fn exact(&mut self, rng: &mut SplitMix64, mut len: usize) {
        match self.mode {
            Mode::Ints => {
                while len > 19 {
                    let t = digits(rng, 10);
                    self.tok(&t, Some(Atom::I64));
                    self.out.push(b' ');
                    len -= 11;
                }
                if len >= 2 {
                    let t = digits(rng, len - 1);
                    self.tok(&t, Some(Atom::I64));
                }
                if len >= 1 {
                    self.out.push(b' ');
                }
            }
            Mode::Words | Mode::Mixed => {
                if len >= 2 {
                    let w = word(rng, len - 1);
                    self.tok(&w, Some(Atom::Str));
                }
                if len >= 1 {
                    self.out.push(b' ');
                }
            }
            Mode::Lines => {
                if len >= 1 {
                    let w = printable(rng, len - 1);
                    self.tok(&w, None);
                    self.out.push(b'\n');
                }
            }
        }
    }

    fn fill_to(&mut self, rng: &mut SplitMix64, target: usize) {
        while self.out.len() + 80 <= target {
            self.unit(rng);
        }
        let r = target.saturating_sub(self.out.len());
        self.exact(rng, r);
    }

    /// put something that straddles stream offset x (bytes x-1 | x)
    fn special(&mut self, rng: &mut SplitMix64, x: usize, kind: u64) -> Option<&'static str> {
        let have = self.out.len();
        match kind {
            0 => {
                let d = 1 + rng.below(6) as usize;
                let e = 1 + rng.below(6) as usize;
                if x < have + d {
                    return None;
                }
                self.fill_to(rng, x - d);
                match self.mode {
                    Mode::Ints => {
                        let t = digits(rng, d + e);
                        self.tok(&t, Some(Atom::I64));
                    }
                    Mode::Words | Mode::Mixed => {
                        let w = word(rng, d + e);
                        self.tok(&w, Some(Atom::Str));
                    }
                    Mode::Lines => {
                        let w = printable(rng, d + e);
                        self.tok(&w, None);
                    }
                }
                self.sep(rng);
                Some("big_token_straddles_multiple_of_buf")
            }
            1 => {
                if x < have + 1 {
                    return None;
                }
                self.fill_to(rng, x - 1);
                let l = 1 + rng.below(6) as usize;
                let mut t = vec![b'-'];
                t.extend(digits(rng, l));
                let hint = match self.mode {
                    Mode::Ints => Some(Atom::I64),
                    Mode::Mixed => Some(Atom::I32),
                    Mode::Words => Some(Atom::Str),
                    Mode::Lines => None,
                };
                self.tok(&t, hint);
                self.sep(rng);
                Some("big_minus_digits_straddle_multiple_of_buf")
            }
            _ => {
                if self.mode == Mode::Lines {
                    let d = rng.below(6) as usize;
                    if x < have + 1 + d {
                        return None;
                    }
                    self.fill_to(rng, x - 1 - d);
                    let w = printable(rng, d);
                    self.tok(&w, None);
                } else {
                    if x < have + 1 {
                        return None;
                    }
                    self.fill_to(rng, x - 1);
                }
                self.out.extend_from_slice(b"\r\n");
                Some("big_cr_lf_straddle_multiple_of_buf")
            }
        }
    }
}

fn big_input(g: &mut Gen, rng: &mut SplitMix64, mode: Mode, total: usize, long_word: bool) -> Inp {
    let b = g.buf();
    let mut bg = Big { mode, out: Vec::with_capacity(total + 128), hints: HashMap::new() };
    if mode != Mode::Lines && rng.chance(1, 4) {
        rand_sep(rng, &mut bg.out);
    }
    if long_word {
        let at = rng.below(b as u64 / 2 + 1) as usize;
        bg.fill_to(rng, at);
        let l = b + 1 + rng.below(b as u64 / 2 + 1) as usize;
        let mut w = word(rng, l);
        if mode == Mode::Ints {
            w = digits(rng, l); // not a valid i64: the script builder falls back to str
        }
        bg.tok(&w, Some(Atom::Str));
        bg.sep(rng);
        g.emit_count_pair("big_word_longer_than_buf");
    }
    let mut x = b;
    while x < total {
        let kind = rng.below(3);
        if let Some(k) = bg.special(rng, x, kind) {
            if bg.out.len() <= total {
                g.emit_count_pair(k);
            }
        }
        x += b;
    }
    let strip = rng.chance(1, 3);
    bg.fill_to(rng, total + strip as usize);
    bg.out.truncate(total);
    if mode == Mode::Lines && total >= 1 && rng.chance(1, 4) {
        bg.out[total - 1] = b'\r';
    }
    Inp { data: bg.out, hints: bg.hints }
}

fn big_script(rng: &mut SplitMix64, mode: Mode, inp: &Inp) -> Vec<Op> {
    match mode {
        Mode::Ints | Mode::Words => {
            let items = build_items(rng, inp, true, false, false);
            group_big(rng, &items)
        }
        Mode::Mixed => {
            let strict = rng.chance(1, 2);
            let items = build_items(rng, inp, strict, true, false);
            group(rng, &items)
        }
        Mode::Lines => match rng.below(4) {
            0 => vec![Op::Lines, Op::Eof],
            1 => vec![Op::Line, Op::Line, Op::Lines, Op::Line, Op::Eof],
            2 => {
                let mut ops = Vec::new();
                if Oracle::new(&inp.data).peek_token().is_some() {
                    ops.push(Op::R(Atom::Str));
                }
                ops.extend([Op::Line, Op::Eof, Op::Lines, Op::Eof]);
                ops
            }
            _ => {
                let mut o = Oracle::new(&inp.data);
                let mut k = 0;
                while o.line().is_some() {
                    k += 1;
                }
                let mut ops = vec![Op::Line; k + 1];
                ops.push(Op::Eof);
                ops
            }
        },
    }
}

const BIG_KINDS: [&str; 9] = [
    "sched_all_at_once",
    "sched_chunks_buf_minus_1",
    "sched_chunks_buf",
    "sched_chunks_buf_plus_1",
    "sched_buf_then_1s",
    "sched_buf_minus_1_then_1_then_rest",
    "sched_random_big_chunks",
    "sched_byte_by_byte",
    "sched_buf_minus_2_then_1s_then_rest",
];

fn big_sched(rng: &mut SplitMix64, kind: usize, n: usize, b: usize) -> Sched {
    let mut s = Sched::new();
    let rep = |k: usize| -> u64 { ((n + k - 1) / k.max(1)) as u64 };
    match kind {
        0 => {}
        1 => {
            let k = (b - 1).max(1);
            push_item(&mut s, Item::Chunk(k), rep(k));
        }
        2 => push_item(&mut s, Item::Chunk(b), rep(b)),
        3 => push_item(&mut s, Item::Chunk(b + 1), rep(b + 1)),
        4 => {
            push_item(&mut s, Item::Chunk(b), 1);
            push_item(&mut s, Item::Chunk(1), n.saturating_sub(b) as u64);
        }
        5 => {
            push_item(&mut s, Item::Chunk((b - 1).max(1)), 1);
            push_item(&mut s, Item::Chunk(1), 1);
        }
        6 => {
            let mut pos = 0usize;
            while pos < n {
                let k = match rng.below(4) {
                    0 => 1 + rng.below(3 * b as u64) as usize,
                    1 => (b + rng.below(5) as usize).saturating_sub(2).max(1),
                    2 => 1 + rng.below(b as u64) as usize,
                    _ => 1 + rng.below(16) as usize,
                };
                push_item(&mut s, Item::Chunk(k), 1);
                pos += k;
            }
        }
        7 => push_item(&mut s, Item::Chunk(1), n as u64),
        _ => {
            push_item(&mut s, Item::Chunk(b.saturating_sub(2).max(1)), 1);
            push_item(&mut s, Item::Chunk(1), 4);
        }
    }
    s
}

fn big_case(g: &mut Gen, rng: &mut SplitMix64, stream: &'static str, mode: Mode, total: usize, kind: usize, intr: bool, long_word: bool) {
    let inp = big_input(g, rng, mode, total, long_word);
    let ops = big_script(rng, mode, &inp);
    let p = prep(&inp.data, &ops);
    g.emit_count_pair(match mode {
        Mode::Ints => "big_mode_ints",
        Mode::Words => "big_mode_words",
        Mode::Lines => "big_mode_lines",
        Mode::Mixed => "big_mode_mixed",
    });
    let mut s = big_sched(rng, kind, inp.data.len(), g.buf());
    if intr {
        s = sprinkle(rng, &s, false);
    }
    g.emit(stream, &p, &s, BIG_KINDS[kind]);
}

const MODES: [Mode; 4] = [Mode::Ints, Mode::Lines, Mode::Words, Mode::Mixed];

pub fn stream_boundary(g: &mut Gen, rng: &mut SplitMix64, thorough: bool) {
    let b = g.buf();
    let fixed: [usize; 8] = [b.saturating_sub(2), b.saturating_sub(1), b, b + 1, b + 2, 2 * b - 1, 2 * b, 2 * b + 1];
    let n = if thorough { 150 } else { 12 };
    const QUICK_KINDS: [usize; 12] = [0, 3, 2, 1, 5, 4, 6, 8, 2, 3, 5, 6];
    for i in 0..n {
        let total = if i % 12 < 8 { fixed[i % 12] } else { b / 2 + rng.below(2 * b as u64 + 1) as usize };
        let mode = MODES[(i + i / 12) % 4];
        let kind = if thorough { [0, 1, 2, 3, 4, 5, 6, 8, 6, 3, 1, 2, 7][(i * 5 + i / 13) % 13] } else { QUICK_KINDS[i] };
        let intr = if thorough { rng.chance(1, 3) } else { i % 3 == 2 };
        big_case(g, rng, "stream4_boundary_at_buf", mode, total, kind, intr, false);
    }
}

pub fn stream_long(g: &mut Gen, rng: &mut SplitMix64, thorough: bool) {
    let b = g.buf();
    // (mode, schedule kind, interrupts, long word)
    let plan: [(Mode, usize, bool, bool); 8] = [
        (Mode::Ints, 0, false, false),
        (Mode::Ints, 7, false, false),
        (Mode::Words, 6, false, true),
        (Mode::Lines, 3, false, false),
        (Mode::Mixed, 6, true, false),
        (Mode::Lines, 6, true, false),
        (Mode::Words, 3, true, true),
        (Mode::Ints, 2, true, true),
    ];
    let n = if thorough { 40 } else { 6 };
    for i in 0..n {
        let total = 3 * b + rng.below(b as u64 + 1) as usize;
        let (mode, mut kind, intr, lw) = plan[i % 8];
        if thorough && i >= 8 {
            // byte-by-byte only for a few of them
            kind = [0, 1, 2, 3, 4, 5, 6, 8, 6, 6][(rng.below(10)) as usize];
            if i % 10 == 9 {
                kind = 7;
            }
        }
        big_case(g, rng, "stream5_long", mode, total, kind, intr, lw);
    }
}
