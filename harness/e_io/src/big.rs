//! Streams (4) boundary at BUF and (5) long inputs (>= 3*BUF).
//!
//! Every script here has AT MOST 4 ops (these lines are hundreds of KB; the generic shrinker must
//! have almost nothing to do). Token inputs are periodic rows of one tuple shape so that a single
//! `v:<n>:<row atoms>` reads the bulk; line inputs are read by `lines`.
use crate::common::*;
use crate::gen::*;
use crate::{is_signed, Atom, Item, Op, Oracle, Sched, INT_ATOMS};

#[derive(Clone, Copy, PartialEq, Eq, Debug)]
enum Mode {
    Ints,
    Words,
    Lines,
    Mixed,
}

fn digits(rng: &mut SplitMix64, len: usize) -> Vec<u8> {
    (0..len).map(|i| if i == 0 { b'1' + rng.below(9) as u8 } else { b'0' + rng.below(10) as u8 }).collect()
}

fn pad_ws(rng: &mut SplitMix64, out: &mut Vec<u8>, k: usize) {
    for _ in 0..k {
        out.push(*rng.pick(&[b' ', b' ', b' ', b' ', b'\t', b'\n']));
    }
}

// ---------------------------------------------------------------------------------------------
// periodic rows of tokens
// ---------------------------------------------------------------------------------------------

fn big_atom(rng: &mut SplitMix64) -> Atom {
    match rng.below(20) {
        0..=2 => Atom::U128,
        3 => Atom::I128,
        4..=6 => Atom::Str,
        7 => Atom::Chr,
        _ => *rng.pick(&INT_ATOMS),
    }
}

/// number of digits after `-` that is always in range for a signed type (6 for words)
fn neg_digits(a: Atom) -> u64 {
    match a {
        Atom::I8 => 2,
        Atom::I16 => 4,
        Atom::I32 => 9,
        Atom::I64 | Atom::Isize => 18,
        Atom::I128 => 38,
        _ => 6,
    }
}

struct RowsInput {
    data: Vec<u8>,
    shape: Vec<Atom>,
    first: Option<Atom>,
}

fn rows_input(g: &mut Gen, rng: &mut SplitMix64, shape: Vec<Atom>, first: Option<Atom>, total: usize, long_word: bool) -> RowsInput {
    let b = g.buf();
    let k = shape.len();
    let mut out: Vec<u8> = Vec::with_capacity(total + 1024);
    let mut row_ends: Vec<(usize, usize)> = Vec::new(); // (end of the last token of a row, end of its separator)
    let mut ins_pos = 0usize; // a place (right after a token) where whitespace may be inserted without moving the specials
    let mut have_ins = false;
    if rng.chance(1, 4) {
        rand_sep(rng, &mut out);
    }
    if let Some(a0) = first {
        let t = token_for(rng, a0);
        out.extend_from_slice(&t);
        ins_pos = out.len();
        have_ins = true;
        rand_sep(rng, &mut out);
    }
    let lw_start = rng.below(b as u64 / 2 + 1) as usize;
    let mut lw_done = !long_word;
    let mut next_x = b;
    let mut idx = 0usize;
    while out.len() <= total {
        let a = shape[idx];
        let p = out.len();
        while next_x < p + 7 {
            next_x += b;
        }
        if next_x < total && next_x - p <= 90 {
            // something must straddle stream offset next_x (bytes next_x-1 | next_x)
            let x = next_x;
            let allowed: &[u64] = match a {
                Atom::Chr => &[2],
                Atom::Str => &[0, 1, 2],
                _ if is_signed(a) => &[0, 1, 2],
                _ => &[0, 2],
            };
            let mut kind = rng.below(3);
            if !allowed.contains(&kind) {
                kind = *rng.pick(allowed);
            }
            let what = match kind {
                0 => {
                    let t = loop {
                        let t = token_for(rng, a);
                        if t.len() >= 2 {
                            break t;
                        }
                    };
                    let d = 1 + rng.below((t.len() as u64 - 1).min(6)) as usize;
                    pad_ws(rng, &mut out, x - d - p);
                    out.extend_from_slice(&t);
                    "big_token_straddles_multiple_of_buf"
                }
                1 => {
                    let l = 1 + rng.below(neg_digits(a)) as usize;
                    pad_ws(rng, &mut out, x - 1 - p);
                    out.push(b'-');
                    out.extend(digits(rng, l));
                    "big_minus_digits_straddle_multiple_of_buf"
                }
                _ => {
                    pad_ws(rng, &mut out, x - 1 - p);
                    out.extend_from_slice(b"\r\n");
                    let t = token_for(rng, a);
                    out.extend_from_slice(&t);
                    "big_cr_lf_straddle_multiple_of_buf"
                }
            };
            g.emit_count_pair(what);
            ins_pos = out.len();
            have_ins = true;
            next_x += b;
        } else if !lw_done && a == Atom::Str && p >= lw_start {
            let l = b + 1 + rng.below(b as u64 / 2 + 1) as usize;
            out.extend(word(rng, l));
            lw_done = true;
            ins_pos = out.len();
            have_ins = true;
            g.emit_count_pair("big_word_longer_than_buf");
        } else {
            let t = token_for(rng, a);
            out.extend_from_slice(&t);
            if !have_ins {
                ins_pos = out.len();
                have_ins = true;
            }
        }
        let tok_end = out.len();
        if idx + 1 == k && rng.chance(2, 3) {
            if rng.chance(1, 2) {
                out.push(b'\n');
            } else {
                out.extend_from_slice(b"\r\n");
            }
        } else {
            rand_sep(rng, &mut out);
        }
        idx += 1;
        if idx == k {
            idx = 0;
            row_ends.push((tok_end, out.len()));
        }
    }
    // exact length: either cut anywhere, or end after a complete row and make up the difference with
    // whitespace inserted behind the last special
    let mut done = false;
    if rng.chance(1, 2) {
        let strip = rng.chance(1, 2);
        if let Some(&(te, se)) = row_ends.iter().rev().find(|(te, se)| (if strip { *te } else { *se }) <= total && *te >= ins_pos) {
            let cut = if strip { te } else { se };
            out.truncate(cut);
            let mut padding = Vec::new();
            pad_ws(rng, &mut padding, total - cut);
            let at = ins_pos.min(out.len());
            out.splice(at..at, padding);
            g.emit_count_pair(if strip { "big_ends_after_full_row_no_separator" } else { "big_ends_after_full_row_with_separator" });
            done = true;
        }
    }
    if !done {
        out.truncate(total);
        g.emit_count_pair("big_ends_truncated");
    }
    debug_assert_eq!(out.len(), total);
    RowsInput { data: out, shape, first }
}

/// `[r:<first> ;] v:<n>:<row atoms> ; tail` with at most 4 ops, valid per the oracle
fn rows_script(rng: &mut SplitMix64, inp: &RowsInput) -> Vec<Op> {
    let mut o = Oracle::new(&inp.data);
    let mut scratch = String::new();
    let mut ops = Vec::new();
    let mut ok = true;
    if let Some(a0) = inp.first {
        let save = o.p;
        if o.atom(a0, &mut scratch) {
            ops.push(Op::R(a0));
        } else {
            o.p = save;
            ok = false;
        }
    }
    let mut n = 0usize;
    while ok {
        let save = o.p;
        scratch.clear();
        if inp.shape.iter().all(|a| o.atom(*a, &mut scratch)) {
            n += 1;
        } else {
            o.p = save;
            break;
        }
    }
    ops.push(Op::V(n, inp.shape.clone()));
    match rng.below(5) {
        0 => ops.push(Op::Lines),
        1 => ops.push(Op::Eof),
        2 => {
            ops.push(Op::Lines);
            ops.push(Op::Eof);
        }
        3 => {
            ops.push(Op::Eof);
            ops.push(Op::Line);
        }
        _ => {
            let mut m = 0usize;
            while o.next_token().is_some() {
                m += 1;
            }
            ops.push(Op::V(m, vec![Atom::Str]));
            if ops.len() < 4 {
                ops.push(Op::Eof);
            }
        }
    }
    ops.truncate(4);
    ops
}

// ---------------------------------------------------------------------------------------------
// line-oriented big inputs
// ---------------------------------------------------------------------------------------------

struct BigLines {
    out: Vec<u8>,
}

impl BigLines {
    fn term(&mut self, rng: &mut SplitMix64) {
        if rng.chance(1, 2) {
            self.out.push(b'\n');
        } else {
            self.out.extend_from_slice(b"\r\n");
        }
    }

    /// one line + terminator, at most 80 bytes
    fn unit(&mut self, rng: &mut SplitMix64) {
        let l = rng.below(61) as usize;
        self.out.extend(printable(rng, l));
        self.term(rng);
    }

    fn fill_to(&mut self, rng: &mut SplitMix64, target: usize) {
        while self.out.len() + 80 <= target {
            self.unit(rng);
        }
        let r = target.saturating_sub(self.out.len());
        if r >= 1 {
            self.out.extend(printable(rng, r - 1));
            self.out.push(b'\n');
        }
    }

    /// put something that straddles stream offset x (bytes x-1 | x)
    fn special(&mut self, rng: &mut SplitMix64, x: usize, kind: u64) -> Option<&'static str> {
        let have = self.out.len();
        match kind {
            0 => {
                let d = 1 + rng.below(6) as usize;
                let e = 1 + rng.below(6) as usize;
                if x < have + d {
                    return None;
                }
                self.fill_to(rng, x - d);
                self.out.extend(printable(rng, d + e));
                self.term(rng);
                Some("big_token_straddles_multiple_of_buf")
            }
            1 => {
                if x < have + 1 {
                    return None;
                }
                self.fill_to(rng, x - 1);
                let l = 1 + rng.below(6) as usize;
                self.out.push(b'-');
                self.out.extend(digits(rng, l));
                self.term(rng);
                Some("big_minus_digits_straddle_multiple_of_buf")
            }
            _ => {
                let d = rng.below(6) as usize;
                if x < have + 1 + d {
                    return None;
                }
                self.fill_to(rng, x - 1 - d);
                self.out.extend(printable(rng, d));
                self.out.extend_from_slice(b"\r\n");
                Some("big_cr_lf_straddle_multiple_of_buf")
            }
        }
    }
}

fn lines_big_input(g: &mut Gen, rng: &mut SplitMix64, total: usize) -> Vec<u8> {
    let b = g.buf();
    let mut bg = BigLines { out: Vec::with_capacity(total + 128) };
    let mut x = b;
    while x < total {
        let kind = rng.below(3);
        if let Some(k) = bg.special(rng, x, kind) {
            if bg.out.len() <= total {
                g.emit_count_pair(k);
            }
        }
        x += b;
    }
    let strip = rng.chance(1, 3);
    bg.fill_to(rng, total + strip as usize);
    bg.out.truncate(total);
    if total >= 1 && rng.chance(1, 4) {
        bg.out[total - 1] = b'\r';
    }
    bg.out
}

fn lines_big_script(rng: &mut SplitMix64, data: &[u8]) -> Vec<Op> {
    match rng.below(5) {
        0 => vec![Op::Lines],
        1 => vec![Op::Lines, Op::Eof],
        2 => vec![Op::Line, Op::Lines, Op::Eof],
        3 => vec![Op::Eof, Op::Lines, Op::Line],
        _ => {
            let mut ops = Vec::new();
            if Oracle::new(data).peek_token().is_some() {
                ops.push(Op::R(Atom::Str));
            }
            ops.extend([Op::Line, Op::Lines, Op::Eof]);
            ops
        }
    }
}

// ---------------------------------------------------------------------------------------------
// schedules
// ---------------------------------------------------------------------------------------------

const BIG_KINDS: [&str; 9] = [
    "sched_all_at_once",
    "sched_chunks_buf_minus_1",
    "sched_chunks_buf",
    "sched_chunks_buf_plus_1",
    "sched_buf_then_1s",
    "sched_buf_minus_1_then_1_then_rest",
    "sched_random_big_chunks",
    "sched_byte_by_byte",
    "sched_buf_minus_2_then_1s_then_rest",
];

fn big_sched(rng: &mut SplitMix64, kind: usize, n: usize, b: usize) -> Sched {
    let mut s = Sched::new();
    let rep = |k: usize| -> u64 { ((n + k - 1) / k.max(1)) as u64 };
    match kind {
        0 => {}
        1 => {
            let k = (b - 1).max(1);
            push_item(&mut s, Item::Chunk(k), rep(k));
        }
        2 => push_item(&mut s, Item::Chunk(b), rep(b)),
        3 => push_item(&mut s, Item::Chunk(b + 1), rep(b + 1)),
        4 => {
            push_item(&mut s, Item::Chunk(b), 1);
            push_item(&mut s, Item::Chunk(1), n.saturating_sub(b) as u64);
        }
        5 => {
            push_item(&mut s, Item::Chunk((b - 1).max(1)), 1);
            push_item(&mut s, Item::Chunk(1), 1);
        }
        6 => {
            let mut pos = 0usize;
            while pos < n {
                let k = match rng.below(4) {
                    0 => 1 + rng.below(3 * b as u64) as usize,
                    1 => (b + rng.below(5) as usize).saturating_sub(2).max(1),
                    2 => 1 + rng.below(b as u64) as usize,
                    _ => 1 + rng.below(64) as usize,
                };
                push_item(&mut s, Item::Chunk(k), 1);
                pos += k;
            }
        }
        7 => push_item(&mut s, Item::Chunk(1), n as u64),
        _ => {
            push_item(&mut s, Item::Chunk(b.saturating_sub(2).max(1)), 1);
            push_item(&mut s, Item::Chunk(1), 4);
        }
    }
    s
}

// ---------------------------------------------------------------------------------------------
// cases
// ---------------------------------------------------------------------------------------------

fn big_case(g: &mut Gen, rng: &mut SplitMix64, stream: &'static str, mode: Mode, total: usize, kind: usize, intr: bool, long_word: bool) {
    let (data, ops) = if mode == Mode::Lines {
        let d = lines_big_input(g, rng, total);
        let ops = lines_big_script(rng, &d);
        (d, ops)
    } else {
        let mut shape: Vec<Atom> = match mode {
            Mode::Words => vec![Atom::Str],
            Mode::Ints => {
                let a = *rng.pick(&[Atom::I64, Atom::I64, Atom::I32, Atom::U64, Atom::U128, Atom::U128, Atom::I128, Atom::Usize, Atom::I16, Atom::U8]);
                vec![a; 1 + rng.below(3) as usize]
            }
            _ => {
                let k = 2 + rng.below(7) as usize;
                (0..k).map(|_| big_atom(rng)).collect()
            }
        };
        if long_word && !shape.contains(&Atom::Str) {
            let at = rng.below(shape.len() as u64) as usize;
            shape[at] = Atom::Str;
        }
        let first = if rng.chance(1, 2) { Some(big_atom(rng)) } else { None };
        let inp = rows_input(g, rng, shape, first, total, long_word);
        let ops = rows_script(rng, &inp);
        (inp.data, ops)
    };
    assert!(ops.len() <= 4);
    let p = prep(&data, &ops);
    g.emit_count_pair(match mode {
        Mode::Ints => "big_mode_int_rows",
        Mode::Words => "big_mode_words",
        Mode::Lines => "big_mode_lines",
        Mode::Mixed => "big_mode_mixed_rows",
    });
    let mut s = big_sched(rng, kind, data.len(), g.buf());
    if intr {
        s = sprinkle(rng, &s, false);
    }
    g.emit(stream, &p, &s, BIG_KINDS[kind]);
}

const MODES: [Mode; 4] = [Mode::Ints, Mode::Lines, Mode::Words, Mode::Mixed];

pub fn stream_boundary(g: &mut Gen, rng: &mut SplitMix64, thorough: bool) {
    let b = g.buf();
    let fixed: [usize; 8] = [b.saturating_sub(2), b.saturating_sub(1), b, b + 1, b + 2, 2 * b - 1, 2 * b, 2 * b + 1];
    // reduced debug-profile run: 2 (quick) / 12 (thorough) cases, chosen as in the quick tier
    let n = g.size(thorough, (12, 150), (2, 12));
    let thorough = thorough && !g.lite();
    const QUICK_KINDS: [usize; 12] = [0, 3, 2, 1, 5, 4, 6, 8, 2, 3, 5, 6];
    for i in 0..n {
        let total = if i % 12 < 8 { fixed[i % 12] } else { b / 2 + rng.below(2 * b as u64 + 1) as usize };
        let mode = MODES[(i + i / 12) % 4];
        let kind = if thorough { [0, 1, 2, 3, 4, 5, 6, 8, 6, 3, 1, 2, 7][(i * 5 + i / 13) % 13] } else { QUICK_KINDS[i] };
        let intr = if thorough { rng.chance(1, 3) } else { i % 3 == 2 };
        big_case(g, rng, "stream4_boundary_at_buf", mode, total, kind, intr, false);
    }
}

pub fn stream_long(g: &mut Gen, rng: &mut SplitMix64, thorough: bool) {
    let b = g.buf();
    // (mode, schedule kind, interrupts, long word)
    let plan: [(Mode, usize, bool, bool); 8] = [
        (Mode::Ints, 0, false, false),
        (Mode::Ints, 7, false, false),
        (Mode::Words, 6, false, true),
        (Mode::Lines, 3, false, false),
        (Mode::Mixed, 6, true, false),
        (Mode::Lines, 6, true, false),
        (Mode::Words, 3, true, true),
        (Mode::Mixed, 2, true, true),
    ];
    let n = g.size(thorough, (6, 40), (0, 2));
    let thorough = thorough && !g.lite();
    for i in 0..n {
        let total = 3 * b + rng.below(b as u64 + 1) as usize;
        let (mode, mut kind, intr, lw) = plan[i % 8];
        if thorough && i >= 8 {
            // byte-by-byte only for a few of them
            kind = [0, 1, 2, 3, 4, 5, 6, 8, 6, 6][(rng.below(10)) as usize];
            if i % 10 == 9 {
                kind = 7;
            }
        }
        big_case(g, rng, "stream5_long", mode, total, kind, intr, lw);
    }
}
