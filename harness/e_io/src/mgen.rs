//! Stream (7): several live readers on one thread, interleaved (wave 3, class (B); seeded C08_m10).
//!
//! Every reader gets its own input, delivery schedule and in-domain script (built by the oracle simulation, as in the
//! single-reader streams); the steps of the readers are then interleaved: all merges of two short scripts (small
//! scope), random merges / round robin / bursts over 2..5 readers, and the "temporary reader" shape (a main reader;
//! other readers are created, used and dropped between two of its calls). Lifecycle steps: explicit `new` up front
//! or lazily, `drop` right after the last call / at the end / never, `mv` now and then.
use crate::common::*;
use crate::gen::*;
use crate::multi::{fmt_step, MStep};
use crate::streams::{count_lines, grammar_input, lines_input, lines_scripts, small_token_script, LINE_SPECIALS};
use crate::{fmt_sched, hex_of, Atom, Item, Op, Oracle, Sched};

pub struct Part {
    pub data: Vec<u8>,
    pub sched: Sched,
    pub ops: Vec<Op>,
}

fn line_of(g: &Gen, parts: &[Part], steps: &[MStep]) -> String {
    let mut line = String::new();
    line.push_str(&g.buf().to_string());
    for (i, p) in parts.iter().enumerate() {
        if i > 0 {
            line.push_str(" +");
        }
        line.push(' ');
        line.push_str(&hex_of(&p.data));
        line.push(' ');
        line.push_str(&fmt_sched(&p.sched));
    }
    for s in steps {
        line.push_str(" ; ");
        line.push_str(&fmt_step(s));
    }
    line
}

fn emit_multi(g: &mut Gen, parts: &[Part], steps: &[MStep], stream: &'static str, pat: &'static str) {
    let line = line_of(g, parts, steps);
    let k = parts.len();
    let kk = match k {
        2 => "multi_readers_2",
        3 => "multi_readers_3",
        _ => "multi_readers_4plus",
    };
    g.emit_line(line, &["stream7_multi_reader", stream, pat, kk]);
    // what the interleaving does
    let runs: Vec<usize> = steps.iter().filter_map(|s| if let MStep::Run(k, _) = s { Some(*k) } else { None }).collect();
    let mut sandwich = 0u64;
    for i in 1..runs.len() {
        // a call of reader a, then calls of other readers, then reader a again
        if runs[i] != runs[i - 1] && runs[..i - 1].contains(&runs[i]) {
            sandwich += 1;
        }
    }
    if sandwich > 0 {
        g.add("multi_cases_reader_used_again_after_another_reader_read", 1);
    }
    g.add("multi_switches_back_to_an_earlier_reader", sandwich);
    g.add("multi_steps_call", runs.len() as u64);
    for s in steps {
        match s {
            MStep::New(_) => g.add("multi_steps_new", 1),
            MStep::Drop(_) => g.add("multi_steps_drop", 1),
            MStep::Mv(_) => g.add("multi_steps_mv", 1),
            _ => {}
        }
    }
    // readers dropped (or left) with unread input, readers with an input longer than BUF, interrupts
    for (j, p) in parts.iter().enumerate() {
        let ops: Vec<&Op> = steps.iter().filter_map(|s| if let MStep::Run(k, op) = s { if *k == j { Some(op) } else { None } } else { None }).collect();
        let mut o = Oracle::new(&p.data);
        let mut scratch = String::new();
        for op in &ops {
            scratch.clear();
            if !o.op(op, &mut scratch) {
                break;
            }
        }
        if o.p < p.data.len() {
            g.add("multi_readers_finished_with_unread_input", 1);
        }
        if p.data.len() > g.buf() {
            g.add("multi_readers_input_longer_than_buf", 1);
        }
        if p.data.is_empty() {
            g.add("multi_readers_empty_input", 1);
        }
        if p.sched.iter().any(|(it, _)| *it == Item::Intr) {
            g.add("multi_readers_with_interrupt", 1);
        }
        if ops.is_empty() {
            g.add("multi_readers_without_calls", 1);
        }
        let owned: Vec<Op> = ops.into_iter().cloned().collect();
        g.count_atoms(&owned);
    }
    let all: Vec<u8> = parts.iter().flat_map(|p| p.data.iter().copied()).collect();
    g.note_bytes(&all);
    if parts.len() >= 2 && parts.iter().skip(1).any(|p| p.data == parts[0].data) {
        g.add("multi_cases_two_readers_same_input", 1);
    }
}

// ---------------------------------------------------------------------------------------------
// interleavings
// ---------------------------------------------------------------------------------------------

#[derive(Clone, Copy, PartialEq, Eq, Debug)]
enum Pat {
    Merge,
    RoundRobin,
    Bursts,
    Temps,
}

fn pat_name(p: Pat) -> &'static str {
    match p {
        Pat::Merge => "multi_pat_random_merge",
        Pat::RoundRobin => "multi_pat_round_robin",
        Pat::Bursts => "multi_pat_bursts",
        Pat::Temps => "multi_pat_temporary_readers",
    }
}

/// order in which the readers make their calls
fn call_order(rng: &mut SplitMix64, lens: &[usize], pat: Pat) -> Vec<usize> {
    let n = lens.len();
    let mut left: Vec<usize> = lens.to_vec();
    let total: usize = lens.iter().sum();
    let mut out = Vec::with_capacity(total);
    match pat {
        Pat::RoundRobin => {
            let mut k = 0;
            while out.len() < total {
                if left[k] > 0 {
                    left[k] -= 1;
                    out.push(k);
                }
                k = (k + 1) % n;
            }
        }
        Pat::Merge | Pat::Bursts => {
            while out.len() < total {
                let alive: Vec<usize> = (0..n).filter(|&k| left[k] > 0).collect();
                let k = *rng.pick(&alive);
                let b = if pat == Pat::Bursts { 1 + rng.below(4) as usize } else { 1 };
                for _ in 0..b.min(left[k]) {
                    left[k] -= 1;
                    out.push(k);
                }
            }
        }
        Pat::Temps => {
            // reader 0 is the main one; reader k >= 1 makes all its calls in one block between two calls of the main
            // reader (when it has at least two), in index order or not
            let m = lens[0];
            let mut at: Vec<(usize, usize)> = (1..n).map(|k| (if m >= 2 { 1 + rng.below(m as u64 - 1) as usize } else { rng.below(m as u64 + 1) as usize }, k)).collect();
            at.sort();
            let mut ai = 0;
            for i in 0..=m {
                while ai < at.len() && at[ai].0 == i {
                    for _ in 0..lens[at[ai].1] {
                        out.push(at[ai].1);
                    }
                    ai += 1;
                }
                if i < m {
                    out.push(0);
                }
            }
        }
    }
    out
}

fn interleave(rng: &mut SplitMix64, parts: &[Part], pat: Pat) -> Vec<MStep> {
    let n = parts.len();
    let lens: Vec<usize> = parts.iter().map(|p| p.ops.len()).collect();
    let order = call_order(rng, &lens, pat);
    let mut next = vec![0usize; n];
    let mut steps: Vec<MStep> = Vec::new();
    let mut created = vec![false; n];
    let mut dropped = vec![false; n];
    let upfront = pat != Pat::Temps && rng.chance(1, 2);
    if upfront {
        // every reader exists before the first call of any of them
        let mut ks: Vec<usize> = (0..n).collect();
        for i in (1..n).rev() {
            ks.swap(i, rng.below(i as u64 + 1) as usize);
        }
        for k in ks {
            steps.push(MStep::New(k));
            created[k] = true;
        }
    }
    // when to drop a reader after its last call: 0 = at once, 1 = at the end, 2 = never (dropped with the case)
    let drop_mode: Vec<u64> = (0..n).map(|k| if pat == Pat::Temps && k >= 1 { if rng.chance(3, 4) { 0 } else { rng.below(3) } } else { rng.below(3) }).collect();
    // in the temporary-reader shape a reader without calls is still created and dropped between two calls of the main one
    let idle: Vec<usize> = (0..n).filter(|&k| lens[k] == 0).collect();
    let idle_at: Vec<usize> = idle.iter().map(|_| rng.below(order.len() as u64 + 1) as usize).collect();
    for (i, &k) in order.iter().enumerate() {
        for (j, &r) in idle.iter().enumerate() {
            if idle_at[j] == i && !dropped[r] {
                if !created[r] {
                    steps.push(MStep::New(r));
                    created[r] = true;
                }
                if rng.chance(2, 3) {
                    steps.push(MStep::Drop(r));
                    dropped[r] = true;
                }
            }
        }
        if !created[k] {
            if rng.chance(1, 3) {
                steps.push(MStep::New(k));
            }
            created[k] = true;
        }
        steps.push(MStep::Run(k, parts[k].ops[next[k]].clone()));
        next[k] += 1;
        if rng.chance(1, 12) {
            steps.push(MStep::Mv(k));
        }
        if next[k] == lens[k] && drop_mode[k] == 0 {
            steps.push(MStep::Drop(k));
            dropped[k] = true;
        }
    }
    for k in 0..n {
        if !dropped[k] && (created[k] || rng.chance(1, 2)) && drop_mode[k] == 1 {
            steps.push(MStep::Drop(k));
            dropped[k] = true;
        }
    }
    steps
}

// ---------------------------------------------------------------------------------------------
// parts
// ---------------------------------------------------------------------------------------------

fn pick_sched(rng: &mut SplitMix64, data: &[u8], lines_bias: bool) -> Sched {
    let kinds = pick_kinds(rng, data, lines_bias);
    let k = *rng.pick(&kinds);
    make_sched(rng, k, data)
}

fn random_part(rng: &mut SplitMix64) -> Part {
    match rng.below(10) {
        0..=4 => {
            let inp = grammar_input(rng);
            let strict = rng.chance(1, 2);
            let items = build_items(rng, &inp, strict, true, true);
            let ops = group(rng, &items);
            let sched = pick_sched(rng, &inp.data, false);
            Part { data: inp.data, sched, ops }
        }
        5..=7 => {
            let data = lines_input(rng);
            let mut scripts = lines_scripts(rng, &data);
            let ops = scripts.swap_remove(rng.below(3) as usize);
            let sched = pick_sched(rng, &data, true);
            Part { data, sched, ops }
        }
        8 => {
            let data = rng.pick(&LINE_SPECIALS).to_vec();
            let mut scripts = lines_scripts(rng, &data);
            let ops = scripts.swap_remove(rng.below(3) as usize);
            let sched = pick_sched(rng, &data, true);
            Part { data, sched, ops }
        }
        _ => {
            // a reader that is only created (and perhaps dropped): no calls; sometimes no input either
            let data = if rng.chance(1, 2) { Vec::new() } else { grammar_input(rng).data };
            let sched = pick_sched(rng, &data, false);
            Part { data, sched, ops: Vec::new() }
        }
    }
}

/// the "helper parses a piece of the main input with a temporary reader" shape: the temporary reader's input is a
/// line of the main input (what `read_line` returned), read token by token
fn sub_part(rng: &mut SplitMix64, main: &[u8]) -> Option<Part> {
    let mut o = Oracle::new(main);
    let mut lines: Vec<Vec<u8>> = Vec::new();
    while let Some(l) = o.line() {
        if !l.is_empty() {
            lines.push(l.to_vec());
        }
    }
    if lines.is_empty() {
        return None;
    }
    let data = rng.pick(&lines).clone();
    let ops = small_or_typed_script(rng, &data);
    let sched = pick_sched(rng, &data, false);
    Some(Part { data, sched, ops })
}

fn small_or_typed_script(rng: &mut SplitMix64, data: &[u8]) -> Vec<Op> {
    let mut o = Oracle::new(data);
    let mut ops = Vec::new();
    let mut scratch = String::new();
    while let Some((s, e)) = o.peek_token() {
        let v = valid_ints(&data[s..e]);
        let a = if !v.is_empty() && rng.chance(3, 4) {
            *rng.pick(&v)
        } else if rng.chance(4, 5) {
            Atom::Str
        } else {
            Atom::Chr
        };
        scratch.clear();
        assert!(o.atom(a, &mut scratch));
        ops.push(Op::R(a));
        if ops.len() >= 12 {
            break;
        }
    }
    if rng.chance(1, 2) {
        ops.push(Op::Eof);
    }
    ops
}

// ---------------------------------------------------------------------------------------------
// (7a) small scope: two readers, short scripts, ALL merges
// ---------------------------------------------------------------------------------------------

const SMALL_INPUTS: [&[u8]; 8] = [b"1 2", b"-7\n", b"a b\r\nc", b"", b"\n", b"12\r", b"x", b"3 -4 5\r\n"];

fn all_merges(a: usize, b: usize) -> Vec<Vec<usize>> {
    // all sequences with `a` zeros and `b` ones
    fn go(a: usize, b: usize, cur: &mut Vec<usize>, out: &mut Vec<Vec<usize>>) {
        if a == 0 && b == 0 {
            out.push(cur.clone());
            return;
        }
        if a > 0 {
            cur.push(0);
            go(a - 1, b, cur, out);
            cur.pop();
        }
        if b > 0 {
            cur.push(1);
            go(a, b - 1, cur, out);
            cur.pop();
        }
    }
    let mut out = Vec::new();
    go(a, b, &mut Vec::new(), &mut out);
    out
}

fn small_script(rng: &mut SplitMix64, data: &[u8], kind: u64) -> Vec<Op> {
    let mut ops = match kind {
        0 => {
            let mut v = vec![Op::Line; count_lines(data) + 1];
            v.push(Op::Eof);
            v
        }
        _ => small_token_script(rng, data),
    };
    ops.truncate(3);
    ops
}

fn small_sched(data: &[u8], bytes: bool) -> Sched {
    let mut s = Sched::new();
    if bytes && !data.is_empty() {
        push_item(&mut s, Item::Intr, 1);
        push_item(&mut s, Item::Chunk(1), data.len() as u64);
    }
    s
}

fn stream_multi_small(g: &mut Gen, rng: &mut SplitMix64, thorough: bool) {
    let n = SMALL_INPUTS.len();
    let mut pairs: Vec<(usize, usize)> = Vec::new();
    for a in 0..n {
        for b in 0..n {
            pairs.push((a, b));
        }
    }
    let rounds = g.size(thorough, (1, 6), (1, 1)) as u64;
    let keep = g.size(thorough, (3, 1), (6, 1)) as u64;
    for round in 0..rounds {
        for &(a, b) in &pairs {
            // quick: a third of the pairs (all of them over three seeds' worth of runs is not assumed: the choice is random)
            if keep > 1 && !rng.chance(1, keep) {
                continue;
            }
            let (da, db) = (SMALL_INPUTS[a], SMALL_INPUTS[b]);
            let ka = (round + rng.below(2)) % 2;
            let oa = small_script(rng, da, ka);
            let kb = rng.below(2);
            let ob = small_script(rng, db, kb);
            let (ba, bb) = (rng.chance(1, 2), rng.chance(1, 2));
            let parts = [Part { data: da.to_vec(), sched: small_sched(da, ba), ops: oa }, Part { data: db.to_vec(), sched: small_sched(db, bb), ops: ob }];
            for (mi, m) in all_merges(parts[0].ops.len(), parts[1].ops.len()).into_iter().enumerate() {
                let mut steps = Vec::new();
                let explicit = mi % 2 == 1;
                if explicit {
                    steps.push(MStep::New(0));
                    steps.push(MStep::New(1));
                }
                let mut nx = [0usize; 2];
                for k in m {
                    steps.push(MStep::Run(k, parts[k].ops[nx[k]].clone()));
                    nx[k] += 1;
                    if explicit && nx[k] == parts[k].ops.len() {
                        steps.push(MStep::Drop(k));
                    }
                }
                emit_multi(g, &parts, &steps, "stream7a_multi_small_all_merges", "multi_pat_all_merges");
            }
        }
    }
}

// ---------------------------------------------------------------------------------------------
// (7b) random structured, (7c) temporary readers, (7d) inputs longer than BUF
// ---------------------------------------------------------------------------------------------

fn stream_multi_random(g: &mut Gen, rng: &mut SplitMix64, thorough: bool) {
    let count = g.size(thorough, (500, 30_000), (120, 3000));
    for _ in 0..count {
        let k = match rng.below(10) {
            0..=5 => 2,
            6..=8 => 3,
            _ => 4 + rng.below(2) as usize,
        };
        let mut parts: Vec<Part> = (0..k).map(|_| random_part(rng)).collect();
        if rng.chance(1, 25) {
            // rare coincidence: two readers over the SAME bytes (different schedules, different scripts)
            let d = parts[0].data.clone();
            let inp = Inp { data: d.clone(), hints: Default::default() };
            let items = build_items(rng, &inp, false, true, true);
            parts[1] = Part { sched: pick_sched(rng, &d, false), ops: group(rng, &items), data: d };
        }
        let pat = *rng.pick(&[Pat::Merge, Pat::Merge, Pat::RoundRobin, Pat::Bursts, Pat::Bursts]);
        let steps = interleave(rng, &parts, pat);
        emit_multi(g, &parts, &steps, "stream7b_multi_random", pat_name(pat));
    }
}

fn stream_multi_temps(g: &mut Gen, rng: &mut SplitMix64, thorough: bool) {
    let count = g.size(thorough, (400, 20_000), (100, 2000));
    for _ in 0..count {
        // the main reader has at least two calls
        let main = loop {
            let p = random_part(rng);
            if p.ops.len() >= 2 {
                break p;
            }
        };
        let k = 1 + match rng.below(10) {
            0..=5 => 1,
            6..=8 => 2,
            _ => 3 + rng.below(2) as usize,
        };
        let mut parts = vec![main];
        for _ in 1..k {
            let p = if rng.chance(1, 3) { sub_part(rng, &parts[0].data) } else { None };
            parts.push(p.unwrap_or_else(|| random_part(rng)));
        }
        let steps = interleave(rng, &parts, Pat::Temps);
        emit_multi(g, &parts, &steps, "stream7c_multi_temporary_readers", pat_name(Pat::Temps));
    }
}

fn ints_input(rng: &mut SplitMix64, total: usize) -> (Vec<u8>, usize) {
    let mut d = Vec::with_capacity(total + 16);
    let mut n = 0usize;
    while d.len() < total {
        d.extend_from_slice(rng.below(1_000_000_000).to_string().as_bytes());
        d.push(if rng.chance(1, 10) { b'\n' } else { b' ' });
        n += 1;
    }
    (d, n)
}

fn stream_multi_big(g: &mut Gen, rng: &mut SplitMix64, thorough: bool) {
    let b = g.buf();
    let count = g.size(thorough, (2, 12), (0, 2));
    for i in 0..count {
        // quick: just over BUF (the Lean driver needs ~7 us per input byte); thorough: up to 2*BUF
        let span = if thorough { b as u64 / 2 + 1 } else { (b as u64 / 16).max(1) };
        let t0 = (b + if thorough { b / 2 } else { b / 16 } + rng.below(span) as usize).max(64);
        let (d0, n0) = ints_input(rng, t0);
        let first = 1 + rng.below((n0 as u64 - 1).min(if i % 2 == 0 { 40 } else { n0 as u64 / 2 })) as usize;
        let main = Part { sched: if rng.chance(1, 2) { Sched::new() } else { vec![(Item::Chunk((b - 1).max(1)), 1), (Item::Intr, 1), (Item::Chunk(b + 1), 4)] }, data: d0, ops: Vec::new() };
        let other = if i % 2 == 0 {
            // a second long input: its refills run through the whole buffer while the main reader still has buffered input
            let t1 = b + 1 + rng.below(span) as usize;
            let (d1, n1) = ints_input(rng, t1);
            Part { sched: Sched::new(), data: d1, ops: vec![Op::V(n1, vec![Atom::U32]), Op::Eof] }
        } else {
            let p = random_part(rng);
            Part { sched: p.sched, data: p.data, ops: p.ops.into_iter().take(3).collect() }
        };
        let mut steps = vec![MStep::Run(0, Op::V(first, vec![Atom::U32]))];
        if rng.chance(1, 2) {
            steps.push(MStep::New(1));
        }
        for op in &other.ops {
            steps.push(MStep::Run(1, op.clone()));
        }
        if rng.chance(1, 2) {
            steps.push(MStep::Drop(1));
        }
        steps.push(MStep::Run(0, Op::V(n0 - first, vec![Atom::U32])));
        steps.push(MStep::Run(0, Op::Eof));
        let parts = [main, other];
        emit_multi(g, &parts, &steps, "stream7d_multi_input_longer_than_buf", "multi_pat_temporary_readers");
    }
}

pub fn stream_multi(g: &mut Gen, rng: &mut SplitMix64, thorough: bool) {
    stream_multi_small(g, rng, thorough);
    stream_multi_random(g, rng, thorough);
    stream_multi_temps(g, rng, thorough);
    stream_multi_big(g, rng, thorough);
}
