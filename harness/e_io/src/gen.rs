//! Case generator of the `io` reader harness (property C08). Every in-domain script is built by
//! simulating the harness oracle on the input, so typed reads only meet valid tokens.
use crate::common::*;
use crate::{fmt_op, fmt_sched, hex_of, int_value, is_int, is_ws, Atom, Item, Op, Oracle, Sched, INT_ATOMS};
use std::collections::{BTreeMap, HashMap};

// ---------------------------------------------------------------------------------------------
// emitting + statistics
// ---------------------------------------------------------------------------------------------

pub struct Gen<'a> {
    emit: &'a mut dyn FnMut(String),
    cnt: BTreeMap<&'static str, u64>,
    atom_cnt: [u64; 14],
    buf: usize,
    /// reduced streams (the debug-profile run: `--profile debug`)
    lite: bool,
    /// the next emitted line gets the header flag `ss` (run in a child process on a small stack; wave 4)
    ss_next: bool,
}

/// one (input, script) pair, prepared once and emitted under several schedules
pub struct Prep {
    data: Vec<u8>,
    hex: String,
    script: String,
    opc: Vec<(&'static str, u64)>,
    atoms: [u64; 14],
    long_tok: bool,
}

fn atom_idx(a: Atom) -> usize {
    crate::ATOMS.iter().position(|(_, x)| *x == a).unwrap()
}

pub fn prep(data: &[u8], ops: &[Op]) -> Prep {
    let mut m: BTreeMap<&'static str, u64> = BTreeMap::new();
    let mut atoms = [0u64; 14];
    for op in ops {
        let k = match op {
            Op::R(a) => {
                atoms[atom_idx(*a)] += 1;
                "op_r"
            }
            Op::T(v) => {
                for a in v {
                    atoms[atom_idx(*a)] += 1;
                }
                "op_t"
            }
            Op::V(n, v) => {
                for a in v {
                    atoms[atom_idx(*a)] += 1;
                }
                if *n == 0 {
                    *m.entry("op_v_n0").or_insert(0) += 1;
                }
                if v.len() == 1 {
                    "op_v"
                } else {
                    "op_vt"
                }
            }
            Op::Line => "op_line",
            Op::Lines => "op_lines",
            Op::Eof => "op_eof",
        };
        *m.entry(k).or_insert(0) += 1;
    }
    if ops.is_empty() {
        m.insert("script_empty", 1);
    }
    let script = ops.iter().map(fmt_op).collect::<Vec<_>>().join(" ; ");
    let mut long_tok = false;
    let mut o = Oracle::new(data);
    while let Some(t) = o.next_token() {
        if t.len() > 20 {
            long_tok = true;
            break;
        }
    }
    Prep { data: data.to_vec(), hex: hex_of(data), script, opc: m.into_iter().collect(), atoms, long_tok }
}

impl<'a> Gen<'a> {
    fn bump(&mut self, k: &'static str) {
        *self.cnt.entry(k).or_insert(0) += 1;
    }

    pub fn emit(&mut self, stream: &'static str, p: &Prep, sched: &[(Item, u64)], kind: &'static str) {
        let ss = fmt_sched(sched);
        let mut line = String::with_capacity(p.hex.len() + ss.len() + p.script.len() + 32);
        line.push_str(&self.buf.to_string());
        line.push(' ');
        line.push_str(&p.hex);
        line.push(' ');
        line.push_str(&ss);
        if self.ss_next {
            line.push_str(" ss");
            self.ss_next = false;
            self.bump("cases_run_on_small_stack_child");
        }
        if !p.script.is_empty() {
            line.push_str(" ; ");
            line.push_str(&p.script);
        }
        if stream == "stream6_out_of_domain" || stream == "stream6b_non_ascii_counted_only" {
            // twin line: all results as raw, `S any` (differences between model and implementation outside the domain
            // are counted by `check`, never a verdict)
            let mut twin = String::with_capacity(line.len() + 8);
            match line.find(" ; ") {
                Some(k) => {
                    twin.push_str(&line[..k]);
                    twin.push_str(" full");
                    twin.push_str(&line[k..]);
                }
                None => {
                    twin.push_str(&line);
                    twin.push_str(" full");
                }
            }
            (self.emit)(twin);
            self.bump("lines_total");
            self.bump("stream6_full_twins");
            if stream == "stream6b_non_ascii_counted_only" {
                // bytes >= 0x80 are outside the property's domain (ASCII inputs): only the twin line, nothing is constrained
                self.bump(stream);
                return;
            }
        }
        self.note_bytes(&p.data);
        (self.emit)(line);
        self.bump("lines_total");
        self.bump(stream);
        self.bump(kind);
        for (k, v) in &p.opc {
            *self.cnt.entry(*k).or_insert(0) += *v;
        }
        for i in 0..14 {
            self.atom_cnt[i] += p.atoms[i];
        }
        let n = p.data.len();
        let b = self.buf;
        self.bump(if n == 0 {
            "len_0"
        } else if n >= 3 * b {
            "len_ge_3buf"
        } else if n >= b {
            "len_buf_below_3buf"
        } else if n <= 6 {
            "len_1_6"
        } else if n <= 64 {
            "len_7_64"
        } else if n <= 1024 {
            "len_65_1024"
        } else {
            "len_1025_below_buf"
        });
        // what the schedule does to the input
        let mut intr = false;
        let mut pos = 0usize;
        let (mut tok_split, mut crlf_split, mut minus_split, mut cuts) = (false, false, false, 0u64);
        let mut deep_split = false;
        'outer: for &(it, c) in sched {
            match it {
                Item::Intr => intr = true,
                Item::Chunk(k) => {
                    for _ in 0..c {
                        let start = pos;
                        pos = pos.saturating_add(k);
                        if pos >= n {
                            break 'outer;
                        }
                        cuts += 1;
                        let (x, y) = (p.data[pos - 1], p.data[pos]);
                        if !is_ws(x) && !is_ws(y) {
                            tok_split = true;
                            if !deep_split && pos - start >= 21 {
                                // does the split token start inside this chunk, >= 21 bytes before the boundary?
                                let mut ts = pos - 1;
                                while ts > start && !is_ws(p.data[ts - 1]) {
                                    ts -= 1;
                                }
                                let starts_here = ts > start || start == 0 || is_ws(p.data[start - 1]);
                                if starts_here && pos - ts >= 21 {
                                    deep_split = true;
                                }
                            }
                        }
                        if x == b'\r' && y == b'\n' {
                            crlf_split = true;
                        }
                        if x == b'-' && y.is_ascii_digit() {
                            minus_split = true;
                        }
                    }
                }
            }
        }
        // note: `intr` only looks at items before the data is exhausted or all of them
        if !intr {
            intr = sched.iter().any(|(it, _)| *it == Item::Intr);
        }
        if intr {
            self.bump("cases_with_interrupt");
        }
        if cuts > 0 {
            self.bump("cases_input_split_in_2plus_chunks");
        }
        if tok_split {
            self.bump("cases_token_split_by_chunk_boundary");
        }
        if crlf_split {
            self.bump("cases_crlf_split_by_chunk_boundary");
        }
        if deep_split {
            self.bump("cases_long_token_split_at_offset_ge_21");
        }
        if p.long_tok {
            self.bump("cases_with_token_longer_than_20");
        }
        if minus_split {
            self.bump("cases_minus_digit_split_by_chunk_boundary");
        }
        if n > 0 && p.data[n - 1] == b'\r' {
            self.bump("cases_input_ends_in_cr");
        }
    }
}

// ---------------------------------------------------------------------------------------------
// schedules
// ---------------------------------------------------------------------------------------------

pub fn push_item(s: &mut Sched, it: Item, n: u64) {
    if n == 0 || it == Item::Chunk(0) {
        return;
    }
    if let Some(last) = s.last_mut() {
        if last.0 == it {
            last.1 += n;
            return;
        }
    }
    s.push((it, n));
}

/// chunks given by sorted cut positions in (0, n); the last chunk explicit or left to "the rest"
fn from_cuts(n: usize, cuts: &[usize], explicit_last: bool) -> Sched {
    let mut s = Sched::new();
    let mut prev = 0usize;
    for &c in cuts {
        if c > prev && c < n {
            push_item(&mut s, Item::Chunk(c - prev), 1);
            prev = c;
        }
    }
    if explicit_last && n > prev {
        push_item(&mut s, Item::Chunk(n - prev), 1);
    }
    s
}

fn intr_run(rng: &mut SplitMix64) -> u64 {
    if rng.chance(1, 4) {
        2 + rng.below(3)
    } else {
        1
    }
}

/// insert Interrupted events: before the first read, between chunks, several in a row, after the end
pub fn sprinkle(rng: &mut SplitMix64, s: &[(Item, u64)], heavy: bool) -> Sched {
    let mut o = Sched::new();
    if rng.chance(1, 3) {
        push_item(&mut o, Item::Intr, intr_run(rng));
    }
    let den = if heavy { 4 } else { 10 };
    for &(it, cnt) in s {
        if cnt <= 32 {
            for _ in 0..cnt {
                push_item(&mut o, it, 1);
                if rng.chance(1, den) {
                    push_item(&mut o, Item::Intr, intr_run(rng));
                }
            }
        } else {
            let mut left = cnt;
            let pieces = 1 + rng.below(3);
            for _ in 0..pieces {
                if left == 0 {
                    break;
                }
                let a = rng.below(left + 1);
                push_item(&mut o, it, a);
                left -= a;
                push_item(&mut o, Item::Intr, intr_run(rng));
            }
            push_item(&mut o, it, left);
        }
    }
    if rng.chance(1, 2) {
        push_item(&mut o, Item::Intr, intr_run(rng));
    }
    if !o.iter().any(|(it, _)| *it == Item::Intr) {
        let at = rng.below(o.len() as u64 + 1) as usize;
        o.insert(at, (Item::Intr, intr_run(rng)));
    }
    o
}

fn token_bounds(data: &[u8]) -> Vec<usize> {
    let mut v = Vec::new();
    let mut o = Oracle::new(data);
    while let Some(t) = o.next_token() {
        v.push(o.p - t.len());
        v.push(o.p);
    }
    v
}

#[derive(Clone, Copy, PartialEq, Eq, Debug)]
pub enum SK {
    All,
    Bytes,
    Twos,
    Rand8,
    TokBound,
    Minus,
    CrLf,
    AroundCr,
    Intr,
    Rand9to64,
    Rand1to40,
    SplitLong,
    SplitLongIntr,
}

fn sk_name(k: SK) -> &'static str {
    match k {
        SK::All => "sched_all_at_once",
        SK::Bytes => "sched_byte_by_byte",
        SK::Twos => "sched_all_2s",
        SK::Rand8 => "sched_random_1_8",
        SK::TokBound => "sched_token_boundaries",
        SK::Minus => "sched_after_minus",
        SK::CrLf => "sched_between_cr_lf",
        SK::AroundCr => "sched_around_every_cr",
        SK::Intr => "sched_random_with_interrupts",
        SK::Rand9to64 => "sched_random_9_64",
        SK::Rand1to40 => "sched_random_1_40",
        SK::SplitLong => "sched_split_inside_long_token",
        SK::SplitLongIntr => "sched_split_inside_long_token_with_interrupts",
    }
}

fn rand8(rng: &mut SplitMix64, n: usize) -> Sched {
    let mut s = Sched::new();
    let mut pos = 0usize;
    // sometimes stop early (the rest is one final chunk), sometimes overshoot
    let stop = if rng.chance(1, 4) { rng.below(n as u64 + 1) as usize } else { n + rng.below(3) as usize };
    while pos < stop {
        let k = 1 + rng.below(8) as usize;
        push_item(&mut s, Item::Chunk(k), 1);
        pos += k;
    }
    s
}

fn rand_range(rng: &mut SplitMix64, n: usize, lo: usize, hi: usize) -> Sched {
    let mut s = Sched::new();
    let mut pos = 0usize;
    let stop = if rng.chance(1, 4) { rng.below(n as u64 + 1) as usize } else { n + rng.below(3) as usize };
    while pos < stop {
        let k = lo + rng.below((hi - lo + 1) as u64) as usize;
        push_item(&mut s, Item::Chunk(k), 1);
        pos += k;
    }
    s
}

/// split points strictly inside tokens of length >= 4 (each token with probability 1/2)
fn long_token_cuts(rng: &mut SplitMix64, data: &[u8]) -> Vec<usize> {
    let tb = token_bounds(data);
    let mut cuts = Vec::new();
    for se in tb.chunks(2) {
        let (s, e) = (se[0], se[1]);
        let len = e - s;
        if len >= 4 && rng.chance(1, 2) {
            let off = if rng.chance(1, 2) {
                1 + rng.below(len as u64 - 1) as usize
            } else {
                // deep inside: the second half of the token
                len / 2 + rng.below((len - len / 2) as u64) as usize
            };
            cuts.push(s + off.clamp(1, len - 1));
        }
    }
    cuts
}

pub fn make_sched(rng: &mut SplitMix64, kind: SK, data: &[u8]) -> Sched {
    let n = data.len();
    let explicit = rng.chance(2, 3);
    let mut s = match kind {
        SK::All => Sched::new(),
        SK::Bytes => {
            let mut s = Sched::new();
            push_item(&mut s, Item::Chunk(1), n as u64);
            s
        }
        SK::Twos => {
            let mut s = Sched::new();
            push_item(&mut s, Item::Chunk(2), ((n + 1) / 2) as u64);
            s
        }
        SK::Rand8 => rand8(rng, n),
        SK::Rand9to64 => rand_range(rng, n, 9, 64),
        SK::Rand1to40 => rand_range(rng, n, 1, 40),
        SK::SplitLong => {
            let c = long_token_cuts(rng, data);
            from_cuts(n, &c, explicit)
        }
        SK::SplitLongIntr => {
            let c = long_token_cuts(rng, data);
            let base = from_cuts(n, &c, explicit);
            let mut o = Sched::new();
            for &(it, cnt) in &base {
                for _ in 0..cnt {
                    push_item(&mut o, it, 1);
                    if rng.chance(1, 3) {
                        push_item(&mut o, Item::Intr, intr_run(rng));
                    }
                }
            }
            if !o.iter().any(|(it, _)| *it == Item::Intr) {
                let at = rng.below(o.len() as u64 + 1) as usize;
                o.insert(at, (Item::Intr, 1));
            }
            return o;
        }
        SK::TokBound => {
            let cuts: Vec<usize> = token_bounds(data).into_iter().filter(|_| rng.chance(4, 5)).collect();
            let mut c = cuts;
            c.dedup();
            from_cuts(n, &c, explicit)
        }
        SK::Minus => {
            let mut c: Vec<usize> = (0..n).filter(|&i| data[i] == b'-').map(|i| i + 1).collect();
            for _ in 0..rng.below(3) {
                c.push(rng.below(n as u64 + 1) as usize);
            }
            c.sort();
            c.dedup();
            from_cuts(n, &c, explicit)
        }
        SK::CrLf => {
            let mut c: Vec<usize> = (0..n).filter(|&i| data[i] == b'\r').map(|i| i + 1).collect();
            for _ in 0..rng.below(3) {
                c.push(rng.below(n as u64 + 1) as usize);
            }
            c.sort();
            c.dedup();
            from_cuts(n, &c, explicit)
        }
        SK::AroundCr => {
            let mut c: Vec<usize> = Vec::new();
            for i in 0..n {
                if data[i] == b'\r' {
                    c.push(i);
                    c.push(i + 1);
                }
            }
            c.sort();
            c.dedup();
            from_cuts(n, &c, true)
        }
        SK::Intr => {
            let base = match rng.below(4) {
                0 => make_sched(rng, SK::Bytes, data),
                1 => make_sched(rng, SK::TokBound, data),
                2 => make_sched(rng, SK::AroundCr, data),
                _ => rand8(rng, n),
            };
            return sprinkle(rng, &base, true);
        }
    };
    if kind != SK::All && rng.chance(1, 5) {
        s = sprinkle(rng, &s, false);
    }
    s
}

/// 2..=4 different schedule kinds for an input; `lines_bias` puts the CR-related ones first
pub fn pick_kinds(rng: &mut SplitMix64, data: &[u8], lines_bias: bool) -> Vec<SK> {
    let n = data.len();
    let has_minus = data.windows(2).any(|w| w[0] == b'-');
    let has_cr = data.contains(&b'\r');
    let mut cand: Vec<SK> = vec![SK::All, SK::Intr];
    if n >= 1 {
        cand.push(SK::Bytes);
    }
    if n >= 2 {
        cand.extend([SK::Twos, SK::Rand8, SK::TokBound, SK::Rand1to40]);
    }
    if n >= 10 {
        cand.push(SK::Rand9to64);
    }
    if token_bounds(data).chunks(2).any(|se| se[1] - se[0] >= 4) {
        cand.extend([SK::SplitLong, SK::SplitLongIntr]);
    }
    if has_minus {
        cand.extend([SK::Minus, SK::Minus]);
    }
    if has_cr {
        cand.extend([SK::CrLf, SK::AroundCr]);
        if lines_bias {
            cand.extend([SK::CrLf, SK::AroundCr, SK::Intr]);
        }
    }
    let want = 2 + rng.below(3) as usize;
    let mut out: Vec<SK> = Vec::new();
    let mut guard = 0;
    while out.len() < want && guard < 40 {
        guard += 1;
        let k = *rng.pick(&cand);
        // Intr and Rand8 are random, so they may repeat; the others are (mostly) deterministic
        if !out.contains(&k) || matches!(k, SK::Intr | SK::Rand8 | SK::Rand9to64 | SK::Rand1to40 | SK::SplitLong | SK::SplitLongIntr) {
            out.push(k);
        }
    }
    out
}

pub fn emit_under(g: &mut Gen, rng: &mut SplitMix64, stream: &'static str, p: &Prep, kinds: &[SK]) {
    for &k in kinds {
        let s = make_sched(rng, k, &p.data);
        g.emit(stream, p, &s, sk_name(k));
    }
}

// ---------------------------------------------------------------------------------------------
// tokens
// ---------------------------------------------------------------------------------------------

/// (magnitude of MIN, MAX)
fn bounds(a: Atom) -> (u128, u128) {
    match a {
        Atom::I8 => (1 << 7, (1 << 7) - 1),
        Atom::I16 => (1 << 15, (1 << 15) - 1),
        Atom::I32 => (1 << 31, (1 << 31) - 1),
        Atom::I64 | Atom::Isize => (1 << 63, (1 << 63) - 1),
        Atom::I128 => (1 << 127, (1 << 127) - 1),
        Atom::U8 => (0, u8::MAX as u128),
        Atom::U16 => (0, u16::MAX as u128),
        Atom::U32 => (0, u32::MAX as u128),
        Atom::U64 | Atom::Usize => (0, u64::MAX as u128),
        Atom::U128 => (0, u128::MAX),
        _ => (0, 0),
    }
}

fn bits(a: Atom) -> u64 {
    match a {
        Atom::I8 | Atom::U8 => 8,
        Atom::I16 | Atom::U16 => 16,
        Atom::I32 | Atom::U32 => 32,
        Atom::I128 | Atom::U128 => 128,
        _ => 64,
    }
}

fn fmt_int(neg: bool, mag: u128) -> Vec<u8> {
    let mut s = String::new();
    if neg {
        s.push('-');
    }
    s.push_str(&mag.to_string());
    s.into_bytes()
}

/// a valid decimal token of integer type `a`, biased to the boundary values
pub fn int_token(rng: &mut SplitMix64, a: Atom) -> Vec<u8> {
    let (minmag, max) = bounds(a);
    let signed = minmag > 0;
    let small = |v: u128| v.min(max);
    let (neg, mag) = match rng.below(17) {
        0 => (signed, minmag),
        1 => {
            if signed {
                (true, minmag - 1)
            } else {
                (false, 1)
            }
        }
        2 => (signed, if signed { 1 } else { 0 }),
        3 => (false, 0),
        4 => (false, 1),
        5 => (false, 9),
        6 => (false, 10),
        7 => (false, small(99)),
        8 => (false, small(100)),
        9 => (false, max - 1),
        10 => (false, max),
        11..=13 if bits(a) >= 64 => {
            // long decimal tokens: 19..20 digits for 64-bit types, 21..39 digits for 128-bit types
            let (dlo, dhi) = if bits(a) == 128 { (21, 39) } else { (19, 20) };
            let d = dlo + rng.below(dhi - dlo + 1);
            let mut m: u128 = 0;
            let mut over = false;
            for i in 0..d {
                let dig = if i == 0 { 1 + rng.below(9) } else { rng.below(10) } as u128;
                match m.checked_mul(10).and_then(|x| x.checked_add(dig)) {
                    Some(x) => m = x,
                    None => over = true,
                }
            }
            let neg = signed && rng.chance(1, 2);
            let lim = if neg { minmag } else { max };
            (neg, if over || m > lim { lim - rng.below(1000) as u128 } else { m })
        }
        _ => {
            let b = 1 + rng.below(bits(a));
            let raw = ((rng.next_u64() as u128) << 64) | rng.next_u64() as u128;
            let m = if b >= 128 { raw } else { raw & ((1u128 << b) - 1) };
            let neg = signed && rng.chance(1, 2);
            (neg, m.min(if neg { minmag } else { max }))
        }
    };
    let mut t = fmt_int(neg && mag > 0, mag);
    match rng.below(40) {
        0 if signed && mag == 0 => t = b"-0".to_vec(),
        1 => {
            // leading zeros keep the value
            let z = 1 + rng.below(3) as usize;
            let at = if t[0] == b'-' { 1 } else { 0 };
            for _ in 0..z {
                t.insert(at, b'0');
            }
        }
        _ => {}
    }
    debug_assert!(int_value(a, &t).is_some());
    t
}

/// A non-whitespace ASCII byte outside the printable range: NUL (the value `peek` yields at end of input - a token
/// byte like any other), the other C0 controls that are not `is_ascii_whitespace` (VT 0x0b among them), DEL.
/// (seeded C09_m10: the token loops treated a NUL byte as the end of the token.)
pub fn odd_byte(rng: &mut SplitMix64) -> u8 {
    const CTRL: [u8; 26] = [1, 2, 3, 4, 5, 6, 7, 8, 0x0e, 0x0f, 0x10, 0x11, 0x12, 0x13, 0x14, 0x15, 0x16, 0x17, 0x18, 0x19, 0x1a, 0x1b, 0x1c, 0x1d, 0x1e, 0x1f];
    match rng.below(8) {
        0..=3 => 0,
        4 => 0x0b,
        5 => 0x7f,
        _ => *rng.pick(&CTRL),
    }
}

/// with probability 1/5 put one or two such bytes somewhere (first, middle, last position alike)
fn sprinkle_odd(rng: &mut SplitMix64, w: &mut [u8]) {
    if !w.is_empty() && rng.chance(1, 5) {
        for _ in 0..1 + rng.below(2) {
            let at = match rng.below(4) {
                0 => 0,
                1 => w.len() - 1,
                _ => rng.below(w.len() as u64) as usize,
            };
            w[at] = odd_byte(rng);
        }
    }
}

pub fn word(rng: &mut SplitMix64, len: usize) -> Vec<u8> {
    let mut w: Vec<u8> = (0..len).map(|_| 0x21 + rng.below(0x7e - 0x21 + 1) as u8).collect();
    if len > 0 {
        match rng.below(8) {
            0 => w[0] = b'-',
            1 => w[0] = b'0' + rng.below(10) as u8,
            _ => {}
        }
    }
    sprinkle_odd(rng, &mut w);
    w
}

pub fn printable(rng: &mut SplitMix64, len: usize) -> Vec<u8> {
    let mut w: Vec<u8> = (0..len).map(|_| 0x20 + rng.below(0x7e - 0x20 + 1) as u8).collect();
    sprinkle_odd(rng, &mut w);
    w
}

pub fn rand_sep(rng: &mut SplitMix64, out: &mut Vec<u8>) {
    const ONE: [&[u8]; 10] = [b" ", b" ", b" ", b" ", b"\n", b"\n", b"\t", b"\r\n", b"\r\n", b"\x0c"];
    if rng.chance(7, 10) {
        out.extend_from_slice(*rng.pick(&ONE));
    } else {
        let k = 1 + rng.below(4);
        for _ in 0..k {
            if rng.chance(1, 12) {
                out.push(b'\r');
            } else {
                out.extend_from_slice(*rng.pick(&ONE));
            }
        }
    }
}

pub fn token_for(rng: &mut SplitMix64, a: Atom) -> Vec<u8> {
    match a {
        Atom::Str => {
            let l = if rng.chance(1, 8) { 21 + rng.below(40) } else { 1 + rng.below(12) } as usize;
            word(rng, l)
        }
        Atom::Chr => vec![if rng.chance(1, 6) { odd_byte(rng) } else { 0x21 + rng.below(0x7e - 0x21 + 1) as u8 }],
        _ => int_token(rng, a),
    }
}

pub fn rand_atom(rng: &mut SplitMix64) -> Atom {
    match rng.below(10) {
        0 | 1 => Atom::Str,
        2 => Atom::Chr,
        _ => *rng.pick(&INT_ATOMS),
    }
}

pub fn valid_ints(tok: &[u8]) -> Vec<Atom> {
    INT_ATOMS.iter().copied().filter(|a| int_value(*a, tok).is_some()).collect()
}

// ---------------------------------------------------------------------------------------------
// scripts from the oracle simulation
// ---------------------------------------------------------------------------------------------

#[derive(Clone, Copy, PartialEq, Eq, Debug)]
pub enum It {
    A(Atom),
    Eof,
    Line,
    Lines,
}

pub struct Inp {
    pub data: Vec<u8>,
    pub hints: HashMap<usize, Atom>,
}

/// flat list of reads that is valid on `inp.data` (strict = follow the hints whenever they are valid)
pub fn build_items(rng: &mut SplitMix64, inp: &Inp, strict: bool, sprinkle_eof: bool, may_stop: bool) -> Vec<It> {
    let data = &inp.data[..];
    let mut o = Oracle::new(data);
    let mut items = Vec::new();
    let mut scratch = String::new();
    let mut stopped_early = false;
    loop {
        if sprinkle_eof && rng.chance(1, 12) {
            items.push(It::Eof);
            o.eof();
        }
        let (s, e) = match o.peek_token() {
            Some(t) => t,
            None => break,
        };
        let tok = &data[s..e];
        let hint = inp.hints.get(&s).copied().filter(|h| !is_int(*h) || int_value(*h, tok).is_some());
        let a = match hint {
            Some(h) if strict => h,
            Some(h) if is_int(h) => match rng.below(100) {
                0..=74 => h,
                75..=84 => Atom::Str,
                85..=92 => Atom::Chr,
                _ => *rng.pick(&valid_ints(tok)),
            },
            Some(Atom::Str) => match rng.below(100) {
                0..=84 => Atom::Str,
                85..=94 => Atom::Chr,
                _ => {
                    let v = valid_ints(tok);
                    if v.is_empty() {
                        Atom::Str
                    } else {
                        *rng.pick(&v)
                    }
                }
            },
            Some(h) => {
                if rng.chance(9, 10) {
                    h
                } else {
                    Atom::Str
                }
            }
            None => {
                let v = valid_ints(tok);
                if !v.is_empty() && rng.chance(3, 5) {
                    *rng.pick(&v)
                } else if rng.chance(5, 8) {
                    Atom::Str
                } else {
                    Atom::Chr
                }
            }
        };
        scratch.clear();
        let ok = o.atom(a, &mut scratch);
        assert!(ok, "generator produced an invalid read");
        items.push(It::A(a));
        if may_stop && !strict && rng.chance(1, 40) {
            stopped_early = true;
            break;
        }
    }
    // what is left goes to eof / line / lines
    match rng.below(20) {
        0..=9 => items.push(It::Eof),
        10..=13 => {
            items.push(It::Line);
            items.push(It::Eof);
        }
        14..=16 => {
            items.push(It::Lines);
            items.push(It::Eof);
        }
        17 => {
            items.push(It::Eof);
            items.push(It::Line);
        }
        _ => {
            if stopped_early {
                items.push(It::Lines);
            }
        }
    }
    items
}

/// number of repetitions of the shape atoms[..k] at the front of `atoms`
fn reps(atoms: &[Atom], k: usize) -> usize {
    let mut j = 0;
    while j < atoms.len() && atoms[j] == atoms[j % k] {
        j += 1;
    }
    j / k
}

/// random grouping of the flat reads into r: / t: / v:n: ops
pub fn group(rng: &mut SplitMix64, items: &[It]) -> Vec<Op> {
    let mut ops = Vec::new();
    let mut i = 0;
    while i < items.len() {
        match items[i] {
            It::Eof => {
                ops.push(Op::Eof);
                i += 1;
            }
            It::Line => {
                ops.push(Op::Line);
                i += 1;
            }
            It::Lines => {
                ops.push(Op::Lines);
                i += 1;
            }
            It::A(first) => {
                let mut atoms: Vec<Atom> = Vec::new();
                let mut j = i;
                while j < items.len() {
                    if let It::A(a) = items[j] {
                        atoms.push(a);
                        j += 1;
                    } else {
                        break;
                    }
                }
                let m = atoms.len();
                if rng.chance(1, 50) {
                    // reads nothing
                    let k = 1 + rng.below(3) as usize;
                    ops.push(Op::V(0, atoms.iter().cycle().take(k).copied().collect()));
                }
                match rng.below(10) {
                    0..=2 => {
                        ops.push(Op::R(first));
                        i += 1;
                    }
                    3..=4 if m >= 2 => {
                        let k = 2 + rng.below((m.min(8) - 1) as u64) as usize;
                        ops.push(Op::T(atoms[..k].to_vec()));
                        i += k;
                    }
                    5..=7 => {
                        let r = atoms.iter().take_while(|a| **a == first).count();
                        let n = if rng.chance(1, 2) { r } else { 1 + rng.below(r as u64) as usize };
                        ops.push(Op::V(n, vec![first]));
                        i += n;
                    }
                    _ if m >= 2 => {
                        let kmax = m.min(8);
                        let good: Vec<usize> = (2..=kmax).filter(|&k| reps(&atoms, k) >= 2).collect();
                        let k = if !good.is_empty() && rng.chance(3, 4) {
                            *rng.pick(&good)
                        } else {
                            2 + rng.below((kmax - 1) as u64) as usize
                        };
                        let r = reps(&atoms, k).max(1);
                        let n = if rng.chance(1, 2) { r } else { 1 + rng.below(r as u64) as usize };
                        ops.push(Op::V(n, atoms[..k].to_vec()));
                        i += n * k;
                    }
                    _ => {
                        ops.push(Op::R(first));
                        i += 1;
                    }
                }
            }
        }
    }
    ops
}

// ---------------------------------------------------------------------------------------------
// entry point
// ---------------------------------------------------------------------------------------------

pub fn gen(args: &Args, emit: &mut dyn FnMut(String), st: &mut Stats) {
    let thorough = args.tier == "thorough";
    // `--buf N`: the constant extracted from the source text; `--buf auto` (or nothing): learn it from the running code
    let observed = crate::observed_buf();
    let extracted: Option<usize> = args.extra.get("buf").and_then(|s| s.parse().ok()).filter(|b| *b >= 1);
    let buf: usize = extracted.unwrap_or(if observed >= 1 { observed } else { 65536 });
    st.add("buf_observed_first_read_slice", observed as u64);
    st.add(if extracted.is_some() { "buf_from_source_text" } else { "buf_from_observation" }, 1);
    let mut rng = SplitMix64::new(args.seed ^ 0xC08);
    let lite = args.extra.get("profile").map(|p| p == "debug").unwrap_or(false);
    if lite {
        st.add("reduced_streams_for_debug_profile", 1);
    }
    let mut g = Gen { emit, cnt: BTreeMap::new(), atom_cnt: [0; 14], buf, lite, ss_next: false };
    crate::streams::stream_small(&mut g, &mut rng, thorough);
    crate::streams::stream_grammar(&mut g, &mut rng, thorough);
    crate::streams::stream_lines(&mut g, &mut rng, thorough);
    crate::big::stream_boundary(&mut g, &mut rng, thorough);
    crate::big::stream_long(&mut g, &mut rng, thorough);
    crate::streams::stream_ood(&mut g, &mut rng, thorough);
    crate::streams::stream_non_ascii(&mut g, &mut rng, thorough);
    crate::mgen::stream_multi(&mut g, &mut rng, thorough);
    // wave 4: own generator state, so that the streams above stay exactly what they were
    let mut rng4 = SplitMix64::new(args.seed ^ 0xC08_4444);
    crate::wave4::stream_degenerate(&mut g, &mut rng4, thorough);
    crate::wave4::stream_long_runs(&mut g, &mut rng4, thorough);
    for (k, v) in &g.cnt {
        st.add(k, *v);
    }
    for (i, (name, _)) in crate::ATOMS.iter().enumerate() {
        st.add(&format!("atom_{}", name), g.atom_cnt[i]);
    }
    st.add("buf", buf as u64);
}

impl<'a> Gen<'a> {
    pub fn buf(&self) -> usize {
        self.buf
    }
    /// stream size: (quick, thorough) of the release run, (quick, thorough) of the reduced debug-profile run
    pub fn size(&self, thorough: bool, full: (usize, usize), lite: (usize, usize)) -> usize {
        let (q, t) = if self.lite { lite } else { full };
        if thorough {
            t
        } else {
            q
        }
    }
    pub fn lite(&self) -> bool {
        self.lite
    }
    /// like `emit`, with the header flag `ss`: the harness answers the case in a child process on a small stack
    pub fn emit_ss(&mut self, stream: &'static str, p: &Prep, sched: &[(Item, u64)], kind: &'static str) {
        self.ss_next = true;
        self.emit(stream, p, sched, kind);
    }
    pub fn emit_count_pair(&mut self, k: &'static str) {
        self.bump(k);
    }
    /// which unusual bytes a (constrained) case contains
    pub fn note_bytes(&mut self, data: &[u8]) {
        if data.contains(&0) {
            self.bump("cases_with_nul_byte");
            if data.last() == Some(&0) {
                self.bump("cases_input_ends_in_nul");
            }
        }
        if data.iter().any(|&b| (b != 0 && b < 0x20 && !crate::is_ws(b)) || b == 0x7f) {
            self.bump("cases_with_control_or_del_byte");
        }
        if data.contains(&0x0b) {
            self.bump("cases_with_vt_byte");
        }
    }
    /// a ready-made case line (multi-reader stream): counted under `lines_total` and every key of `keys`
    pub fn emit_line(&mut self, line: String, keys: &[&'static str]) {
        (self.emit)(line);
        self.bump("lines_total");
        for k in keys {
            self.bump(k);
        }
    }
    pub fn add(&mut self, k: &'static str, n: u64) {
        *self.cnt.entry(k).or_insert(0) += n;
    }
    pub fn count_atoms(&mut self, ops: &[Op]) {
        let p = prep(&[], ops);
        for (k, v) in &p.opc {
            if *k != "script_empty" {
                *self.cnt.entry(*k).or_insert(0) += *v;
            }
        }
        for i in 0..14 {
            self.atom_cnt[i] += p.atoms[i];
        }
    }
}
