//! Correspondence harness for engine `f80` (property C18): drives rlib_f80::f80 (x87 inline asm).
//!
//! Case lines (operands: 16 hex digits = an f64 bit pattern converted with `f80::from(f64)`,
//! 20 hex digits = the ten raw bytes sign/exponent(4 digits) significand(16 digits)):
//!   ar  X Y              + - * / (and the four `op=` forms)
//!   cmp X Y              < > <= >= == != partial_cmp min max
//!   un  X                the value itself, neg, abs, f64::from
//!   ch  X op Y op Z ...  left-to-right chain, every intermediate is printed
//!   const                ZERO, ONE, Default
//!   fm  X                Display / Debug / Show / to_string with several format specifications, compared with what std prints
//!                        for the f64 value (formatting goes through f64)
//!   pg  MODE X0 X1 X2 X3 ; op ; ...   register programs, see prog.rs
//! Results: f80 values as 20 hex digits, f64 values as 16 hex digits, any NaN as `nan`.
#[path = "../../common/mod.rs"]
mod common;
use common::*;
use rlib_f80::{f80, f80_init};
use rlib_num_traits::ZeroOne;
use rlib_show::{Show, ShowSettings};
use std::cmp::Ordering;
mod gen3;
mod prog;

// ------------------------------------------------------------------------------------------------
// raw access to the ten bytes (the field is private; reading/writing the bytes is the observation)
// ------------------------------------------------------------------------------------------------

#[repr(C, align(16))]
struct Raw16([u8; 16]);

fn bits_of(x: f80) -> (u16, u64) {
    assert!(std::mem::size_of::<f80>() == 16);
    let r: Raw16 = unsafe { std::mem::transmute_copy(&x) };
    let mut m = [0u8; 8];
    m.copy_from_slice(&r.0[0..8]);
    (u16::from_le_bytes([r.0[8], r.0[9]]), u64::from_le_bytes(m))
}

fn from_bits80(se: u16, sig: u64) -> f80 {
    let mut r = Raw16([0u8; 16]);
    r.0[0..8].copy_from_slice(&sig.to_le_bytes());
    r.0[8..10].copy_from_slice(&se.to_le_bytes());
    unsafe { std::mem::transmute_copy(&r) }
}

/// NaN class of the x87: NaNs proper and every unsupported encoding (pseudo-NaN, pseudo-infinity, unnormal).
fn is_nan80(se: u16, sig: u64) -> bool {
    let e = se & 0x7fff;
    let int = sig >> 63 == 1;
    if e == 0x7fff {
        !(int && sig << 1 == 0)
    } else if e == 0 {
        false
    } else {
        !int
    }
}

fn show80(x: f80) -> String {
    let (se, sig) = bits_of(x);
    if is_nan80(se, sig) {
        "nan".into()
    } else {
        format!("{:04x}{:016x}", se, sig)
    }
}

/// value-level rendering: both zeros are `zero`, (pseudo-)denormals are shown with exponent field 1
fn canon80(x: f80) -> String {
    let (se, sig) = bits_of(x);
    if is_nan80(se, sig) {
        return "nan".into();
    }
    let e = se & 0x7fff;
    if e == 0 && sig == 0 {
        return "zero".into();
    }
    let e2 = if e == 0 { 1 } else { e };
    format!("{:04x}{:016x}", (se & 0x8000) | e2, sig)
}

fn show64(x: f64) -> String {
    if x.is_nan() {
        "nan".into()
    } else {
        format!("{:016x}", x.to_bits())
    }
}

/// `fnstcw`: precision control (bits 8-9), rounding control (bits 10-11), exception masks (bits 0-5)
fn control_word() -> u16 {
    let mut cw: u16 = 0;
    unsafe {
        core::arch::asm!("fnstcw WORD PTR [{0}]", in(reg) &mut cw as *mut u16, options(nostack));
    }
    cw
}

struct Opd {
    v: f80,
    nan: bool,
}

fn operand(tok: &str) -> Option<Opd> {
    if tok.len() == 16 {
        let b = u64::from_str_radix(tok, 16).ok()?;
        let f = f64::from_bits(b);
        Some(Opd { v: f80::from(f), nan: f.is_nan() })
    } else if tok.len() == 20 {
        let se = u16::from_str_radix(&tok[0..4], 16).ok()?;
        let sig = u64::from_str_radix(&tok[4..20], 16).ok()?;
        Some(Opd { v: from_bits80(se, sig), nan: is_nan80(se, sig) })
    } else {
        None
    }
}

fn b(x: bool) -> char {
    if x {
        '1'
    } else {
        '0'
    }
}


/// text with blanks made visible (a protocol token may not contain blanks or `|`)
fn vis(s: &str) -> String {
    s.replace(' ', "_").replace('|', "!")
}

/// `fm X`: every formatting entry point of f80 against std's formatting of the f64 value (an oracle independent of the
/// crate: the conversion itself is compared with the model through `f64=`).
fn run_fm(x: f80) -> String {
    let f = f64::from(x);
    let mut bad: [Vec<String>; 3] = [Vec::new(), Vec::new(), Vec::new()];
    macro_rules! disp {
        ($spec:literal) => {
            let (got, want) = (format!($spec, x), format!($spec, f));
            if got != want {
                bad[0].push(format!("{}:{}:{}", vis($spec), vis(&got), vis(&want)));
            }
        };
    }
    disp!("{}");
    disp!("{:.0}");
    disp!("{:.3}");
    disp!("{:.20}");
    disp!("{:+}");
    disp!("{:12.4}");
    disp!("{:<14.1}|");
    disp!("{:^+13.2}|");
    disp!("{:+012.5}");
    disp!("{:*>9}");
    {
        let (got, want) = (x.to_string(), f.to_string());
        if got != want {
            bad[0].push(format!("to_string:{}:{}", vis(&got), vis(&want)));
        }
    }
    // Debug: the crate forwards to a `fmt` of f64; both of f64's texts (`1.0` and `1`) count as "f64's text"
    macro_rules! dbg_ {
        ($spec:literal, $alt:literal) => {
            let got = format!($spec, x);
            if got != format!($spec, f) && got != format!($alt, f) {
                bad[1].push(format!("{}:{}:{}", vis($spec), vis(&got), vis(&format!($spec, f))));
            }
        };
    }
    dbg_!("{:?}", "{}");
    dbg_!("{:.2?}", "{:.2}");
    dbg_!("{:10?}|", "{:10}|");
    dbg_!("{:+?}", "{:+}");
    for p in [9usize, 0, 3, 17] {
        let mut st = ShowSettings::new();
        st.float_precision = p;
        let (got, want) = (x.show(&st), format!("{:.*}", p, f));
        if got != want {
            bad[2].push(format!("prec{}:{}:{}", p, vis(&got), vis(&want)));
        }
    }
    let tok = |k: usize| if bad[k].is_empty() { "same".to_string() } else { format!("differ[{}]", bad[k].join(",")) };
    out1(&format!("f64={} disp={} dbg={} show={}", show64(f), tok(0), tok(1), tok(2)))
}

fn run_case(line: &str) -> String {
    let t: Vec<&str> = line.split_whitespace().collect();
    let bad = || "I bad-case | V bad-case".to_string();
    if t.is_empty() {
        return bad();
    }
    match t[0] {
        "pg" => prog::run_pg(line).unwrap_or_else(bad),
        "fm" if t.len() == 2 => match operand(t[1]) {
            Some(x) => run_fm(x.v),
            None => bad(),
        },
        "ar" if t.len() == 3 => {
            let (x, y) = match (operand(t[1]), operand(t[2])) {
                (Some(x), Some(y)) => (x.v, y.v),
                _ => return bad(),
            };
            let (s, d, p, q) = (x + y, x - y, x * y, x / y);
            let mut s2 = x;
            s2 += y;
            let mut d2 = x;
            d2 -= y;
            let mut p2 = x;
            p2 *= y;
            let mut q2 = x;
            q2 /= y;
            let asg = bits_of(s) == bits_of(s2) && bits_of(d) == bits_of(d2) && bits_of(p) == bits_of(p2) && bits_of(q) == bits_of(q2);
            out1(&format!(
                "add={} sub={} mul={} div={} asg={}",
                show80(s),
                show80(d),
                show80(p),
                show80(q),
                if asg { "same" } else { "differ" }
            ))
        }
        "cmp" if t.len() == 3 => {
            let (x, y) = match (operand(t[1]), operand(t[2])) {
                (Some(x), Some(y)) => (x, y),
                _ => return bad(),
            };
            let anynan = x.nan || y.nan;
            let (x, y) = (x.v, y.v);
            let pc = match x.partial_cmp(&y) {
                None => "none",
                Some(Ordering::Less) => "less",
                Some(Ordering::Equal) => "equal",
                Some(Ordering::Greater) => "greater",
            };
            let rel = format!(
                "lt={} gt={} le={} ge={} eq={} ne={} pc={}",
                b(x < y),
                b(x > y),
                b(x <= y),
                b(x >= y),
                b(x == y),
                b(x != y),
                pc
            );
            let (mn, mx) = (x.min(y), x.max(y));
            let raw = format!("{} min={} max={}", rel, show80(mn), show80(mx));
            let view = if anynan {
                format!("{} min=* max=*", rel)
            } else {
                format!("{} min={} max={}", rel, canon80(mn), canon80(mx))
            };
            out2(&raw, &view)
        }
        "un" if t.len() == 2 => {
            let x = match operand(t[1]) {
                Some(x) => x.v,
                None => return bad(),
            };
            let (n, a, f) = (-x, x.abs(), f64::from(x));
            let raw = format!("val={} neg={} abs={} f64={}", show80(x), show80(n), show80(a), show64(f));
            let view = format!("val={} neg={} abs={} f64={}", show80(x), show80(n), canon80(a), show64(f));
            out2(&raw, &view)
        }
        "ch" if t.len() >= 4 && t.len() % 2 == 0 => {
            let mut acc = match operand(t[1]) {
                Some(x) => x.v,
                None => return bad(),
            };
            let mut outs = Vec::new();
            let mut i = 2;
            while i + 1 < t.len() {
                let y = match operand(t[i + 1]) {
                    Some(y) => y.v,
                    None => return bad(),
                };
                acc = match t[i] {
                    "+" => acc + y,
                    "-" => acc - y,
                    "*" => acc * y,
                    "/" => acc / y,
                    _ => return bad(),
                };
                outs.push(show80(acc));
                i += 2;
            }
            out1(&outs.join(" "))
        }
        "const" => {
            let v = format!("zero={} one={} default={}", show80(f80::ZERO), show80(f80::ONE), show80(f80::default()));
            // raw-only diagnostic: the x87 control word as it is now (after `f80_init()` unless --noinit)
            out2(&format!("{} cw={:04x}", v, control_word()), &v)
        }
        _ => bad(),
    }
}

// ------------------------------------------------------------------------------------------------
// generators
// ------------------------------------------------------------------------------------------------

fn f64_of(sign: u64, e: i64, frac: u64) -> u64 {
    // e = biased exponent field
    (sign << 63) | ((e as u64) << 52) | (frac & ((1u64 << 52) - 1))
}

/// The boundary set B of f64 bit patterns.
fn boundary_set() -> Vec<u64> {
    let mut v: Vec<u64> = Vec::new();
    let fmax = (1u64 << 52) - 1;
    // zeros, infinities, NaNs
    v.extend([0u64, 1 << 63, 0x7ff0_0000_0000_0000, 0xfff0_0000_0000_0000]);
    v.extend([0x7ff8_0000_0000_0000u64, 0xfff8_0000_0000_0000, 0x7ff0_0000_0000_0001, 0x7fff_ffff_ffff_ffff, 0xfff4_0000_0000_0000]);
    // subnormals
    for f in [1u64, 2, 3, 0x8, 0xff, 0x1_0000, 0x8_0000_0000_0000, 0x8_0000_0000_0001, 0x7_ffff_ffff_ffff, 0x5_5555_5555_5555,
              0xa_aaaa_aaaa_aaaa, fmax - 1, fmax] {
        v.push(f64_of(0, 0, f));
        if f < 4 || f >= fmax - 1 {
            v.push(f64_of(1, 0, f));
        }
    }
    // powers of two and their neighbours
    let ks: [i64; 40] = [
        -1022, -1021, -1020, -1000, -970, -969, -600, -538, -512, -511, -100, -65, -64, -63, -54, -53, -52, -33, -2, -1, 0, 1, 2, 3, 10,
        31, 32, 52, 53, 54, 62, 63, 64, 65, 100, 511, 512, 970, 1022, 1023,
    ];
    for &k in ks.iter() {
        let e = k + 1023;
        v.push(f64_of(0, e, 0));
        v.push(f64_of(0, e, 1));
        v.push(f64_of(0, e, fmax));
        if k > -1022 {
            v.push(f64_of(0, e - 1, fmax)); // 2^k - ulp
        }
        if k % 2 == 0 || k.abs() > 900 {
            v.push(f64_of(1, e, 0));
            v.push(f64_of(1, e, fmax));
        }
    }
    // long carry chains and alternating patterns at several exponents
    let fr: [u64; 12] = [
        fmax - 1,
        0x8_0000_0000_0000,
        0x8_0000_0000_0001,
        0x7_ffff_ffff_ffff,
        0x5_5555_5555_5555,
        0xa_aaaa_aaaa_aaaa,
        0xf_ffff_ffff_f000,
        0x0_0000_0000_0fff,
        0xf_ffff_0000_0000,
        0x0_0000_ffff_ffff,
        0x3_3333_3333_3333,
        0x9_21fb_5444_2d18,
    ];
    for &e in [1i64, 2, 500, 1022, 1023, 1024, 1025, 1076, 1087, 1500, 2045, 2046].iter() {
        for (i, &f) in fr.iter().enumerate() {
            if (i as i64 + e) % 2 == 0 || e == 1023 {
                v.push(f64_of(((i as u64) + (e as u64) / 3) & 1, e, f));
            }
        }
    }
    // small integers, simple fractions, decimal constants
    for x in [1.0f64, 2.0, 3.0, 5.0, 6.0, 7.0, 9.0, 10.0, 11.0, 15.0, 17.0, 100.0, 1000.0, 1e10, 1e15, 1e16, 1e22, 1e23, 1e100, 1e300,
              0.5, 0.25, 0.75, 1.5, 1.0 / 3.0, 2.0 / 3.0, 0.1, 0.2, 0.3, 0.7, 1e-5, 1e-10, 1e-100, 1e-300, 1e-310, 4.9e-324,
              std::f64::consts::PI, std::f64::consts::E, std::f64::consts::SQRT_2, 9007199254740991.0, 9007199254740992.0,
              9007199254740994.0, 18446744073709551615.0, 4294967295.0, 4294967297.0, 1.0000000000000002, 0.9999999999999999] {
        v.push(x.to_bits());
        v.push((-x).to_bits());
    }
    v.push(f64::MAX.to_bits());
    v.push((-f64::MAX).to_bits());
    v.push(f64::MIN_POSITIVE.to_bits());
    v.push((-f64::MIN_POSITIVE).to_bits());
    v.push(f64::MAX.to_bits() - 1);
    v.sort();
    v.dedup();
    v
}

fn rand_f64(rng: &mut SplitMix64, bset: &[u64]) -> u64 {
    match rng.below(10) {
        0 => *rng.pick(bset),
        1 => {
            // neighbour of a boundary value
            let x = *rng.pick(bset);
            let d = rng.below(5) as i64 - 2;
            (x as i64).wrapping_add(d) as u64
        }
        2 => {
            // few significant bits
            let e = rng.below(2047);
            let bits = rng.below(8) + 1;
            let f = rng.below(1 << bits) << (52 - bits);
            f64_of(rng.below(2), e as i64, f)
        }
        3 => {
            // low bits only / carry chain
            let e = rng.below(2047);
            let k = rng.below(52);
            let f = if rng.chance(1, 2) { (1u64 << k) - 1 } else { ((1u64 << 52) - 1) ^ ((1u64 << k) - 1) };
            f64_of(rng.below(2), e as i64, f)
        }
        4 => {
            // around 1.0 (exponent differences below 70)
            let e = 1023 + rng.below(140) as i64 - 70;
            f64_of(rng.below(2), e, rng.next_u64())
        }
        5 => {
            // subnormal
            let k = rng.below(52) + 1;
            f64_of(rng.below(2), 0, rng.next_u64() >> (64 - k))
        }
        _ => rng.next_u64(),
    }
}

fn tok64(x: u64) -> String {
    format!("{:016x}", x)
}
fn tok80(se: u16, sig: u64) -> String {
    format!("{:04x}{:016x}", se, sig)
}

/// random 80-bit pattern; `exotic` allows pseudo-denormals and unsupported encodings
fn rand80(rng: &mut SplitMix64, exotic: bool) -> (u16, u64) {
    let sign = (rng.below(2) as u16) << 15;
    let e: u16 = match rng.below(8) {
        0 => 0,
        1 => 1 + rng.below(70) as u16,
        2 => 0x7ffe - rng.below(70) as u16,
        3 | 4 => (16383 + rng.below(140) as i64 - 70) as u16,
        5 => (16383 + rng.below(2200) as i64 - 1100) as u16,
        _ => 1 + rng.below(0x7ffe) as u16,
    };
    let mut sig: u64 = match rng.below(8) {
        0 => 0,
        1 => rng.below(8),
        2 => !0u64 >> 1,
        3 => (!0u64 >> 1) ^ rng.below(8),
        4 => {
            let k = rng.below(63);
            rng.next_u64() & !((1u64 << k) - 1)
        }
        5 => {
            let k = rng.below(63) + 1;
            rng.next_u64() >> (64 - k)
        }
        6 => 1u64 << rng.below(63),
        _ => rng.next_u64(),
    } & (!0u64 >> 1);
    if e != 0 {
        sig |= 1 << 63;
    } else if sig == 0 && rng.chance(3, 4) {
        sig = rng.next_u64() >> (1 + rng.below(63));
    }
    if exotic {
        match rng.below(6) {
            0 => return (sign | 0x7fff, rng.next_u64()),                       // NaN, pseudo-NaN, pseudo-infinity
            1 => return (sign | 0x7fff, 1 << 63),                             // infinity
            2 => return (sign | e.max(1), sig & (!0u64 >> 1)),                // unnormal
            3 => return (sign, sig | (1 << 63)),                              // pseudo-denormal
            4 => return (sign | 0x7fff, (1 << 63) | rng.below(4)),            // infinity / signalling NaN
            _ => {}
        }
    }
    (sign | e, sig)
}

fn related80(rng: &mut SplitMix64, a: (u16, u64)) -> (u16, u64) {
    let (se, sig) = a;
    let e = se & 0x7fff;
    match rng.below(4) {
        0 => {
            // same magnitude region, opposite or equal sign: cancellation
            let d = rng.below(5) as i64 - 2;
            let sig2 = if e == 0 { sig.wrapping_add(d as u64) & (!0u64 >> 1) } else { sig.wrapping_add(d as u64) | (1 << 63) };
            (se ^ ((rng.below(2) as u16) << 15), sig2)
        }
        1 => {
            // exponent within 66 of a's: sticky / guard bit cases of add
            let de = rng.below(133) as i64 - 66;
            let e2 = (e as i64 + de).clamp(1, 0x7ffe) as u16;
            (((rng.below(2) as u16) << 15) | e2, rng.next_u64() | (1 << 63))
        }
        2 => {
            // product / quotient lands near the overflow or underflow threshold
            let target: i64 = *rng.pick(&[1i64, 0, -30, -63, -64, -65, 0x7ffe, 0x7fff, 0x8000]);
            let e2 = if rng.chance(1, 2) { target - e as i64 + 16383 } else { e as i64 + 16383 - target };
            let e2 = e2.clamp(1, 0x7ffe) as u16;
            (((rng.below(2) as u16) << 15) | e2, rng.next_u64() | (1 << 63))
        }
        _ => rand80(rng, false),
    }
}

fn gen(args: &Args, emit: &mut dyn FnMut(String), stats: &mut Stats) {
    let mut rng = SplitMix64::new(args.seed ^ 0xf80f80);
    let thorough = args.tier == "thorough";
    let bset = boundary_set();
    stats.add("boundary_set_size", bset.len() as u64);
    emit("const".into());
    stats.bump("const");

    // `--stream preinit`: a small stream that `checks/C18.py` runs in a separate process *without* `f80_init()`
    if args.extra.get("stream").map(|s| s.as_str()) == Some("preinit") {
        let partners: Vec<u64> = [1.0f64, 3.0, 0.1, -7.0, 1e-310, 1e300, f64::MAX, 4.9e-324].iter().map(|x| x.to_bits()).collect();
        for &x in bset.iter() {
            for &y in partners.iter() {
                emit(format!("ar {} {}", tok64(x), tok64(y)));
                stats.bump("preinit_ar");
            }
            emit(format!("un {}", tok64(x)));
            emit(format!("ch {} / {} * {}", tok64(x), tok64(3.0f64.to_bits()), tok64(3.0f64.to_bits())));
            stats.add("preinit_un_ch", 2);
        }
        for _ in 0..3000 {
            let a = rand80(&mut rng, false);
            let bb = related80(&mut rng, a);
            emit(format!("ar {} {}", tok80(a.0, a.1), tok80(bb.0, bb.1)));
            emit(format!("un {}", tok80(a.0, a.1)));
            stats.add("preinit_random80", 2);
        }
        // register programs on the main thread and on freshly spawned threads of a process that never called f80_init()
        gen3::programs(&mut rng, &bset, 300, 2, 60, 4, emit, stats);
        return;
    }

    // `--stream debug`: the reduced stream of the debug build profile (unoptimised code around the asm blocks): the specials
    // paired with all of B, the unary cases, a sample of 80-bit operands and the wave-3 streams in small sizes
    if args.extra.get("stream").map(|s| s.as_str()) == Some("debug") {
        let specials: Vec<u64> = vec![0, 1 << 63, 0x7ff0_0000_0000_0000, 0xfff0_0000_0000_0000, 0x7ff8_0000_0000_0000, 0xfff8_0000_0000_0000,
                                      1, 0x3ff0_0000_0000_0000, 0xc008_0000_0000_0000, 0x7fef_ffff_ffff_ffff];
        for &x in bset.iter() {
            for &y in specials.iter() {
                emit(format!("ar {} {}", tok64(x), tok64(y)));
                emit(format!("cmp {} {}", tok64(x), tok64(y)));
                emit(format!("cmp {} {}", tok64(y), tok64(x)));
                stats.add("debug_special_pairs", 3);
            }
            emit(format!("un {}", tok64(x)));
            emit(format!("ch {} / {} * {}", tok64(x), tok64(3.0f64.to_bits()), tok64(3.0f64.to_bits())));
            stats.add("debug_un_ch", 2);
        }
        for _ in 0..(if thorough { 30_000 } else { 2500 }) {
            let a = rand80(&mut rng, false);
            let bb = related80(&mut rng, a);
            emit(format!("ar {} {}", tok80(a.0, a.1), tok80(bb.0, bb.1)));
            emit(format!("cmp {} {}", tok80(a.0, a.1), tok80(bb.0, bb.1)));
            emit(format!("un {}", tok80(a.0, a.1)));
            stats.add("debug_random80", 3);
        }
        gen3::wave3(&mut rng, if thorough { "debug-thorough" } else { "debug" }, emit, stats);
        return;
    }

    // --- B x B ----------------------------------------------------------------------------------
    // thorough: every ordered pair of B.  quick: every element of B is paired (both orders) with every "special"
    // (zeros, infinities, NaNs) and with the elements whose index sum falls in one residue class mod 8, so no part
    // of B is left unpaired whatever the seed is.
    let special = |x: u64| f64::from_bits(x).is_nan() || (x << 1) == 0 || f64::from_bits(x).is_infinite();
    let off = (args.seed % 8) as usize;
    let mut npairs = 0u64;
    for (i, &x) in bset.iter().enumerate() {
        for (j, &y) in bset.iter().enumerate() {
            if thorough || special(x) || special(y) || (i + j) % 8 == off {
                emit(format!("ar {} {}", tok64(x), tok64(y)));
                emit(format!("cmp {} {}", tok64(x), tok64(y)));
                npairs += 1;
            }
        }
    }
    stats.add("ar_boundary_pairs", npairs);
    stats.add("cmp_boundary_pairs", npairs);
    for &x in bset.iter() {
        emit(format!("un {}", tok64(x)));
        stats.bump("un_boundary");
    }

    // --- chains ---------------------------------------------------------------------------------
    let three = tok64(3.0f64.to_bits());
    let smalls: Vec<u64> = [3.0f64, 5.0, 7.0, 10.0, 0.1, 1e-5, 1.0 / 3.0].iter().map(|x| x.to_bits()).collect();
    for &x in bset.iter() {
        emit(format!("ch {} / {} * {}", tok64(x), three, three));
        stats.bump("ch_div3mul3");
    }
    let nch = if thorough { 400_000 } else { 16_000 };
    for _ in 0..nch {
        let a = rand_f64(&mut rng, &bset);
        let bb = rand_f64(&mut rng, &bset);
        let c = rand_f64(&mut rng, &bset);
        match rng.below(4) {
            0 => {
                emit(format!("ch {} * {} + {}", tok64(a), tok64(bb), tok64(c)));
                stats.bump("ch_muladd");
            }
            1 => {
                let d = *rng.pick(&smalls);
                emit(format!("ch {} / {} * {}", tok64(a), tok64(d), tok64(d)));
                stats.bump("ch_divmul");
            }
            2 => {
                // (a*b) - (a*b rounded to f64 neighbourhood): cancellation of a 64-bit product
                let p = f64::from_bits(a) * f64::from_bits(bb);
                emit(format!("ch {} * {} - {}", tok64(a), tok64(bb), tok64(p.to_bits())));
                stats.bump("ch_mulsub_cancel");
            }
            _ => {
                let n = 3 + rng.below(6);
                let mut s = format!("ch {}", tok64(a));
                for _ in 0..n {
                    let op = *rng.pick(&["+", "-", "*", "/"]);
                    let y = if rng.chance(1, 3) { *rng.pick(&smalls) } else { rand_f64(&mut rng, &bset) };
                    s.push_str(&format!(" {} {}", op, tok64(y)));
                }
                emit(s);
                stats.bump("ch_random");
            }
        }
    }

    // --- random f64 patterns ----------------------------------------------------------------------
    let nr = if thorough { 1_200_000 } else { 28_000 };
    for _ in 0..nr {
        let x = rand_f64(&mut rng, &bset);
        let y = match rng.below(6) {
            0 => (x as i64).wrapping_add(rng.below(7) as i64 - 3) as u64 ^ (rng.below(2) << 63),
            _ => rand_f64(&mut rng, &bset),
        };
        emit(format!("ar {} {}", tok64(x), tok64(y)));
        stats.bump("ar_random64");
        if rng.chance(1, 3) {
            emit(format!("cmp {} {}", tok64(x), tok64(y)));
            stats.bump("cmp_random64");
        }
        if rng.chance(1, 4) {
            emit(format!("un {}", tok64(x)));
            stats.bump("un_random64");
        }
    }

    // --- 80-bit operands (what chain intermediates look like), all 64 significand bits in use --------
    let n80 = if thorough { 1_000_000 } else { 28_000 };
    for _ in 0..n80 {
        let a = rand80(&mut rng, false);
        let bb = related80(&mut rng, a);
        emit(format!("ar {} {}", tok80(a.0, a.1), tok80(bb.0, bb.1)));
        stats.bump("ar_random80");
        if rng.chance(1, 3) {
            emit(format!("cmp {} {}", tok80(a.0, a.1), tok80(bb.0, bb.1)));
            stats.bump("cmp_random80");
        }
        if rng.chance(1, 3) {
            emit(format!("un {}", tok80(a.0, a.1)));
            stats.bump("un_random80");
        }
        if rng.chance(1, 8) {
            let y = rand_f64(&mut rng, &bset);
            emit(format!("ar {} {}", tok80(a.0, a.1), tok64(y)));
            stats.bump("ar_mixed");
        }
    }
    // --- every bit pattern class, including encodings no operation produces (small separate stream) ---
    let nx = if thorough { 200_000 } else { 10_000 };
    for _ in 0..nx {
        let a = rand80(&mut rng, true);
        let bb = if rng.chance(1, 2) { rand80(&mut rng, true) } else { related80(&mut rng, a) };
        emit(format!("cmp {} {}", tok80(a.0, a.1), tok80(bb.0, bb.1)));
        stats.bump("cmp_exotic80");
        if rng.chance(1, 4) {
            emit(format!("un {}", tok80(a.0, a.1)));
            stats.bump("un_exotic80");
        }
        if rng.chance(1, 4) {
            emit(format!("ar {} {}", tok80(a.0, a.1), tok80(bb.0, bb.1)));
            stats.bump("ar_exotic80");
        }
    }
    // --- wave 3: ties, register programs (several live objects, results fed back, threads), formatting ---
    gen3::wave3(&mut rng, if thorough { "thorough" } else { "quick" }, emit, stats);
}

fn main() {
    // The crate's documentation: "Make sure to call f80_init() in the beginning of fn main()".  Everything compared by the
    // main run is therefore arithmetic *after* the documented initialisation; `--noinit 1` (used by the separate
    // pre-initialisation stream) skips the call.
    let noinit = std::env::args().collect::<Vec<_>>().windows(2).any(|w| w[0] == "--noinit" && w[1] == "1");
    if !noinit {
        f80_init();
    }
    cli(gen, run_case);
}
