//! Wave-3 generators: exact ties and near-ties (class F), register programs (classes A B C E: provided trait methods,
//! several live objects, results fed back, long histories that leave the f64 range and reach the f80 range limits,
//! the same object on both sides, threads), formatting cases.
use super::{boundary_set, rand80, rand_f64, related80, tok64, tok80};
use crate::common::{SplitMix64, Stats};

const INT: u64 = 1 << 63;

/// exact ties / one unit beside a tie for + - * and f80 -> f64, at ordinary exponents, at the f64 and the f80 underflow
/// thresholds and at both overflow thresholds
pub fn ties(rng: &mut SplitMix64, n: usize, emit: &mut dyn FnMut(String), stats: &mut Stats) {
    for i in 0..n {
        match i % 8 {
            0 | 1 => {
                // a + b with b = half an ulp of a (exactly, or one unit of b's last place beside it), both signs
                let e: u16 = match rng.below(4) {
                    0 => 0x7ffe,
                    1 => 65 + rng.below(3) as u16,
                    _ => 66 + rng.below(0x7ffe - 66) as u16,
                };
                let sig = INT | (rng.next_u64() >> rng.below(63)) | rng.below(2);
                let sig = if rng.chance(1, 8) { !0u64 - rng.below(2) } else { sig };
                let sa = (rng.below(2) as u16) << 15;
                let sb = (rng.below(2) as u16) << 15;
                let (eb, sigb) = match rng.below(5) {
                    0 | 1 => (e - 64, INT),
                    2 => (e - 64, INT + 1),
                    3 => (e - 65, !0u64),
                    _ => (e - 65, INT),
                };
                emit(format!("ar {} {}", tok80(sa | e, sig), tok80(sb | eb, sigb)));
                stats.bump("tie_add");
            }
            2 | 3 => {
                // (2^63 + x 2^k)(2^63 + y 2^(62-k)), x y odd: the product's discarded part is exactly half an ulp
                let k = rng.below(63);
                let m = 62 - k;
                let x = (rng.next_u64() >> (1 + k + rng.below(63 - k))) | 1;
                let y = (rng.next_u64() >> (1 + m + rng.below(63 - m))) | 1;
                let a = INT | (x << k);
                let mut b = INT | (y << m);
                if rng.chance(1, 4) {
                    b ^= 1 << rng.below(3); // just beside the tie
                }
                let ea = 1 + rng.below(0x7ffd) as i64;
                let eb = match rng.below(4) {
                    0 => 16383 - ea + 16383,          // product near 1
                    1 => 16383 - ea + 1 + rng.below(3) as i64, // product at the underflow threshold
                    2 => 16383 - ea + 0x7ffe - rng.below(2) as i64, // product at the overflow threshold
                    _ => 1 + rng.below(0x7ffd) as i64,
                }
                .clamp(1, 0x7ffe);
                let s = (rng.below(2) as u16) << 15;
                emit(format!("ar {} {}", tok80(s | ea as u16, a), tok80(eb as u16, b)));
                stats.bump("tie_mul");
            }
            4 | 5 => {
                // f80 -> f64: the 11 discarded bits are 100..0 (tie), 011..1, 100..1; also where the f64 result is subnormal
                // (more bits discarded) and at the f64 overflow threshold
                let low: u64 = *rng.pick(&[0x400u64, 0x3ff, 0x401, 0xc00, 0xbff, 0x7ff, 0x800]);
                let (e, sig): (u16, u64) = match rng.below(4) {
                    0 => {
                        // result subnormal: 2^-1074 * (j + 1/2): discarded bits grow with the distance below 2^-1022
                        let sh = 1 + rng.below(52);
                        let e = (16383 - 1022 - sh) as u16;
                        let keep = 53 - sh; // significant bits that survive
                        let top = INT | ((rng.next_u64() >> 1) & !((1u64 << (64 - keep)) - 1));
                        let half = 1u64 << (63 - keep);
                        (e, match rng.below(3) { 0 => top | half, 1 => top | (half - 1), _ => top | half | 1 })
                    }
                    1 => (16383 + 1023, (!0u64 << 11) | low),
                    2 => ((16383 - 1075 + rng.below(3)) as u16, INT | rng.below(2)),
                    _ => ((16383 + rng.below(2000) as i64 - 1000) as u16, (INT | (rng.next_u64() & !0x7ff)) | low),
                };
                let s = (rng.below(2) as u16) << 15;
                emit(format!("un {}", tok80(s | e, sig)));
                emit(format!("fm {}", tok80(s | e, sig)));
                stats.add("tie_to_f64", 2);
            }
            6 => {
                // gradual underflow of the f80 format: a denormal (or the smallest normals) times 2^-k, low k bits 10..0
                let k = 1 + rng.below(8);
                let mut sig = rng.next_u64() >> (1 + rng.below(60));
                if rng.chance(2, 3) {
                    sig = (sig & !((1u64 << k) - 1)) | (1u64 << (k - 1));
                }
                if rng.chance(1, 4) {
                    sig ^= 1;
                }
                let (e, sig) = if rng.chance(1, 4) { (1 + rng.below(3) as u16, INT | sig) } else { (0, sig) };
                let s = (rng.below(2) as u16) << 15;
                let p = tok80((16383 - k) as u16, INT);
                emit(format!("ar {} {}", tok80(s | e, sig), p));
                stats.bump("tie_denormal");
            }
            _ => {
                // quotients that are exact / one ulp apart: (q * b) / b and neighbours, via a chain; sums at the overflow edge
                if rng.chance(1, 2) {
                    let a = rand80(rng, false);
                    let b = (1 + rng.below(40)) as f64;
                    emit(format!("ch {} * {} / {} - {}", tok80(a.0, a.1), tok64(b.to_bits()), tok64(b.to_bits()), tok80(a.0, a.1)));
                    stats.bump("tie_mul_div_back");
                } else {
                    let sig = !0u64 - rng.below(3);
                    let eb = 0x7ffe - 64 + rng.below(2) as u16;
                    emit(format!("ar {} {}", tok80(0x7ffe, sig), tok80(eb, INT | rng.below(2))));
                    stats.bump("tie_overflow_edge");
                }
            }
        }
    }
}

fn any_operand(rng: &mut SplitMix64, bset: &[u64]) -> String {
    match rng.below(10) {
        0..=3 => tok64(rand_f64(rng, bset)),
        4 => tok64(*rng.pick(&[0u64, 1 << 63, 0x7ff0_0000_0000_0000, 0xfff0_0000_0000_0000, 0x7ff8_0000_0000_0000, 0xfff8_0000_0000_0001])),
        5 => tok64((*rng.pick(&[1.0f64, -1.0, 2.0, 3.0, 0.5, 10.0, 0.1, -7.0, 1e300, 1e-300, 1e-200])).to_bits()),
        _ => {
            let a = rand80(rng, false);
            tok80(a.0, a.1)
        }
    }
}

fn rr(rng: &mut SplitMix64) -> u64 {
    rng.below(4)
}

/// one random operation; `same` makes both operands the same object more often
fn random_op(rng: &mut SplitMix64, stats: &mut Stats) -> String {
    let d = rr(rng);
    let a = rr(rng);
    let b = if rng.chance(1, 4) { a } else { rr(rng) };
    let k = rng.below(100);
    let (name, s) = match k {
        0..=27 => ("bin", format!("{} {} {} {}", rng.pick(&["+", "-", "*", "/"]), d, a, b)),
        28..=41 => ("asg", format!("{} {} {}", rng.pick(&["+=", "-=", "*=", "/="]), d, if rng.chance(1, 4) { d } else { b })),
        42..=47 => ("neg", format!("neg {} {}", d, a)),
        48..=54 => ("abs", format!("abs {} {}", d, a)),
        55..=61 => ("min", format!("min {} {} {}", d, a, b)),
        62..=68 => ("max", format!("max {} {} {}", d, a, b)),
        69..=75 => ("rt", format!("rt {} {}", d, a)),
        76..=87 => ("cmp", format!("cmp {} {}", a, b)),
        88..=93 => ("copy", format!("{} {} {}", rng.pick(&["cp", "cl", "cf"]), d, a)),
        94..=97 => ("const", format!("{} {}", rng.pick(&["zero", "df", "one"]), d)),
        _ => ("init", "init".to_string()),
    };
    stats.bump(&format!("pgop_{}", name));
    s
}

pub fn program(rng: &mut SplitMix64, bset: &[u64], mode: &str, style: u64, long: bool, stats: &mut Stats) -> String {
    let mut regs: Vec<String> = (0..4).map(|_| any_operand(rng, bset)).collect();
    let mut ops: Vec<String> = Vec::new();
    let len = if long { 120 + rng.below(120) } else { 3 + rng.below(14) } as usize;
    match style {
        0 => {
            // repeated squaring / halving / doubling: leaves the f64 range, reaches the f80 overflow and underflow limits
            regs[0] = tok64((*rng.pick(&[1e10f64, 1e-10, 3.0, 1.0 / 3.0, -1e100, 1e-100, 1.5, 0.7, -1e-200, 1e300])).to_bits());
            let body = *rng.pick(&["* 0 0 0", "*= 0 0", "* 0 0 1", "/ 0 0 1", "+= 0 0"]);
            let n = if long { len } else { 5 + rng.below(12) as usize };
            for i in 0..n {
                ops.push(body.to_string());
                if i % 3 == 2 {
                    ops.push(rng.pick(&["abs 2 0", "rt 2 0", "cmp 0 2", "neg 2 0", "min 2 0 1", "/ 2 1 0", "cmp 0 0", "max 3 0 2"]).to_string());
                }
            }
            stats.bump("pg_power");
        }
        1 => {
            // many compare-like operations, then arithmetic (anything left behind on the x87 stack or in its control word shows)
            for _ in 0..(9 + rng.below(if long { 100 } else { 8 })) {
                let (a, b) = (rr(rng), rr(rng));
                ops.push(match rng.below(6) {
                    0 => format!("cmp {} {}", a, b),
                    1 => format!("min {} {} {}", rr(rng), a, b),
                    2 => format!("max {} {} {}", rr(rng), a, b),
                    3 => format!("abs {} {}", rr(rng), a),
                    4 => format!("rt {} {}", rr(rng), a),
                    _ => format!("neg {} {}", rr(rng), a),
                });
            }
            for _ in 0..3 {
                ops.push(format!("{} {} {} {}", rng.pick(&["+", "-", "*", "/"]), rr(rng), rr(rng), rr(rng)));
            }
            ops.push("cmp 0 1".into());
            stats.bump("pg_compare_heavy");
        }
        2 => {
            // accumulate: r0 += r1 * r2 ; r1 *= r3 ... (a dot product / power series shape)
            for _ in 0..(len / 3 + 1) {
                ops.push("* 3 1 2".into());
                ops.push("+= 0 3".into());
                ops.push(rng.pick(&["*= 1 2", "/= 1 2", "-= 2 1", "neg 2 2", "rt 1 1", "cl 3 0"]).to_string());
            }
            ops.push("cmp 0 3".into());
            stats.bump("pg_accumulate");
        }
        3 => {
            // signs of zeros and NaNs through the whole API: x - x, -(x - x), abs, 1 / that, min/max of the two zeros
            ops.push(format!("- 1 {0} {0}", rr(rng)));
            ops.push("neg 2 1".into());
            for _ in 0..len {
                ops.push(match rng.below(9) {
                    0 => "one 3".to_string(),
                    1 => format!("/ 0 3 {}", 1 + rng.below(2)),
                    2 => format!("abs {} {}", rr(rng), 1 + rng.below(2)),
                    3 => format!("min {} 1 2", rr(rng)),
                    4 => format!("max {} 2 1", rr(rng)),
                    5 => format!("cmp {} {}", rr(rng), rr(rng)),
                    6 => format!("rt {} {}", rr(rng), 1 + rng.below(2)),
                    7 => format!("* {} {} {}", rr(rng), rr(rng), 1 + rng.below(2)),
                    _ => random_op(rng, stats),
                });
            }
            stats.bump("pg_zero_signs");
        }
        _ => {
            for _ in 0..len {
                ops.push(random_op(rng, stats));
            }
            stats.bump("pg_random");
        }
    }
    stats.add("pg_ops", ops.len() as u64);
    stats.bump(&format!("pg_mode_{}", mode));
    format!("pg {} {} ; {}", mode, regs.join(" "), ops.join(" ; "))
}

pub fn programs(rng: &mut SplitMix64, bset: &[u64], n: usize, n_long: usize, n_thread: usize, n_conc: usize,
                emit: &mut dyn FnMut(String), stats: &mut Stats) {
    for i in 0..n {
        let style = if i % 2 == 0 { 4 } else { rng.below(4) };
        emit(program(rng, bset, "m", style, false, stats));
    }
    for _ in 0..n_long {
        let style = rng.below(5);
        emit(program(rng, bset, "m", style, true, stats));
    }
    for _ in 0..n_thread {
        let style = rng.below(5);
        emit(program(rng, bset, "t", style, false, stats));
    }
    for _ in 0..n_conc {
        let style = rng.below(5);
        emit(program(rng, bset, "c", style, false, stats));
    }
}

pub fn formatting(rng: &mut SplitMix64, bset: &[u64], n: usize, emit: &mut dyn FnMut(String), stats: &mut Stats) {
    for &x in bset.iter() {
        emit(format!("fm {}", tok64(x)));
        stats.bump("fm_boundary");
    }
    for _ in 0..n {
        if rng.chance(1, 2) {
            emit(format!("fm {}", tok64(rand_f64(rng, bset))));
        } else {
            let a = rand80(rng, false);
            let a = if rng.chance(1, 3) { related80(rng, a) } else { a };
            emit(format!("fm {}", tok80(a.0, a.1)));
        }
        stats.bump("fm_random");
    }
}

/// the wave-3 streams with the sizes of a tier
pub fn wave3(rng: &mut SplitMix64, tier: &str, emit: &mut dyn FnMut(String), stats: &mut Stats) {
    let bset = boundary_set();
    let (nt, np, nl, nth, nc, nf) = match tier {
        "thorough" => (120_000, 100_000, 2_000, 3_000, 300, 20_000),
        "debug" => (800, 1_200, 10, 60, 10, 300),
        "debug-thorough" => (20_000, 25_000, 200, 500, 40, 5_000),
        _ => (4_000, 5_000, 40, 200, 40, 1_500),
    };
    ties(rng, nt, emit, stats);
    programs(rng, &bset, np, nl, nth, nc, emit, stats);
    formatting(rng, &bset, nf, emit, stats);
}
