//! Register programs (`pg`): four live `f80` objects, every result is stored and fed back into later operations.
//!
//!   pg MODE X0 X1 X2 X3 ; op ; op ; ...      MODE = m (main thread) | t (a freshly spawned thread) | c (main thread, then
//!                                            four threads at once repeating it: every run must give the same answers)
//!   ops:  + d a b   - d a b   * d a b   / d a b      r[d] = r[a] op r[b]   (operators by value; a = b allowed)
//!         += d b    -= d b    *= d b    /= d b       r[d] op= r[b]         (d = b allowed)
//!         neg d a   abs d a   min d a b   max d a b
//!         rt d a                                     r[d] = f80::from(f64::from(r[a]))  (through `Into`)
//!         cmp a b                                    < > <= >= == != partial_cmp on REFERENCES into the register file
//!                                                    (a = b: the same object on both sides)
//!         cp d a | cl d a | cf d a                   Copy assignment | Clone::clone | Clone::clone_from (used destination)
//!         zero d | df d | one d                      ZeroOne::ZERO | Default::default() | ZeroOne::ONE
//!         init                                       f80_init() once more
//! One output token per step.  `min max abs` are shown as VALUES in the view; a register whose bytes the property does not
//! fix (abs of a zero, min/max of two zeros or with a NaN operand, and everything computed from such a register) is `loose`:
//! steps reading it are `*` in the view (the raw bytes are still compared with the model).
use super::{bits_of, canon80, control_word, is_nan80, operand, show64, show80};
use rlib_f80::{f80, f80_init};
use rlib_num_traits::ZeroOne;
use std::cmp::Ordering;

#[derive(Clone, Copy, Debug)]
pub enum PgOp {
    Bin(u8, usize, usize, usize),
    Asg(u8, usize, usize),
    Neg(usize, usize),
    Abs(usize, usize),
    Min(usize, usize, usize),
    Max(usize, usize, usize),
    Rt(usize, usize),
    Cmp(usize, usize),
    Cp(usize, usize),
    Cl(usize, usize),
    Cf(usize, usize),
    Zero(usize),
    Df(usize),
    One(usize),
    Init,
}

fn reg(t: &str) -> Option<usize> {
    match t {
        "0" => Some(0),
        "1" => Some(1),
        "2" => Some(2),
        "3" => Some(3),
        _ => None,
    }
}

pub fn parse_op(part: &str) -> Option<PgOp> {
    let t: Vec<&str> = part.split_whitespace().collect();
    Some(match t.as_slice() {
        ["init"] => PgOp::Init,
        ["zero", d] => PgOp::Zero(reg(d)?),
        ["df", d] => PgOp::Df(reg(d)?),
        ["one", d] => PgOp::One(reg(d)?),
        [o @ ("+=" | "-=" | "*=" | "/="), d, b] => PgOp::Asg(o.as_bytes()[0], reg(d)?, reg(b)?),
        ["neg", d, a] => PgOp::Neg(reg(d)?, reg(a)?),
        ["abs", d, a] => PgOp::Abs(reg(d)?, reg(a)?),
        ["rt", d, a] => PgOp::Rt(reg(d)?, reg(a)?),
        ["cmp", a, b] => PgOp::Cmp(reg(a)?, reg(b)?),
        ["cp", d, a] => PgOp::Cp(reg(d)?, reg(a)?),
        ["cl", d, a] => PgOp::Cl(reg(d)?, reg(a)?),
        ["cf", d, a] => PgOp::Cf(reg(d)?, reg(a)?),
        [o @ ("+" | "-" | "*" | "/"), d, a, b] => PgOp::Bin(o.as_bytes()[0], reg(d)?, reg(a)?, reg(b)?),
        ["min", d, a, b] => PgOp::Min(reg(d)?, reg(a)?, reg(b)?),
        ["max", d, a, b] => PgOp::Max(reg(d)?, reg(a)?, reg(b)?),
        _ => return None,
    })
}

fn nan_of(x: f80) -> bool {
    let (se, sig) = bits_of(x);
    is_nan80(se, sig)
}
fn zero_of(x: f80) -> bool {
    let (se, sig) = bits_of(x);
    se & 0x7fff == 0 && sig == 0
}

/// runs the program on the real crate; returns (raw tokens, view tokens, control word afterwards)
pub fn execute(init: [f80; 4], ops: &[PgOp]) -> (Vec<String>, Vec<String>, u16) {
    let mut r = init;
    let mut loose = [false; 4];
    let mut raw = Vec::with_capacity(ops.len());
    let mut view = Vec::with_capacity(ops.len());
    let hide = |l: bool, s: String| if l { "*".to_string() } else { s };
    for op in ops {
        match *op {
            PgOp::Bin(o, d, a, b) => {
                let v = match o {
                    b'+' => r[a] + r[b],
                    b'-' => r[a] - r[b],
                    b'*' => r[a] * r[b],
                    _ => r[a] / r[b],
                };
                let l = loose[a] || loose[b];
                r[d] = v;
                loose[d] = l;
                raw.push(show80(v));
                view.push(hide(l, show80(v)));
            }
            PgOp::Asg(o, d, b) => {
                let l = loose[d] || loose[b];
                let y = r[b];
                match o {
                    b'+' => r[d] += y,
                    b'-' => r[d] -= y,
                    b'*' => r[d] *= y,
                    _ => r[d] /= y,
                }
                loose[d] = l;
                raw.push(show80(r[d]));
                view.push(hide(l, show80(r[d])));
            }
            PgOp::Neg(d, a) => {
                let v = -r[a];
                let l = loose[a];
                r[d] = v;
                loose[d] = l;
                raw.push(show80(v));
                view.push(hide(l, show80(v)));
            }
            PgOp::Abs(d, a) => {
                let x = r[a];
                let v = x.abs();
                let l = loose[a];
                r[d] = v;
                loose[d] = l || zero_of(x);
                raw.push(show80(v));
                view.push(hide(l, canon80(v)));
            }
            PgOp::Min(d, a, b) | PgOp::Max(d, a, b) => {
                let (x, y) = (r[a], r[b]);
                let v = if matches!(op, PgOp::Min(..)) { x.min(y) } else { x.max(y) };
                let l = loose[a] || loose[b] || nan_of(x) || nan_of(y);
                r[d] = v;
                loose[d] = l || (zero_of(x) && zero_of(y));
                raw.push(show80(v));
                view.push(hide(l, canon80(v)));
            }
            PgOp::Rt(d, a) => {
                let f: f64 = r[a].into();
                let v: f80 = f.into();
                let l = loose[a];
                r[d] = v;
                loose[d] = l;
                let s = format!("f64={},val={}", show64(f), show80(v));
                raw.push(s.clone());
                view.push(hide(l, s));
            }
            PgOp::Cmp(a, b) => {
                // references into the register file: with a == b both sides are the same object
                let (x, y): (&f80, &f80) = (&r[a], &r[b]);
                let pc = match x.partial_cmp(&y) {
                    None => "none",
                    Some(Ordering::Less) => "less",
                    Some(Ordering::Equal) => "equal",
                    Some(Ordering::Greater) => "greater",
                };
                let bit = |v: bool| if v { '1' } else { '0' };
                let s = format!(
                    "lt={},gt={},le={},ge={},eq={},ne={},pc={}",
                    bit(x < y),
                    bit(x > y),
                    bit(x <= y),
                    bit(x >= y),
                    bit(x == y),
                    bit(x != y),
                    pc
                );
                raw.push(s.clone());
                view.push(hide(loose[a] || loose[b], s));
            }
            PgOp::Cp(d, a) | PgOp::Cl(d, a) | PgOp::Cf(d, a) => {
                let l = loose[a];
                match op {
                    PgOp::Cp(..) => r[d] = r[a],
                    #[allow(clippy::clone_on_copy)]
                    PgOp::Cl(..) => r[d] = Clone::clone(&r[a]),
                    _ => {
                        let src = r[a];
                        Clone::clone_from(&mut r[d], &src);
                    }
                }
                loose[d] = l;
                raw.push(show80(r[d]));
                view.push(hide(l, show80(r[d])));
            }
            PgOp::Zero(d) | PgOp::Df(d) | PgOp::One(d) => {
                r[d] = match op {
                    PgOp::Zero(_) => <f80 as ZeroOne>::ZERO,
                    PgOp::Df(_) => Default::default(),
                    _ => <f80 as ZeroOne>::ONE,
                };
                loose[d] = false;
                raw.push(show80(r[d]));
                view.push(show80(r[d]));
            }
            PgOp::Init => {
                f80_init();
                raw.push("-".into());
                view.push("-".into());
            }
        }
    }
    (raw, view, control_word())
}

fn join(v: &[String]) -> String {
    if v.is_empty() {
        "empty".into()
    } else {
        v.join(" ")
    }
}

pub const MT_THREADS: usize = 4;

pub fn run_pg(line: &str) -> Option<String> {
    let mut parts = line.split(';').map(|p| p.trim());
    let hdr: Vec<&str> = parts.next()?.split_whitespace().collect();
    if hdr.len() != 6 || hdr[0] != "pg" {
        return None;
    }
    let mode = hdr[1];
    if !matches!(mode, "m" | "t" | "c") {
        return None;
    }
    let mut init = [<f80 as ZeroOne>::ZERO; 4];
    for k in 0..4 {
        init[k] = operand(hdr[2 + k])?.v;
    }
    let ops: Vec<PgOp> = parts.map(parse_op).collect::<Option<Vec<_>>>()?;
    let (raw, view, cw) = if mode == "t" {
        let ops2 = ops.clone();
        std::thread::spawn(move || execute(init, &ops2)).join().ok()?
    } else {
        execute(init, &ops)
    };
    let mut tail = String::new();
    if mode == "c" {
        // several threads run the same program at once, many times: the crate must not share state between threads
        let reps: usize = (40_000 / (ops.len() + 1)).clamp(50, 4000);
        let hs: Vec<_> = (0..MT_THREADS)
            .map(|_| {
                let (ops2, want) = (ops.clone(), raw.clone());
                std::thread::spawn(move || (0..reps).all(|_| execute(init, &ops2).0 == want))
            })
            .collect();
        let mut same = true;
        for h in hs {
            same &= h.join().unwrap_or(false);
        }
        tail = if same { " mt=same".into() } else { " mt=differ".into() };
    }
    Some(format!("I {}{} cw={:04x} | V {}{}", join(&raw), tail, cw, join(&view), tail))
}
