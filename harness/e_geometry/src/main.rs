//! Correspondence harness for engine `geometry` (property C10): drives
//! rlib_geometry::{line::Line, circle::Circle, util::{parallel, intersect_ll, intersect_cl, intersect_cc}}.
//!
//! Case lines (see lean/Driver/Geometry.lean for the grammar).  Numbers are decimal integers or
//! `h` + 16 hex digits of the f64 bit pattern, so model and implementation get exactly the same inputs.
//!
//! raw  = reported kind + number of points (coordinates are not compared with the model: a numerically harmless rewrite
//!        moves them by rounding noise); with the case prefix `bits`: kind + full f64 bit patterns (logged diagnostics only)
//! view = mode K: reported kind (for small-integer configurations additionally cross-checked against the
//!                kind decided here in exact i128 arithmetic: `X!=exact:Y` on disagreement)
//!        mode P: `ok` iff every point the IMPLEMENTATION returned is within 1e-7 of both primitives, decided in exact
//!                dyadic arithmetic (src/exact.rs) against the *defining* data (two points / coefficients / centre+radius),
//!                not the normalised `Line`; plus `iter-mismatch` if `into_iter()` does not report the same points
#[path = "../../common/mod.rs"]
mod common;
mod exact;
#[macro_use]
mod iterprobe;
use common::*;
use rlib_show::{Show, ShowSettings};
use rlib_geometry::{
    circle::{Circle, PointPosition},
    line::Line,
    point::Point,
    util::{intersect_cc, intersect_cl, intersect_ll, parallel, CircleIntersection, CircleLineIntersection, EPS},
};

const TOL: f64 = 1e-7;
/// small-integer ("lattice") configurations: the kind is decided exactly below and is never inside the band
const LATTICE_MAX: i128 = 64;

// ------------------------------------------------------------------------------------------------
// numbers and line specifications
// ------------------------------------------------------------------------------------------------

fn tok(v: f64) -> String {
    if v.is_finite() && v.fract() == 0.0 && v.abs() < 1e9 && !(v == 0.0 && v.is_sign_negative()) {
        format!("{}", v as i64)
    } else {
        format!("h{:016x}", v.to_bits())
    }
}

fn parse_num(t: &str) -> Option<f64> {
    if let Some(h) = t.strip_prefix('h') {
        u64::from_str_radix(h, 16).ok().map(f64::from_bits)
    } else {
        t.parse::<i64>().ok().map(|z| z as f64)
    }
}

fn as_int(t: &str) -> Option<i128> {
    if t.starts_with('h') {
        None
    } else {
        t.parse::<i128>().ok().filter(|z| z.abs() <= LATTICE_MAX)
    }
}

/// set per case: `bits` prefix => raw carries coordinates as full bit patterns (diagnostics), else kind + count only
static FULL_BITS: std::sync::atomic::AtomicBool = std::sync::atomic::AtomicBool::new(false);

fn full_bits() -> bool {
    FULL_BITS.load(std::sync::atomic::Ordering::Relaxed)
}

fn show_num(v: f64) -> String {
    if v.is_nan() {
        "nan".into()
    } else {
        format!("{:016x}", v.to_bits())
    }
}

/// raw result: kind + number of points, or (diagnostic mode) kind + bit patterns
fn show_pts(kind: &str, pts: &[Point]) -> String {
    if full_bits() {
        let mut raw = kind.to_string();
        for p in pts {
            raw.push(' ');
            raw.push_str(&show_point(p));
        }
        raw
    } else {
        format!("{} {}", kind, pts.len())
    }
}

fn show_point(p: &Point) -> String {
    format!("{} {}", show_num(p.x), show_num(p.y))
}

#[derive(Clone, Copy, Debug)]
enum LS {
    B(f64, f64, f64, f64),
    N(f64, f64, f64),
}

impl LS {
    fn toks(&self) -> String {
        match *self {
            LS::B(a, b, c, d) => format!("B {} {} {} {}", tok(a), tok(b), tok(c), tok(d)),
            LS::N(a, b, c) => format!("N {} {} {}", tok(a), tok(b), tok(c)),
        }
    }
    fn build(&self) -> Line {
        match *self {
            LS::B(ux, uy, vx, vy) => Line::between(&Point::new(ux, uy), &Point::new(vx, vy)),
            LS::N(a, b, c) => Line::new(a, b, c),
        }
    }
    /// distance from (px, py) to the line, from the defining data
    fn dist_to(&self, px: f64, py: f64) -> f64 {
        match *self {
            LS::B(ux, uy, vx, vy) => {
                let (dx, dy) = (vx - ux, vy - uy);
                ((dx * (py - uy) - dy * (px - ux)) / dx.hypot(dy)).abs()
            }
            LS::N(a, b, c) => ((a * px + b * py + c) / a.hypot(b)).abs(),
        }
    }
}

/// exact integer coefficients (A, B, C) of a line given by small integers
fn line_ints(kind: &str, t: &[&str]) -> Option<(i128, i128, i128)> {
    if kind == "B" {
        let (ux, uy, vx, vy) = (as_int(t[0])?, as_int(t[1])?, as_int(t[2])?, as_int(t[3])?);
        let a = uy - vy;
        let b = vx - ux;
        Some((a, b, -(a * ux + b * uy)))
    } else {
        Some((as_int(t[0])?, as_int(t[1])?, as_int(t[2])?))
    }
}

/// parse `<L>` at position i; returns the spec, its exact integer form (if lattice) and the next position
fn parse_line(t: &[&str], i: usize) -> Option<(LS, Option<(i128, i128, i128)>, usize)> {
    match *t.get(i)? {
        "B" => {
            if t.len() < i + 5 {
                return None;
            }
            let ls = LS::B(parse_num(t[i + 1])?, parse_num(t[i + 2])?, parse_num(t[i + 3])?, parse_num(t[i + 4])?);
            Some((ls, line_ints("B", &t[i + 1..i + 5]), i + 5))
        }
        "N" => {
            if t.len() < i + 4 {
                return None;
            }
            let ls = LS::N(parse_num(t[i + 1])?, parse_num(t[i + 2])?, parse_num(t[i + 3])?);
            Some((ls, line_ints("N", &t[i + 1..i + 4]), i + 4))
        }
        _ => None,
    }
}

// ------------------------------------------------------------------------------------------------
// exact kinds of small-integer configurations (i128, no rounding anywhere)
// ------------------------------------------------------------------------------------------------

fn exact_cl(cx: i128, cy: i128, r: i128, l: (i128, i128, i128)) -> Option<&'static str> {
    let n2 = l.0 * l.0 + l.1 * l.1;
    if n2 == 0 || r <= 0 {
        return None;
    }
    let s = l.0 * cx + l.1 * cy + l.2;
    let (lhs, rhs) = (s * s, r * r * n2);
    Some(if lhs > rhs {
        "None"
    } else if lhs == rhs {
        "Touch"
    } else {
        "Intersect"
    })
}

fn exact_cc(ax: i128, ay: i128, ar: i128, bx: i128, by: i128, br: i128) -> Option<&'static str> {
    if ar <= 0 || br <= 0 {
        return None;
    }
    let d2 = (ax - bx) * (ax - bx) + (ay - by) * (ay - by);
    let (big, small) = if ar < br { (br, ar) } else { (ar, br) };
    let (sum2, dif2) = ((big + small) * (big + small), (big - small) * (big - small));
    Some(if d2 == 0 && big == small {
        "Same"
    } else if d2 > sum2 {
        "None"
    } else if d2 == sum2 {
        "TouchOutside"
    } else if d2 > dif2 {
        "Intersect"
    } else if d2 == dif2 {
        "TouchInside"
    } else {
        "None"
    })
}

fn cross_check(reported: &str, exact: Option<&'static str>) -> String {
    match exact {
        Some(e) if e != reported => format!("{}!=exact:{}", reported, e),
        _ => reported.to_string(),
    }
}

// ------------------------------------------------------------------------------------------------
// run
// ------------------------------------------------------------------------------------------------

/// exact where possible (always, inside the property's domain); f64 only for absurd magnitudes
fn near_circle(cx: f64, cy: f64, r: f64, p: &Point) -> bool {
    match exact::near_circle(cx, cy, r, p.x, p.y) {
        Some(b) => b,
        None => ((p.x - cx).hypot(p.y - cy) - r).abs() <= TOL,
    }
}

fn near_line(ls: &LS, p: &Point) -> bool {
    let l = match *ls {
        LS::B(ux, uy, vx, vy) => exact::line_between(ux, uy, vx, vy),
        LS::N(a, b, c) => exact::line_new(a, b, c),
    };
    match l.and_then(|l| exact::near_line(&l, p.x, p.y)) {
        Some(b) => b,
        None => ls.dist_to(p.x, p.y) <= TOL,
    }
}

fn same_points(a: &[Point], b: &[Point]) -> bool {
    a.len() == b.len() && a.iter().zip(b).all(|(p, q)| p.x.to_bits() == q.x.to_bits() && p.y.to_bits() == q.y.to_bits())
}

type ClIter = <CircleLineIntersection as IntoIterator>::IntoIter;
type CcIter = <CircleIntersection as IntoIterator>::IntoIter;

/// the result enum rebuilt from its destructured payload (public variant constructors: re-use of returned values)
fn rebuild_cl(pts: &[Point]) -> CircleLineIntersection {
    match pts.len() {
        0 => CircleLineIntersection::None,
        1 => CircleLineIntersection::Touch(pts[0]),
        _ => CircleLineIntersection::Intersect(pts[0], pts[1]),
    }
}

fn rebuild_cc(kind: &str, pts: &[Point]) -> CircleIntersection {
    match (kind, pts.len()) {
        ("Same", _) => CircleIntersection::Same,
        ("TouchInside", 1) => CircleIntersection::TouchInside(pts[0]),
        ("TouchOutside", 1) => CircleIntersection::TouchOutside(pts[0]),
        ("Intersect", 2) => CircleIntersection::Intersect(pts[0], pts[1]),
        _ => CircleIntersection::None,
    }
}

fn same_line(a: &Line, b: &Line) -> bool {
    a.a.to_bits() == b.a.to_bits() && a.b.to_bits() == b.b.to_bits() && a.c.to_bits() == b.c.to_bits()
}

fn same_circle(a: &Circle, b: &Circle) -> bool {
    a.c.x.to_bits() == b.c.x.to_bits() && a.c.y.to_bits() == b.c.y.to_bits() && a.r.to_bits() == b.r.to_bits()
}

/// Clone / clone_from (into a fresh and into a used destination) / Copy of a Line and a Circle: bit-identical copies
fn copies_ok(c: &Circle, l: &Line) -> bool {
    let c1 = c.clone();
    let mut c2 = Circle::default();
    c2.clone_from(c);
    let mut c3 = Circle::new(Point::new(5.0, -6.0), 7.0);
    c3.clone_from(c);
    let c4 = *c;
    let l1 = l.clone();
    let mut l2 = Line::default();
    l2.clone_from(l);
    let mut l3 = Line::new(3.0, 4.0, 5.0);
    l3.clone_from(l);
    let l4 = *l;
    let dc = Circle::default();
    let dl = Line::default();
    let zero = 0f64.to_bits();
    let defaults = [dc.c.x, dc.c.y, dc.r, dl.a, dl.b, dl.c].iter().all(|v| v.to_bits() == zero);
    defaults && [c1, c2, c3, c4].iter().all(|x| same_circle(x, c)) && [l1, l2, l3, l4].iter().all(|x| same_line(x, l))
}

/// a derived `Debug` rendering names the type / variant and shows every number (as `{:?}` of the f64)
fn debug_shows(rendered: &str, name: &str, nums: &[f64]) -> bool {
    rendered.starts_with(name) && nums.iter().all(|v| rendered.contains(&format!("{:?}", v)))
}

/// `ok`, or `off` followed by the offending result's coordinates (bit patterns) so that a replay file shows them
fn ok_off_pts(b: bool, pts: &[Point]) -> String {
    if b {
        "ok".to_string()
    } else {
        let mut s = "off".to_string();
        for p in pts {
            s.push(' ');
            s.push_str(&show_point(p));
        }
        s
    }
}

fn bad() -> String {
    out1("BAD-CASE")
}

fn run_inner(t: &[&str]) -> Option<(String, String)> {
    let op = *t.first()?;
    let has_mode = matches!(op, "cl" | "cc" | "ll");
    let mode = if has_mode { *t.get(1)? } else { "" };
    let base = if has_mode { 2 } else { 1 };
    let eps = parse_num(t.get(base)?)?;
    // the constant extracted from util.rs (handed to the model) must be the constant the crate was compiled with;
    // if not, the raw result is marked (correspondence drift) while the view is still judged against the spec
    let mismatch = eps.to_bits() != EPS.to_bits();
    let a = &t[base + 1..];
    let (raw, view): (String, String) = match op {
        "cl" => {
            if a.len() < 4 {
                return None;
            }
            let (cx, cy, r) = (parse_num(a[0])?, parse_num(a[1])?, parse_num(a[2])?);
            let (ls, li, next) = parse_line(a, 3)?;
            if next != a.len() {
                return None;
            }
            let c = Circle::new(Point::new(cx, cy), r);
            let l = ls.build();
            let res = intersect_cl(&c, &l);
            let (kind, pts): (&str, Vec<Point>) = match res {
                CircleLineIntersection::None => ("None", vec![]),
                CircleLineIntersection::Touch(p) => ("Touch", vec![p]),
                CircleLineIntersection::Intersect(p, q) => ("Intersect", vec![p, q]),
            };
            // the way points are *reported*: `into_iter()` must yield the same points, same count, same order
            let it: Vec<Point> = intersect_cl(&c, &l).into_iter().collect();
            let mut iter_tag = if same_points(&pts, &it) { String::new() } else { " iter-mismatch".to_string() };
            if iter_tag.is_empty() && mode == "P" {
                // every other entry point of the iterator (reverse, len, size_hint, count, last, nth, ... in every
                // consumption state), on the enum rebuilt from the returned points
                let caps = caps!(ClIter);
                if let Some(what) = iterprobe::battery(&|| rebuild_cl(&pts).into_iter(), &caps, &pts) {
                    iter_tag = format!(" iter-mismatch:{}", what);
                }
            }
            // copies of the inputs (Clone::clone, clone_from into fresh / used destinations, Copy) give the same answer
            if iter_tag.is_empty() {
                let (c2, mut l2) = (c.clone(), Line::new(1.0, 2.0, 3.0));
                l2.clone_from(&l);
                let again: Vec<Point> = match intersect_cl(&c2, &l2) {
                    CircleLineIntersection::None => vec![],
                    CircleLineIntersection::Touch(p) => vec![p],
                    CircleLineIntersection::Intersect(p, q) => vec![p, q],
                };
                if !copies_ok(&c, &l) || !same_points(&pts, &again) {
                    iter_tag = " clone-mismatch".to_string();
                }
            }
            let raw = show_pts(kind, &pts);
            match mode {
                "K" => {
                    let exact = match (as_int(a[0]), as_int(a[1]), as_int(a[2]), li) {
                        (Some(x), Some(y), Some(rr), Some(l)) => exact_cl(x, y, rr, l),
                        _ => None,
                    };
                    (raw.to_string(), format!("{}{}", cross_check(kind, exact), iter_tag))
                }
                "P" => {
                    let ok = pts.iter().all(|p| near_circle(cx, cy, r, p) && near_line(&ls, p));
                    (raw.to_string(), format!("{}{}", ok_off_pts(ok, &pts), iter_tag))
                }
                _ => return None,
            }
        }
        "cc" => {
            if a.len() != 6 {
                return None;
            }
            let v: Vec<f64> = a.iter().map(|s| parse_num(s)).collect::<Option<Vec<_>>>()?;
            let ca = Circle::new(Point::new(v[0], v[1]), v[2]);
            let cb = Circle::new(Point::new(v[3], v[4]), v[5]);
            let res = intersect_cc(&ca, &cb);
            let (kind, pts): (&str, Vec<Point>) = match res {
                CircleIntersection::None => ("None", vec![]),
                CircleIntersection::Same => ("Same", vec![]),
                CircleIntersection::TouchInside(p) => ("TouchInside", vec![p]),
                CircleIntersection::TouchOutside(p) => ("TouchOutside", vec![p]),
                CircleIntersection::Intersect(p, q) => ("Intersect", vec![p, q]),
            };
            let it: Vec<Point> = res.into_iter().collect();
            let mut iter_tag = if same_points(&pts, &it) { String::new() } else { " iter-mismatch".to_string() };
            if iter_tag.is_empty() && mode == "P" {
                let caps = caps!(CcIter);
                // the enum itself (Copy), its Clone::clone, and the enum rebuilt from the returned points
                #[allow(clippy::clone_on_copy)]
                let cloned = res.clone();
                let what = iterprobe::battery(&|| res.into_iter(), &caps, &pts)
                    .or_else(|| iterprobe::battery(&|| cloned.clone().into_iter(), &caps, &pts).map(|w| format!("clone:{}", w)))
                    .or_else(|| iterprobe::battery(&|| rebuild_cc(kind, &pts).into_iter(), &caps, &pts).map(|w| format!("rebuilt:{}", w)));
                if let Some(what) = what {
                    iter_tag = format!(" iter-mismatch:{}", what);
                }
                let nums: Vec<f64> = pts.iter().flat_map(|p| [p.x, p.y]).collect();
                if iter_tag.is_empty() && !(debug_shows(&format!("{:?}", res), kind, &nums) && debug_shows(&format!("{:?}", ca), "Circle", &[v[0], v[1], v[2]])) {
                    iter_tag = " debug-mismatch".to_string();
                }
            }
            if iter_tag.is_empty() {
                let (a2, mut b2) = (ca.clone(), Circle::new(Point::new(1.0, 2.0), 3.0));
                b2.clone_from(&cb);
                let again: Vec<Point> = intersect_cc(&a2, &b2).into_iter().collect();
                if !copies_ok(&ca, &Line::default()) || !copies_ok(&cb, &Line::default()) || !same_points(&pts, &again) {
                    iter_tag = " clone-mismatch".to_string();
                }
            }
            let raw = show_pts(kind, &pts);
            match mode {
                "K" => {
                    let ints: Option<Vec<i128>> = a.iter().map(|s| as_int(s)).collect();
                    let exact = ints.and_then(|z| exact_cc(z[0], z[1], z[2], z[3], z[4], z[5]));
                    (raw.to_string(), format!("{}{}", cross_check(kind, exact), iter_tag))
                }
                "P" => {
                    let ok = pts.iter().all(|p| near_circle(v[0], v[1], v[2], p) && near_circle(v[3], v[4], v[5], p));
                    (raw.to_string(), format!("{}{}", ok_off_pts(ok, &pts), iter_tag))
                }
                _ => return None,
            }
        }
        "ll" => {
            let (u, ui, n1) = parse_line(a, 0)?;
            let (w, wi, n2) = parse_line(a, n1)?;
            if n2 != a.len() {
                return None;
            }
            let (lu, lw) = (u.build(), w.build());
            let par = parallel(&lu, &lw);
            let res = intersect_ll(&lu, &lw);
            let kind = if res.is_some() { "Some" } else { "None" };
            let lpts: Vec<Point> = res.iter().cloned().collect();
            let raw = format!("{} par={}", show_pts(kind, &lpts), par);
            match mode {
                "K" => {
                    let exact = match (ui, wi) {
                        (Some(x), Some(y)) if (x.0 != 0 || x.1 != 0) && (y.0 != 0 || y.1 != 0) => {
                            Some(if x.0 * y.1 - x.1 * y.0 == 0 { "None" } else { "Some" })
                        }
                        _ => None,
                    };
                    (raw.to_string(), cross_check(kind, exact).to_string())
                }
                "P" => {
                    let ok = res.iter().all(|p| near_line(&u, p) && near_line(&w, p));
                    (raw.to_string(), ok_off_pts(ok, &lpts))
                }
                _ => return None,
            }
        }
        "pos" => {
            if a.len() != 5 {
                return None;
            }
            let v: Vec<f64> = a.iter().map(|s| parse_num(s)).collect::<Option<Vec<_>>>()?;
            let c = Circle::new(Point::new(v[0], v[1]), v[2]);
            let pp = c.position(&Point::new(v[3], v[4]));
            let kind = match pp {
                PointPosition::Inside => "Inside",
                PointPosition::Border => "Border",
                PointPosition::Outside => "Outside",
            };
            // PointPosition: Copy / Clone / clone_from, Debug, PartialEq::{eq, ne}
            let all = [PointPosition::Inside, PointPosition::Border, PointPosition::Outside];
            let idx = |x: &PointPosition| match x {
                PointPosition::Inside => 0,
                PointPosition::Border => 1,
                PointPosition::Outside => 2,
            };
            #[allow(clippy::clone_on_copy)]
            let cl = pp.clone();
            let mut cf = all[(idx(&pp) + 1) % 3];
            cf.clone_from(&pp);
            let traits_ok = idx(&cl) == idx(&pp)
                && idx(&cf) == idx(&pp)
                && format!("{:?}", pp) == kind
                && all.iter().all(|o| (pp == *o) == (idx(&pp) == idx(o)) && (pp != *o) == (idx(&pp) != idx(o)));
            let kind_tag = if traits_ok { "" } else { " glue-mismatch:PointPosition" };
            let ints: Option<Vec<i128>> = a.iter().map(|s| as_int(s)).collect();
            let exact = ints.and_then(|z| {
                if z[2] <= 0 {
                    return None;
                }
                let d2 = (z[3] - z[0]) * (z[3] - z[0]) + (z[4] - z[1]) * (z[4] - z[1]);
                Some(match d2.cmp(&(z[2] * z[2])) {
                    std::cmp::Ordering::Less => "Inside",
                    std::cmp::Ordering::Equal => "Border",
                    std::cmp::Ordering::Greater => "Outside",
                })
            });
            (kind.to_string(), format!("{}{}", cross_check(kind, exact), kind_tag))
        }
        "con" => {
            let (ls, li, n1) = parse_line(a, 0)?;
            if n1 + 2 != a.len() {
                return None;
            }
            let (px, py) = (parse_num(a[n1])?, parse_num(a[n1 + 1])?);
            let l = ls.build();
            let p = Point::new(px, py);
            let res = if l.contains(&p) { "true" } else { "false" };
            let raw = if full_bits() { format!("{} {}", res, show_num(l.dist(&p))) } else { res.to_string() };
            let exact = match (li, as_int(a[n1]), as_int(a[n1 + 1])) {
                (Some(l), Some(x), Some(y)) if l.0 != 0 || l.1 != 0 => {
                    Some(if l.0 * x + l.1 * y + l.2 == 0 { "true" } else { "false" })
                }
                _ => None,
            };
            (raw.to_string(), cross_check(res, exact).to_string())
        }
        "ln" => {
            let (ls, _, n1) = parse_line(a, 0)?;
            if n1 != a.len() {
                return None;
            }
            let l = ls.build();
            let raw = if full_bits() { format!("{} {} {}", show_num(l.a), show_num(l.b), show_num(l.c)) } else { "line".to_string() };
            if l.a.is_nan() || l.b.is_nan() || l.c.is_nan() || l.a.is_infinite() || l.b.is_infinite() || l.c.is_infinite() {
                return Some((raw, "nan".to_string()));
            }
            let unit = (l.a * l.a + l.b * l.b - 1.0).abs() <= 1e-9;
            // two points of the exact line, about one unit apart, must be within 1e-7 of the stored line
            let (p0, p1) = match ls {
                LS::B(ux, uy, vx, vy) => {
                    let (dx, dy) = (vx - ux, vy - uy);
                    let k = dx.hypot(dy);
                    ((ux, uy), (ux + dx / k, uy + dy / k))
                }
                LS::N(a, b, c) => {
                    let n2 = a * a + b * b;
                    let p0 = (-a * c / n2, -b * c / n2);
                    let k = a.hypot(b);
                    (p0, (p0.0 - b / k, p0.1 + a / k))
                }
            };
            let ev = |p: (f64, f64)| (l.a * p.0 + l.b * p.1 + l.c).abs() / l.a.hypot(l.b);
            let on = ev(p0) <= TOL && ev(p1) <= TOL;
            let glue = if copies_ok(&Circle::default(), &l) && debug_shows(&format!("{:?}", l), "Line", &[l.a, l.b, l.c]) && same_line(&ls.build(), &l) {
                ""
            } else {
                " glue-mismatch:Line"
            };
            (raw.to_string(), format!("{} {}{}", if unit { "unit" } else { "nonunit" }, if on { "on" } else { "off" }, glue))
        }
        "pt" => {
            if a.len() != 5 {
                return None;
            }
            let v: Vec<f64> = a.iter().map(|s| parse_num(s)).collect::<Option<Vec<_>>>()?;
            let (p, q, k) = (Point::new(v[0], v[1]), Point::new(v[2], v[3]), v[4]);
            // the operators in all four operand forms (value / reference on either side)
            let adds = [p + q, p + &q, &p + &q, &p + q];
            let subs = [p - q, p - &q, &p - &q, &p - q];
            let (mu, dv) = (p * k, p / k);
            let (sl, ln, dpv, cpv) = (p.slen(), p.len(), p.dp(&q), p.cp(&q));
            let all = [adds[0].x, adds[0].y, subs[0].x, subs[0].y, mu.x, mu.y, dv.x, dv.y, sl, ln, dpv, cpv];
            let raw = if full_bits() {
                let mut r = "pt".to_string();
                for x in all {
                    r.push(' ');
                    r.push_str(&show_num(x));
                }
                r
            } else {
                "pt".to_string()
            };
            // view: every value within 4e-15 (relative to the magnitudes of its terms) of the exact value
            let dy = |x: f64| exact::Dy::from_f64(x);
            let mut view = match (dy(v[0]), dy(v[1]), dy(v[2]), dy(v[3]), dy(k), all.iter().map(|x| dy(*x)).collect::<Option<Vec<_>>>()) {
                (Some(ax), Some(ay), Some(bx), Some(by), Some(kk), Some(o)) => {
                    let mut bad: Vec<&str> = vec![];
                    let mut chk = |name: &'static str, val: &exact::Dy, e: exact::Dy, bound: exact::Dy| {
                        if !exact::within(val, &e, &bound) {
                            bad.push(name);
                        }
                    };
                    chk("add.x", &o[0], ax.add(&bx), ax.abs().add(&bx.abs()));
                    chk("add.y", &o[1], ay.add(&by), ay.abs().add(&by.abs()));
                    chk("sub.x", &o[2], ax.sub(&bx), ax.abs().add(&bx.abs()));
                    chk("sub.y", &o[3], ay.sub(&by), ay.abs().add(&by.abs()));
                    chk("mul.x", &o[4], ax.mul(&kk), ax.mul(&kk).abs());
                    chk("mul.y", &o[5], ay.mul(&kk), ay.mul(&kk).abs());
                    chk("div.x", &o[6].mul(&kk), ax.clone(), ax.abs());
                    chk("div.y", &o[7].mul(&kk), ay.clone(), ay.abs());
                    let s2 = ax.sq().add(&ay.sq());
                    chk("slen", &o[8], s2.clone(), s2.clone());
                    chk("len", &o[9].sq(), s2.clone(), s2.clone());
                    chk("dp", &o[10], ax.mul(&bx).add(&ay.mul(&by)), ax.mul(&bx).abs().add(&ay.mul(&by).abs()));
                    chk("cp", &o[11], ax.mul(&by).sub(&ay.mul(&bx)), ax.mul(&by).abs().add(&ay.mul(&bx).abs()));
                    if !exact::Dy::zero().le(&o[9]) {
                        bad.push("len<0");
                    }
                    if bad.is_empty() {
                        "ok".to_string()
                    } else {
                        format!("off:{}", bad.join(","))
                    }
                }
                _ => "nan".to_string(),
            };
            // glue around the arithmetic (std-trait entry points of Point), against their std meaning
            let bits = |t: &Point| (t.x.to_bits(), t.y.to_bits());
            let mut glue: Vec<&str> = vec![];
            if adds.iter().any(|t| bits(t) != bits(&adds[0])) || subs.iter().any(|t| bits(t) != bits(&subs[0])) {
                glue.push("operand-forms");
            }
            if sl.to_bits() != Point::new(p.x, p.y).slen().to_bits() || p.dp(&q).to_bits() != q.dp(&p).to_bits() {
                glue.push("dp-sym");
            }
            let tup: (f64, f64) = p.into();
            if (tup.0.to_bits(), tup.1.to_bits()) != bits(&p) {
                glue.push("from");
            }
            let nan_free = !(p.x.is_nan() || p.y.is_nan() || q.x.is_nan() || q.y.is_nan());
            if nan_free {
                // Debug shows both coordinates and reads back to the same bits
                let dbg = format!("{:?}", p);
                let back: Option<Vec<f64>> =
                    dbg.strip_prefix('(').and_then(|s| s.strip_suffix(')')).map(|s| s.split(", ").map(|t| t.parse::<f64>().ok()).collect()).unwrap_or(None);
                match back {
                    Some(b) if b.len() == 2 && b[0].to_bits() == p.x.to_bits() && b[1].to_bits() == p.y.to_bits() => {}
                    _ => glue.push("debug"),
                }
                // Show: `(x, y)` with `float_precision` decimals
                let st = ShowSettings::new();
                let shown = p.show(&st);
                let back: Option<Vec<f64>> =
                    shown.strip_prefix('(').and_then(|s| s.strip_suffix(')')).map(|s| s.split(", ").map(|t| t.parse::<f64>().ok()).collect()).unwrap_or(None);
                let half = 0.5001 * 10f64.powi(-(st.float_precision as i32));
                match back {
                    Some(b) if b.len() == 2 && p.x.abs() <= 1e6 && p.y.abs() <= 1e6 => {
                        if (b[0] - p.x).abs() > half || (b[1] - p.y).abs() > half {
                            glue.push("show");
                        }
                    }
                    Some(b) if b.len() == 2 => {}
                    _ => glue.push("show"),
                }
                // PartialEq: eq is field-wise f64 equality (so +0.0 == -0.0), ne is its negation
                let feq = |s: &Point, t: &Point| s.x == t.x && s.y == t.y;
                let pz = Point::new(if p.x == 0.0 { -p.x } else { p.x }, if p.y == 0.0 { -p.y } else { p.y });
                for (s, t) in [(p, q), (q, p), (p, p), (q, q), (p, pz), (p, Point::new(p.x, q.y)), (p, Point::new(q.x, p.y))] {
                    #[allow(clippy::partialeq_ne_impl)]
                    if (s == t) != feq(&s, &t) || (s != t) == feq(&s, &t) || s.eq(&t) == s.ne(&t) {
                        glue.push("eq/ne");
                        break;
                    }
                }
            }
            // Clone::clone, clone_from into a fresh (default) and into a used destination, Copy, Default
            let c1 = p.clone();
            let mut c2 = Point::default();
            let dflt = bits(&c2) == (0f64.to_bits(), 0f64.to_bits());
            c2.clone_from(&p);
            let mut c3 = q;
            c3.clone_from(&p);
            let c4 = p;
            if !dflt || [c1, c2, c3, c4].iter().any(|t| bits(t) != bits(&p)) {
                glue.push("clone/default");
            }
            if !glue.is_empty() {
                view = format!("{} glue-mismatch:{}", view, glue.join(","));
            }
            (raw, view)
        }
        _ => return None,
    };
    let raw = if mismatch { format!("{} EPS-MISMATCH:compiled={:016x}", raw, EPS.to_bits()) } else { raw };
    Some((raw, view))
}

fn run_case(line: &str) -> String {
    let mut t: Vec<&str> = line.split_whitespace().collect();
    let full = t.first() == Some(&"bits");
    if full {
        t.remove(0);
    }
    FULL_BITS.store(full, std::sync::atomic::Ordering::Relaxed);
    match catch(|| run_inner(&t)) {
        Ok(Some((raw, view))) => out2(&raw, &view),
        Ok(None) => bad(),
        Err(e) => out1(&e),
    }
}

// ------------------------------------------------------------------------------------------------
// gen
// ------------------------------------------------------------------------------------------------

struct Gen<'a> {
    eps: String,
    emit: &'a mut dyn FnMut(String),
    st: &'a mut Stats,
    rng: SplitMix64,
}

impl<'a> Gen<'a> {
    fn unit(&mut self) -> f64 {
        (self.rng.next_u64() >> 11) as f64 / (1u64 << 53) as f64
    }
    fn unif(&mut self, lo: f64, hi: f64) -> f64 {
        lo + (hi - lo) * self.unit()
    }
    fn logunif(&mut self, lo: f64, hi: f64) -> f64 {
        (lo.ln() + (hi.ln() - lo.ln()) * self.unit()).exp()
    }
    fn int(&mut self, lo: i64, hi: i64) -> f64 {
        self.rng.range_i64(lo, hi) as f64
    }
    fn sign(&mut self) -> f64 {
        if self.rng.chance(1, 2) {
            1.0
        } else {
            -1.0
        }
    }
    fn cl(&mut self, fam: &str, cx: f64, cy: f64, r: f64, l: LS) {
        let body = format!("{} {} {} {} {}", self.eps, tok(cx), tok(cy), tok(r), l.toks());
        (self.emit)(format!("cl K {}", body));
        (self.emit)(format!("cl P {}", body));
        self.st.add(fam, 2);
    }
    fn cc(&mut self, fam: &str, a: (f64, f64, f64), b: (f64, f64, f64)) {
        let body = format!("{} {} {} {} {} {} {}", self.eps, tok(a.0), tok(a.1), tok(a.2), tok(b.0), tok(b.1), tok(b.2));
        (self.emit)(format!("cc K {}", body));
        (self.emit)(format!("cc P {}", body));
        self.st.add(fam, 2);
    }
    fn ll(&mut self, fam: &str, u: LS, v: LS) {
        let body = format!("{} {} {}", self.eps, u.toks(), v.toks());
        (self.emit)(format!("ll K {}", body));
        (self.emit)(format!("ll P {}", body));
        self.st.add(fam, 2);
    }
    fn pos(&mut self, fam: &str, c: (f64, f64, f64), p: (f64, f64)) {
        (self.emit)(format!("pos {} {} {} {} {} {}", self.eps, tok(c.0), tok(c.1), tok(c.2), tok(p.0), tok(p.1)));
        self.st.bump(fam);
    }
    fn con(&mut self, fam: &str, l: LS, p: (f64, f64)) {
        (self.emit)(format!("con {} {} {} {}", self.eps, l.toks(), tok(p.0), tok(p.1)));
        self.st.bump(fam);
    }
    fn pt(&mut self, fam: &str, p: (f64, f64), q: (f64, f64), k: f64) {
        (self.emit)(format!("pt {} {} {} {} {} {}", self.eps, tok(p.0), tok(p.1), tok(q.0), tok(q.1), tok(k)));
        self.st.bump(fam);
    }
    fn ln(&mut self, fam: &str, l: LS) {
        (self.emit)(format!("ln {} {}", self.eps, l.toks()));
        self.st.bump(fam);
    }
    /// a line almost parallel to a coordinate axis: `x = across + slope * y` (vertical) or `y = across + slope * x`, with
    /// |slope| = 0 (exactly axis-parallel; the `N` form then carries a coefficient 0.0 or -0.0) or log-uniform in
    /// [1e-11, 1e-2], |across| mostly in [50, 990].  Returns (line, across, slope).
    fn near_axis_line(&mut self, vertical: bool) -> (LS, f64, f64) {
        let slope = if self.rng.chance(1, 8) { 0.0 } else { self.logunif(1e-11, 1e-2) * self.sign() };
        let across = if self.rng.chance(1, 8) { self.unif(-50.0, 50.0) } else { self.unif(50.0, 990.0) * self.sign() };
        let ls = if self.rng.chance(2, 3) {
            let t1 = self.unif(-1000.0, 1000.0);
            let t2 = loop {
                let t = self.unif(-1000.0, 1000.0);
                if (t - t1).abs() >= 1.5 {
                    break t;
                }
            };
            if vertical {
                LS::B(across + slope * t1, t1, across + slope * t2, t2)
            } else {
                LS::B(t1, across + slope * t1, t2, across + slope * t2)
            }
        } else {
            let k = if self.rng.chance(1, 3) { 1.0 } else { self.logunif(0.01, 900.0) } * self.sign();
            if vertical {
                LS::N(k, -k * slope, -k * across)
            } else {
                LS::N(-k * slope, k, -k * across)
            }
        };
        (ls, across, slope)
    }
    /// random real line through the box, defining points at least 1 apart
    fn rand_line(&mut self, lim: f64) -> LS {
        if self.rng.chance(3, 4) {
            loop {
                let (ux, uy, vx, vy) = (self.unif(-lim, lim), self.unif(-lim, lim), self.unif(-lim, lim), self.unif(-lim, lim));
                if (ux - vx).hypot(uy - vy) >= 1.5 {
                    return LS::B(ux, uy, vx, vy);
                }
            }
        } else {
            // Line::new(a, b, c): direction + scale + offset
            let th = self.unif(0.0, std::f64::consts::TAU);
            let k = self.logunif(0.01, 900.0);
            let off = self.unif(-lim, lim);
            LS::N(k * th.cos(), k * th.sin(), k * off)
        }
    }
}

/// directions with integer length: (dx, dy, n)
const PYTH: [(i64, i64, i64); 12] = [
    (1, 0, 1),
    (0, 1, 1),
    (3, 4, 5),
    (4, 3, 5),
    (5, 12, 13),
    (12, 5, 13),
    (8, 15, 17),
    (15, 8, 17),
    (7, 24, 25),
    (24, 7, 25),
    (20, 21, 29),
    (21, 20, 29),
];

/// offsets from exact tangency / exact border, in absolute units
// (2e-9 … 9e-9 = 2–9 EPS: just outside the property's 1e-9 band, where the kind is already required)
const DELTAS: [f64; 16] = [0.0, 1e-13, 1e-11, 3e-10, 9e-10, 1.1e-9, 2e-9, 3e-9, 5e-9, 9e-9, 1.2e-8, 1e-7, 1e-5, 1e-3, 0.1, 1.02e-9];

fn gen(args: &Args, emit: &mut dyn FnMut(String), st: &mut Stats) {
    let thorough = args.tier == "thorough";
    let eps_tok = match args.extra.get("eps") {
        Some(h) => format!("h{}", h),
        None => format!("h{:016x}", EPS.to_bits()),
    };
    let mut g = Gen { eps: eps_tok, emit, st, rng: SplitMix64::new(args.seed ^ 0xC10) };
    let scale: u64 = if thorough { 25 } else { 1 };
    let b = 30i64;

    // ---- (i) exhaustive small scope: circle at the origin / off-origin, every line through two lattice points
    {
        let (centres, radii, lim): (Vec<(i64, i64)>, Vec<i64>, i64) = if thorough {
            (vec![(0, 0), (1, 2), (-3, 1)], vec![1, 2, 3, 4, 5, 6], 5)
        } else {
            (vec![(0, 0)], vec![1, 2, 5], 3)
        };
        for &(cx, cy) in &centres {
            for &r in &radii {
                for ux in -lim..=lim {
                    for uy in -lim..=lim {
                        for vx in -lim..=lim {
                            for vy in -lim..=lim {
                                if (ux, uy) != (vx, vy) {
                                    g.cl("cl_exhaustive", cx as f64, cy as f64, r as f64, LS::B(ux as f64, uy as f64, vx as f64, vy as f64));
                                }
                            }
                        }
                    }
                }
            }
        }
        // every pair of small circles
        let (clim, rmax) = if thorough { (6i64, 7i64) } else { (4, 5) };
        for ar in 1..=rmax {
            for br in 1..=rmax {
                for bx in -clim..=clim {
                    for by in 0..=clim {
                        g.cc("cc_exhaustive", (0.0, 0.0, ar as f64), (bx as f64, by as f64, br as f64));
                    }
                }
            }
        }
    }

    // ---- (ii) lattice tangencies through Pythagorean directions (exact Touch) and their nearest lattice neighbours
    for _ in 0..(3000 * scale) {
        let &(dx, dy, n) = g.rng.pick(&PYTH);
        let (sx, sy) = (g.sign() as i64, g.sign() as i64);
        let (dx, dy) = (dx * sx, dy * sy);
        let r = g.rng.range_i64(1, b);
        let (cx, cy) = (g.rng.range_i64(-b, b), g.rng.range_i64(-b, b));
        let off = *g.rng.pick(&[0i64, 0, 0, 1, -1]);
        let t = (r * n + off) * (g.sign() as i64);
        // find w = C - P with dx*wy - dy*wx = t
        let mut found = None;
        let start = g.rng.range_i64(-40, 40);
        for k in 0..81 {
            let wx = (start + 40 + k) % 81 - 40;
            if dx != 0 {
                let num = t + dy * wx;
                if num % dx == 0 {
                    let wy = num / dx;
                    let (px, py) = (cx - wx, cy - wy);
                    let m = *g.rng.pick(&[1i64, -1, 2, -2, 3]);
                    let (qx, qy) = (px + m * dx, py + m * dy);
                    if px.abs() <= b && py.abs() <= b && qx.abs() <= b && qy.abs() <= b {
                        found = Some((px, py, qx, qy));
                        break;
                    }
                }
            } else if -dy * wx == t {
                let wy = g.rng.range_i64(-20, 20);
                let (px, py) = (cx - wx, cy - wy);
                let m = *g.rng.pick(&[1i64, -1, 5, -7]);
                let (qx, qy) = (px, py + m * dy);
                if px.abs() <= b && py.abs() <= b && qy.abs() <= b {
                    found = Some((px, py, qx, qy));
                    break;
                }
            }
        }
        if let Some((px, py, qx, qy)) = found {
            let fam = if off == 0 { "cl_lattice_tangent" } else { "cl_lattice_near_tangent" };
            g.cl(fam, cx as f64, cy as f64, r as f64, LS::B(px as f64, py as f64, qx as f64, qy as f64));
        }
    }
    // axis-parallel tangents via Line::new with integer coefficients
    for _ in 0..(600 * scale) {
        let r = g.int(1, b);
        let (cx, cy) = (g.int(-b, b), g.int(-b, b));
        let k = g.int(1, 4) * g.sign();
        let off = *g.rng.pick(&[0.0, 0.0, 1.0, -1.0]);
        let s = g.sign();
        if g.rng.chance(1, 2) {
            // y = cy + s*(r+off):  k*y - k*(cy + s*(r+off)) = 0
            g.cl("cl_lattice_axis", cx, cy, r, LS::N(0.0, k, -k * (cy + s * (r + off))));
        } else {
            g.cl("cl_lattice_axis", cx, cy, r, LS::N(k, 0.0, -k * (cx + s * (r + off))));
        }
    }
    // lattice circles whose centre distance is an integer: TouchOutside / TouchInside exactly, and neighbours
    for _ in 0..(3000 * scale) {
        let &(dx, dy, n) = g.rng.pick(&PYTH);
        let m = g.rng.range_i64(1, (2 * b) / (dx.max(dy)).max(1)).max(1);
        let (dx, dy, d) = (dx * m * g.sign() as i64, dy * m * g.sign() as i64, n * m);
        let (ax, ay) = (g.rng.range_i64(-b, b), g.rng.range_i64(-b, b));
        let (bx, by) = (ax + dx, ay + dy);
        if bx.abs() > b || by.abs() > b {
            continue;
        }
        let off = *g.rng.pick(&[0i64, 0, 0, 1, -1]);
        let (ar, br);
        if g.rng.chance(1, 2) {
            // outside: ar + br = d + off
            if d + off < 2 {
                continue;
            }
            ar = g.rng.range_i64(1, d + off - 1);
            br = d + off - ar;
        } else {
            // inside: |ar - br| = d + off
            let small = g.rng.range_i64(1, b);
            let big = small + d + off;
            if g.rng.chance(1, 2) {
                ar = big;
                br = small;
            } else {
                ar = small;
                br = big;
            }
        }
        if ar < 1 || br < 1 || ar > 2 * b || br > 2 * b {
            continue;
        }
        let fam = if off == 0 { "cc_lattice_tangent" } else { "cc_lattice_near_tangent" };
        g.cc(fam, (ax as f64, ay as f64, ar as f64), (bx as f64, by as f64, br as f64));
    }

    // ---- (iii) random lattice configurations
    for _ in 0..(4000 * scale) {
        let l = loop {
            let (ux, uy, vx, vy) = (g.int(-b, b), g.int(-b, b), g.int(-b, b), g.int(-b, b));
            if (ux, uy) != (vx, vy) {
                break LS::B(ux, uy, vx, vy);
            }
        };
        let (cx, cy, r) = (g.int(-b, b), g.int(-b, b), g.int(1, b));
        g.cl("cl_lattice_random", cx, cy, r, l);
    }
    for _ in 0..(4000 * scale) {
        let a = (g.int(-b, b), g.int(-b, b), g.int(1, b));
        let c = if g.rng.chance(1, 10) { (a.0, a.1, g.int(1, b)) } else { (g.int(-b, b), g.int(-b, b), g.int(1, b)) };
        let c = if g.rng.chance(1, 40) { a } else { c };
        g.cc("cc_lattice_random", a, c);
    }
    for _ in 0..(2500 * scale) {
        let mk = |g: &mut Gen| loop {
            if g.rng.chance(1, 4) {
                let (a, bb, c) = (g.int(-b, b), g.int(-b, b), g.int(-b, b));
                if a != 0.0 || bb != 0.0 {
                    break (LS::N(a, bb, c), (a, bb));
                }
            } else {
                let (ux, uy, vx, vy) = (g.int(-b, b), g.int(-b, b), g.int(-b, b), g.int(-b, b));
                if (ux, uy) != (vx, vy) {
                    break (LS::B(ux, uy, vx, vy), (uy - vy, vx - ux));
                }
            }
        };
        let (u, nu) = mk(&mut g);
        let v = if g.rng.chance(1, 3) {
            // exactly parallel: same normal direction scaled, other offset
            let k = g.int(1, 3) * g.sign();
            let lim = if nu.0.abs().max(nu.1.abs()) * 3.0 <= 60.0 { 1.0 } else { 0.0 };
            let k = if lim == 1.0 { k } else { g.sign() };
            LS::N(nu.0 * k, nu.1 * k, g.int(-b, b))
        } else {
            mk(&mut g).0
        };
        g.ll("ll_lattice", u, v);
    }
    for _ in 0..(2500 * scale) {
        // Pythagorean border points and their neighbours
        let &(dx, dy, n) = g.rng.pick(&PYTH);
        let m = g.rng.range_i64(1, 2);
        let (cx, cy) = (g.int(-b, b), g.int(-b, b));
        let off = *g.rng.pick(&[0.0, 0.0, 1.0, -1.0]);
        let p = (cx + (dx * m) as f64 * g.sign(), cy + (dy * m) as f64 * g.sign());
        g.pos("pos_lattice_border", (cx, cy, (n * m) as f64 + off), p);
        let q = (g.int(-b, b), g.int(-b, b));
        let rr = g.int(1, b);
        g.pos("pos_lattice_random", (cx, cy, rr), q);
    }
    for _ in 0..(2500 * scale) {
        let (ux, uy) = (g.int(-b, b), g.int(-b, b));
        let (dx, dy) = loop {
            let d = (g.int(-7, 7), g.int(-7, 7));
            if d != (0.0, 0.0) {
                break d;
            }
        };
        let l = LS::B(ux, uy, ux + dx, uy + dy);
        let k = g.int(-4, 4);
        let off = *g.rng.pick(&[(0.0, 0.0), (0.0, 0.0), (1.0, 0.0), (0.0, -1.0)]);
        g.con("con_lattice", l, (ux + k * dx + off.0, uy + k * dy + off.1));
        g.ln("ln_lattice", l);
        let (a, bb, c) = (g.int(-b, b), g.int(-b, b), g.int(-60, 60));
        if a != 0.0 || bb != 0.0 {
            g.ln("ln_lattice", LS::N(a, bb, c));
        }
    }

    // ---- (iv) real-valued configurations, coordinates up to 1e3, well-separated defining points
    for _ in 0..(5000 * scale) {
        let l = g.rand_line(1000.0);
        let lim = *g.rng.pick(&[1000.0, 1000.0, 100.0, 10.0]);
        let (cx, cy) = (g.unif(-lim, lim), g.unif(-lim, lim));
        // radius around the distance to the line half of the time, so that both kinds are common
        let d = l.dist_to(cx, cy);
        let r = if g.rng.chance(1, 2) && d > 0.2 && d < 900.0 { (d * g.unif(0.5, 1.6)).clamp(0.1, 1000.0) } else { g.logunif(0.1, 1000.0) };
        g.cl("cl_real_random", cx, cy, r, l);
    }
    for _ in 0..(5000 * scale) {
        let lim = *g.rng.pick(&[1000.0, 1000.0, 100.0, 10.0]);
        let a = (g.unif(-lim, lim), g.unif(-lim, lim));
        let c = (g.unif(-lim, lim), g.unif(-lim, lim));
        let d = (a.0 - c.0).hypot(a.1 - c.1);
        if d < 0.15 {
            continue;
        }
        let ra = g.logunif(0.1, 1000.0);
        let rb = if g.rng.chance(2, 3) {
            // make |ra - rb| < d < ra + rb likely
            (d * g.unif(0.3, 1.7) - ra).abs().clamp(0.1, 1000.0)
        } else {
            g.logunif(0.1, 1000.0)
        };
        g.cc("cc_real_random", (a.0, a.1, ra), (c.0, c.1, rb));
    }
    for _ in 0..(3000 * scale) {
        let (u, v) = (g.rand_line(1000.0), g.rand_line(1000.0));
        g.ll("ll_real_random", u, v);
        let c = (g.unif(-1000.0, 1000.0), g.unif(-1000.0, 1000.0), g.logunif(0.1, 1000.0));
        let p = (g.unif(-1000.0, 1000.0), g.unif(-1000.0, 1000.0));
        g.pos("pos_real_random", c, p);
        g.con("con_real_random", u, p);
        g.ln("ln_real", v);
    }

    // ---- (v) constructed tangencies / borders at arbitrary positions and rotations, swept through the band
    for _ in 0..(5000 * scale) {
        let (cx, cy) = (g.unif(-400.0, 400.0), g.unif(-400.0, 400.0));
        let r = g.logunif(0.1, 300.0);
        let th = g.unif(0.0, std::f64::consts::TAU);
        let delta = *g.rng.pick(&DELTAS) * g.sign();
        let (tx, ty) = (cx + (r + delta) * th.cos(), cy + (r + delta) * th.sin());
        let s1 = g.unif(-150.0, 150.0);
        let s2 = s1 + g.unif(1.5, 100.0) * g.sign();
        let (dx, dy) = (-th.sin(), th.cos());
        let l = if g.rng.chance(3, 4) {
            LS::B(tx + s1 * dx, ty + s1 * dy, tx + s2 * dx, ty + s2 * dy)
        } else {
            let k = g.logunif(0.01, 900.0) * g.sign();
            LS::N(k * th.cos(), k * th.sin(), -k * (th.cos() * tx + th.sin() * ty))
        };
        g.cl(&format!("cl_tangent_d{:e}", delta.abs()), cx, cy, r, l);
    }
    for _ in 0..(5000 * scale) {
        let (ax, ay) = (g.unif(-400.0, 400.0), g.unif(-400.0, 400.0));
        let big = g.logunif(0.2, 300.0);
        let small = big / g.logunif(1.0, (big / 0.1).min(8.0));
        let th = g.unif(0.0, std::f64::consts::TAU);
        let delta = *g.rng.pick(&DELTAS) * g.sign();
        let outside = g.rng.chance(1, 2);
        let d = if outside { big + small + delta } else { big - small + delta };
        if d < 0.15 {
            continue;
        }
        let (bx, by) = (ax + d * th.cos(), ay + d * th.sin());
        if bx.abs() > 1000.0 || by.abs() > 1000.0 {
            continue;
        }
        let fam = format!("cc_tangent_{}_d{:e}", if outside { "out" } else { "in" }, delta.abs());
        if g.rng.chance(1, 2) {
            g.cc(&fam, (ax, ay, big), (bx, by, small));
        } else {
            g.cc(&fam, (bx, by, small), (ax, ay, big));
        }
    }
    // circles of very different radii (ratio up to 10^4) crossing close to tangency: the configuration in which
    // the radical-line route of the old intersect_cc (before 883c692) returned a single inaccurate touch point
    for _ in 0..(4000 * scale) {
        let big = g.logunif(5.0, 1000.0);
        let small = g.logunif(0.1, big / 8.0);
        let (ax, ay) = (g.unif(-400.0, 400.0), g.unif(-400.0, 400.0));
        let th = if g.rng.chance(1, 4) { 0.0 } else { g.unif(0.0, std::f64::consts::TAU) };
        let outside = g.rng.chance(1, 2);
        let d0 = if outside { big + small } else { big - small };
        // offsets into the crossing region: fixed sweep, or scaled by the amplification d/s of the old defect
        let delta = if g.rng.chance(1, 2) {
            *g.rng.pick(&DELTAS)
        } else {
            1e-9 * d0 / small * *g.rng.pick(&[0.1, 0.5, 0.9, 2.0, 10.0])
        };
        let d = if outside { d0 - delta } else { d0 + delta };
        let (bx, by) = (ax + d * th.cos(), ay + d * th.sin());
        if bx.abs() > 1000.0 || by.abs() > 1000.0 || d < 0.15 {
            continue;
        }
        let fam = format!("cc_ratio_{}", if outside { "out" } else { "in" });
        if g.rng.chance(1, 2) {
            g.cc(&fam, (ax, ay, big), (bx, by, small));
        } else {
            g.cc(&fam, (bx, by, small), (ax, ay, big));
        }
    }
    for _ in 0..(2500 * scale) {
        // near-parallel lines
        let u = g.rand_line(500.0);
        if let LS::B(ux, uy, vx, vy) = u {
            let ang = *g.rng.pick(&[0.0, 1e-14, 1e-11, 5e-10, 1.1e-9, 2e-9, 4e-9, 8e-9, 1.2e-8, 1e-6, 1e-4, 1e-3, 3e-2]) * g.sign();
            let (dx, dy) = (vx - ux, vy - uy);
            let (ex, ey) = (dx * ang.cos() - dy * ang.sin(), dx * ang.sin() + dy * ang.cos());
            let (ox, oy) = (g.unif(-300.0, 300.0), g.unif(-300.0, 300.0));
            if (ox + ex).abs() <= 1000.0 && (oy + ey).abs() <= 1000.0 {
                g.ll(&format!("ll_near_parallel_a{:e}", ang.abs()), u, LS::B(ox, oy, ox + ex, oy + ey));
            }
        }
        // near-border points, relative offsets
        let c = (g.unif(-400.0, 400.0), g.unif(-400.0, 400.0), g.logunif(0.1, 300.0));
        let th = g.unif(0.0, std::f64::consts::TAU);
        let rel = *g.rng.pick(&DELTAS) * g.sign();
        let rr = c.2 * (1.0 + rel);
        g.pos(&format!("pos_near_border_rel{:e}", rel.abs()), c, (c.0 + rr * th.cos(), c.1 + rr * th.sin()));
        // points near a line
        let l = g.rand_line(500.0);
        if let LS::B(ux, uy, vx, vy) = l {
            let t = g.unif(-0.5, 1.5);
            let off = *g.rng.pick(&DELTAS) * g.sign();
            let (dx, dy) = (vx - ux, vy - uy);
            let k = dx.hypot(dy);
            let p = (ux + t * dx - off * dy / k, uy + t * dy + off * dx / k);
            if p.0.abs() <= 1000.0 && p.1.abs() <= 1000.0 {
                g.con(&format!("con_near_d{:e}", off.abs()), l, p);
            }
        }
    }

    // concentric and nearly concentric circles around the `Same` / `TouchInside` / `None` decisions: d = 0 exactly (in
    // the domain) with radius differences of 0 … 10 EPS incl. one ulp either side of EPS (the 542ea35 corner: radii
    // 0.5 and fl(0.5+1e-9) gave a NaN touch point), and tiny d (outside the accuracy domain, still compared with the model)
    for _ in 0..(1500 * scale) {
        let r = *g.rng.pick(&[0.125, 0.5, 1.0, 3.0, 10.0, 100.0, 777.0]) * if g.rng.chance(1, 3) { g.unif(0.9, 1.1) } else { 1.0 };
        let k = *g.rng.pick(&[0.0, 0.5, 0.9, 0.999, 1.0, 1.001, 1.1, 2.0, 5.0, 10.0]);
        let mut r2 = r + k * 1e-9;
        match g.rng.below(4) {
            0 => r2 = f64::from_bits(r2.to_bits() + 1),
            1 => r2 = f64::from_bits(r2.to_bits() - 1),
            _ => {}
        }
        let (cx, cy) = if g.rng.chance(1, 2) { (g.int(-30, 30), g.int(-30, 30)) } else { (g.unif(-900.0, 900.0), g.unif(-900.0, 900.0)) };
        let tiny = *g.rng.pick(&[0.0, 0.0, 0.0, 1e-300, 1e-12, 5e-10, 1e-9, 2e-9, 1e-6]);
        let th = g.unif(0.0, std::f64::consts::TAU);
        let (bx, by) = (cx + tiny * th.cos(), cy + tiny * th.sin());
        let fam = if (bx, by) == (cx, cy) { "cc_concentric" } else { "cc_near_concentric" };
        if g.rng.chance(1, 2) {
            g.cc(fam, (cx, cy, r), (bx, by, r2));
        } else {
            g.cc(fam, (bx, by, r2), (cx, cy, r));
        }
    }

    // ---- (v-b) nearly degenerate but in-domain configurations (wave 3, class F)
    let tau = std::f64::consts::TAU;
    // lines that are almost (or exactly, incl. a coefficient -0.0) parallel to a coordinate axis, far from the origin, met by a
    // second line at a moderate angle in a point with large coordinates; each in both argument orders.  A pivot / back-
    // substitution through a tiny coefficient (seeded C10_m8: |b| ~ 1e-9 .. 1e-6, crossing at |x| of some hundreds) is off the
    // other line by far more than 1e-7 here, Cramer's rule is accurate to ~1e-12.
    for _ in 0..(1800 * scale) {
        let vertical = g.rng.chance(1, 2);
        let steep = g.near_axis_line(vertical);
        // a point of the steep line with large coordinates, and a second line through (about) it
        let (along, across) = (g.unif(-900.0, 900.0), steep.1);
        let p = if vertical { (across + steep.2 * along, along) } else { (along, across + steep.2 * along) };
        let other = match g.rng.below(8) {
            0 => g.rand_line(1000.0),
            1 => g.near_axis_line(!vertical).0,
            _ => {
                // direction at an angle of at least ~1e-3 .. pi/2 to the steep line
                let base = if vertical { tau / 4.0 } else { 0.0 };
                let ang = base + g.sign() * if g.rng.chance(1, 4) { g.logunif(1e-3, 1.5) } else { g.unif(0.05, 1.5) };
                let (dx, dy) = (ang.cos(), ang.sin());
                let t1 = g.unif(-300.0, 300.0);
                let t2 = t1 + g.sign() * g.unif(1.5, 300.0);
                let q = |t: f64| ((p.0 + t * dx).clamp(-1000.0, 1000.0), (p.1 + t * dy).clamp(-1000.0, 1000.0));
                let (q1, q2) = (q(t1), q(t2));
                if (q1.0 - q2.0).hypot(q1.1 - q2.1) < 1.5 {
                    g.rand_line(1000.0)
                } else if g.rng.chance(3, 4) {
                    LS::B(q1.0, q1.1, q2.0, q2.1)
                } else {
                    let k = g.logunif(0.01, 900.0) * g.sign();
                    LS::N(-k * dy, k * dx, k * (dy * p.0 - dx * p.1))
                }
            }
        };
        let fam = format!("ll_axis_{}", if vertical { "v" } else { "h" });
        if g.rng.chance(1, 2) {
            g.ll(&fam, steep.0, other);
        } else {
            g.ll(&fam, other, steep.0);
        }
        // the same steep line against a circle: tangent sweep or a random radius
        if g.rng.chance(1, 2) {
            let dist = g.logunif(0.2, 900.0);
            let side = g.sign();
            // centre at (approximately) distance `dist` from the steep line, next to the point p
            let c = if vertical { (p.0 + side * dist, p.1) } else { (p.0, p.1 + side * dist) };
            if c.0.abs() <= 1000.0 && c.1.abs() <= 1000.0 {
                let d = steep.0.dist_to(c.0, c.1);
                let r = if g.rng.chance(1, 2) { d + *g.rng.pick(&DELTAS) * g.sign() } else { d * g.unif(0.6, 1.5) };
                if (0.1..=1000.0).contains(&r) {
                    g.cl(&format!("cl_axis_{}", if vertical { "v" } else { "h" }), c.0, c.1, r, steep.0);
                }
            }
            let shift = g.unif(-1.0, 1.0) * *g.rng.pick(&DELTAS);
            g.con("con_axis", steep.0, (p.0 + shift, p.1));
            g.ln("ln_axis", steep.0);
        }
    }
    // lines whose defining points are (almost) exactly a "round" distance apart / Line::new with an (almost) normalised
    // normal, and circles whose centre is up to ~1000 from the line.  The stored normal must be a unit vector to ~1e-16: a
    // relative error e in it moves the foot point by e * distance (seeded C10_m10: normalisation skipped when |a^2+b^2-1| < EPS,
    // i.e. e up to 5e-10: kind wrong 100 tolerances from tangency, points 2e-7 off the line at distance 400+).
    for _ in 0..(2500 * scale) {
        let th = match g.rng.below(6) {
            0 => (g.rng.below(4) as f64) * tau / 4.0,
            1 => {
                let &(dx, dy, _) = g.rng.pick(&PYTH);
                (dy as f64 * g.sign()).atan2(dx as f64 * g.sign())
            }
            _ => g.unif(0.0, tau),
        };
        let (dx, dy) = match g.rng.below(8) {
            // exactly axis-parallel directions (cos/sin of k*pi/2 are not exact)
            0 => *g.rng.pick(&[(1.0, 0.0), (0.0, 1.0), (-1.0, 0.0), (0.0, -1.0)]),
            _ => (th.cos(), th.sin()),
        };
        let special = g.rng.chance(3, 4);
        let rel = if special {
            *g.rng.pick(&[0.0, 1e-15, 1e-13, 1e-12, 1e-11, 1e-10, 2e-10, 3e-10, 4e-10, 4.9e-10, 5.1e-10, 7e-10, 1e-9, 3e-9, 1e-8, 1e-6])
        } else {
            0.0
        };
        let u = if g.rng.chance(1, 3) { (g.int(-600, 600), g.int(-600, 600)) } else { (g.unif(-600.0, 600.0), g.unif(-600.0, 600.0)) };
        let use_new = g.rng.chance(1, 3);
        let l = if use_new {
            // Line::new with |(a, b)| = base * (1 +- rel): both signs are inside the domain
            let base = if special { *g.rng.pick(&[1.0, 1.0, 1.0, 1.0, 0.5, 2.0, 0.125, 10.0, 100.0]) } else { g.logunif(0.01, 900.0) };
            let k = base * (1.0 + rel * g.sign()) * g.sign();
            // normal (-dy, dx), through u
            LS::N(-k * dy, k * dx, k * (dy * u.0 - dx * u.1))
        } else {
            // Line::between with |u - v| = base * (1 + rel) (the domain wants >= 1)
            let base = if special { *g.rng.pick(&[1.0, 1.0, 1.0, 1.0, 2.0, 4.0, 10.0]) } else { g.unif(1.5, 300.0) };
            let s = base * (1.0 + rel);
            let v = (u.0 + s * dx, u.1 + s * dy);
            if g.rng.chance(1, 2) {
                LS::B(u.0, u.1, v.0, v.1)
            } else {
                LS::B(v.0, v.1, u.0, u.1)
            }
        };
        // far centre: foot point u + t*dir, distance D on either side
        let mut placed = None;
        for _ in 0..6 {
            let t = g.unif(-400.0, 400.0);
            let dd = g.logunif(20.0, 1300.0);
            let sd = g.sign();
            let c = (u.0 + t * dx - sd * dd * dy, u.1 + t * dy + sd * dd * dx);
            if c.0.abs() <= 1000.0 && c.1.abs() <= 1000.0 {
                placed = Some((c, t));
                break;
            }
        }
        let fam_l = if !special { "far_generic" } else if use_new { "far_unit_normal" } else { "far_round_spacing" };
        if let Some((c, t)) = placed {
            let d = l.dist_to(c.0, c.1);
            let r = match g.rng.below(4) {
                0 | 1 => d + *g.rng.pick(&DELTAS) * g.sign(),
                2 => d * g.unif(1.0001, 1.3),
                _ => d * g.unif(0.5, 1.05),
            };
            if (0.1..=1000.0).contains(&r) {
                g.cl(&format!("cl_{}", fam_l), c.0, c.1, r, l);
            }
            // a far point of the line (and points a few tolerances off it)
            let off = *g.rng.pick(&DELTAS) * g.sign();
            let far = (u.0 + 2.0 * t * dx - off * dy, u.1 + 2.0 * t * dy + off * dx);
            if far.0.abs() <= 1000.0 && far.1.abs() <= 1000.0 && g.rng.chance(1, 2) {
                g.con(&format!("con_{}", fam_l), l, far);
            }
        }
        if g.rng.chance(1, 3) {
            g.ln(&format!("ln_{}", fam_l), l);
            let w = g.rand_line(1000.0);
            if g.rng.chance(1, 2) {
                g.ll(&format!("ll_{}", fam_l), l, w);
            } else {
                g.ll(&format!("ll_{}", fam_l), w, l);
            }
        }
    }

    // ---- (v-c) the point algebra itself (operators in all operand forms, slen/len/dp/cp, From, Debug, Show, Clone, Default, PartialEq)
    for _ in 0..(1500 * scale) {
        let coord = |g: &mut Gen| match g.rng.below(8) {
            0 => g.int(-30, 30),
            1 => *g.rng.pick(&[0.0, -0.0, 1.0, -1.0, 0.5, 1000.0, -1000.0, 1e-6]),
            2 => g.logunif(1e-6, 1e3) * g.sign(),
            _ => g.unif(-1000.0, 1000.0),
        };
        let p = (coord(&mut g), coord(&mut g));
        let q = match g.rng.below(6) {
            0 => p,
            1 => (p.1, -p.0),
            2 => (p.0 * (1.0 + 1e-15), p.1),
            _ => (coord(&mut g), coord(&mut g)),
        };
        let k = match g.rng.below(4) {
            0 => *g.rng.pick(&[1.0, -1.0, 2.0, 0.5, 3.0, 10.0, 0.1, 1000.0, 0.001]),
            _ => g.logunif(1e-3, 1e3) * g.sign(),
        };
        g.pt("pt", p, q, k);
    }

    // ---- (vi) small out-of-domain stream (the property does not constrain these: S = any)
    for _ in 0..(300 * scale) {
        let l = LS::B(g.unif(-1.0, 1.0), g.unif(-1.0, 1.0), g.unif(-1.0, 1.0), g.unif(-1.0, 1.0));
        let (ox, oy, or) = (g.unif(-1e3, 1e3), g.unif(-1e3, 1e3), g.logunif(1e-3, 1e3));
        g.cl("ood_close_defining_points", ox, oy, or, l);
        let a = (g.unif(-1e6, 1e6), g.unif(-1e6, 1e6), g.logunif(1e-6, 1e6));
        let c = (a.0 + g.unif(-1e-3, 1e-3), a.1 + g.unif(-1e-3, 1e-3), a.2 * (1.0 + g.unif(-1e-9, 1e-9)));
        g.cc("ood_near_concentric", a, c);
        let oc = g.int(-3, 3);
        g.ln("ood_degenerate_line", LS::N(0.0, 0.0, oc));
        let big = g.logunif(1e3, 1e150) * g.sign();
        let kz = *g.rng.pick(&[0.0, 1e-200, 1e200]);
        let (s1, s2) = (g.unif(-1.0, 1.0), g.unif(-1.0, 1.0));
        g.pt("ood_pt", (big, s1), (s2, big), kz);
    }
}

fn main() {
    cli(gen, run_case);
}
