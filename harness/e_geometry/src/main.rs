//! Correspondence harness for engine `geometry` (property C10): drives
//! rlib_geometry::{line::Line, circle::Circle, util::{parallel, intersect_ll, intersect_cl, intersect_cc}}.
//!
//! Case lines (see lean/Driver/Geometry.lean for the grammar).  Numbers are decimal integers or
//! `h` + 16 hex digits of the f64 bit pattern, so model and implementation get exactly the same inputs.
//!
//! raw  = reported kind + number of points (coordinates are not compared with the model: a numerically harmless rewrite
//!        moves them by rounding noise); with the case prefix `bits`: kind + full f64 bit patterns (logged diagnostics only)
//! view = mode K: reported kind (for small-integer configurations additionally cross-checked against the
//!                kind decided here in exact i128 arithmetic: `X!=exact:Y` on disagreement)
//!        mode P: `ok` iff every point the IMPLEMENTATION returned is within 1e-7 of both primitives, decided in exact
//!                dyadic arithmetic (src/exact.rs) against the *defining* data (two points / coefficients / centre+radius),
//!                not the normalised `Line`; plus `iter-mismatch` if `into_iter()` does not report the same points
#[path = "../../common/mod.rs"]
mod common;
mod exact;
use common::*;
use rlib_geometry::{
    circle::{Circle, PointPosition},
    line::Line,
    point::Point,
    util::{intersect_cc, intersect_cl, intersect_ll, parallel, CircleIntersection, CircleLineIntersection, EPS},
};

const TOL: f64 = 1e-7;
/// small-integer ("lattice") configurations: the kind is decided exactly below and is never inside the band
const LATTICE_MAX: i128 = 64;

// ------------------------------------------------------------------------------------------------
// numbers and line specifications
// ------------------------------------------------------------------------------------------------

fn tok(v: f64) -> String {
    if v.is_finite() && v.fract() == 0.0 && v.abs() < 1e9 && !(v == 0.0 && v.is_sign_negative()) {
        format!("{}", v as i64)
    } else {
        format!("h{:016x}", v.to_bits())
    }
}

fn parse_num(t: &str) -> Option<f64> {
    if let Some(h) = t.strip_prefix('h') {
        u64::from_str_radix(h, 16).ok().map(f64::from_bits)
    } else {
        t.parse::<i64>().ok().map(|z| z as f64)
    }
}

fn as_int(t: &str) -> Option<i128> {
    if t.starts_with('h') {
        None
    } else {
        t.parse::<i128>().ok().filter(|z| z.abs() <= LATTICE_MAX)
    }
}

/// set per case: `bits` prefix => raw carries coordinates as full bit patterns (diagnostics), else kind + count only
static FULL_BITS: std::sync::atomic::AtomicBool = std::sync::atomic::AtomicBool::new(false);

fn full_bits() -> bool {
    FULL_BITS.load(std::sync::atomic::Ordering::Relaxed)
}

fn show_num(v: f64) -> String {
    if v.is_nan() {
        "nan".into()
    } else {
        format!("{:016x}", v.to_bits())
    }
}

/// raw result: kind + number of points, or (diagnostic mode) kind + bit patterns
fn show_pts(kind: &str, pts: &[Point]) -> String {
    if full_bits() {
        let mut raw = kind.to_string();
        for p in pts {
            raw.push(' ');
            raw.push_str(&show_point(p));
        }
        raw
    } else {
        format!("{} {}", kind, pts.len())
    }
}

fn show_point(p: &Point) -> String {
    format!("{} {}", show_num(p.x), show_num(p.y))
}

#[derive(Clone, Copy, Debug)]
enum LS {
    B(f64, f64, f64, f64),
    N(f64, f64, f64),
}

impl LS {
    fn toks(&self) -> String {
        match *self {
            LS::B(a, b, c, d) => format!("B {} {} {} {}", tok(a), tok(b), tok(c), tok(d)),
            LS::N(a, b, c) => format!("N {} {} {}", tok(a), tok(b), tok(c)),
        }
    }
    fn build(&self) -> Line {
        match *self {
            LS::B(ux, uy, vx, vy) => Line::between(&Point::new(ux, uy), &Point::new(vx, vy)),
            LS::N(a, b, c) => Line::new(a, b, c),
        }
    }
    /// distance from (px, py) to the line, from the defining data
    fn dist_to(&self, px: f64, py: f64) -> f64 {
        match *self {
            LS::B(ux, uy, vx, vy) => {
                let (dx, dy) = (vx - ux, vy - uy);
                ((dx * (py - uy) - dy * (px - ux)) / dx.hypot(dy)).abs()
            }
            LS::N(a, b, c) => ((a * px + b * py + c) / a.hypot(b)).abs(),
        }
    }
}

/// exact integer coefficients (A, B, C) of a line given by small integers
fn line_ints(kind: &str, t: &[&str]) -> Option<(i128, i128, i128)> {
    if kind == "B" {
        let (ux, uy, vx, vy) = (as_int(t[0])?, as_int(t[1])?, as_int(t[2])?, as_int(t[3])?);
        let a = uy - vy;
        let b = vx - ux;
        Some((a, b, -(a * ux + b * uy)))
    } else {
        Some((as_int(t[0])?, as_int(t[1])?, as_int(t[2])?))
    }
}

/// parse `<L>` at position i; returns the spec, its exact integer form (if lattice) and the next position
fn parse_line(t: &[&str], i: usize) -> Option<(LS, Option<(i128, i128, i128)>, usize)> {
    match *t.get(i)? {
        "B" => {
            if t.len() < i + 5 {
                return None;
            }
            let ls = LS::B(parse_num(t[i + 1])?, parse_num(t[i + 2])?, parse_num(t[i + 3])?, parse_num(t[i + 4])?);
            Some((ls, line_ints("B", &t[i + 1..i + 5]), i + 5))
        }
        "N" => {
            if t.len() < i + 4 {
                return None;
            }
            let ls = LS::N(parse_num(t[i + 1])?, parse_num(t[i + 2])?, parse_num(t[i + 3])?);
            Some((ls, line_ints("N", &t[i + 1..i + 4]), i + 4))
        }
        _ => None,
    }
}

// ------------------------------------------------------------------------------------------------
// exact kinds of small-integer configurations (i128, no rounding anywhere)
// ------------------------------------------------------------------------------------------------

fn exact_cl(cx: i128, cy: i128, r: i128, l: (i128, i128, i128)) -> Option<&'static str> {
    let n2 = l.0 * l.0 + l.1 * l.1;
    if n2 == 0 || r <= 0 {
        return None;
    }
    let s = l.0 * cx + l.1 * cy + l.2;
    let (lhs, rhs) = (s * s, r * r * n2);
    Some(if lhs > rhs {
        "None"
    } else if lhs == rhs {
        "Touch"
    } else {
        "Intersect"
    })
}

fn exact_cc(ax: i128, ay: i128, ar: i128, bx: i128, by: i128, br: i128) -> Option<&'static str> {
    if ar <= 0 || br <= 0 {
        return None;
    }
    let d2 = (ax - bx) * (ax - bx) + (ay - by) * (ay - by);
    let (big, small) = if ar < br { (br, ar) } else { (ar, br) };
    let (sum2, dif2) = ((big + small) * (big + small), (big - small) * (big - small));
    Some(if d2 == 0 && big == small {
        "Same"
    } else if d2 > sum2 {
        "None"
    } else if d2 == sum2 {
        "TouchOutside"
    } else if d2 > dif2 {
        "Intersect"
    } else if d2 == dif2 {
        "TouchInside"
    } else {
        "None"
    })
}

fn cross_check(reported: &str, exact: Option<&'static str>) -> String {
    match exact {
        Some(e) if e != reported => format!("{}!=exact:{}", reported, e),
        _ => reported.to_string(),
    }
}

// ------------------------------------------------------------------------------------------------
// run
// ------------------------------------------------------------------------------------------------

/// exact where possible (always, inside the property's domain); f64 only for absurd magnitudes
fn near_circle(cx: f64, cy: f64, r: f64, p: &Point) -> bool {
    match exact::near_circle(cx, cy, r, p.x, p.y) {
        Some(b) => b,
        None => ((p.x - cx).hypot(p.y - cy) - r).abs() <= TOL,
    }
}

fn near_line(ls: &LS, p: &Point) -> bool {
    let l = match *ls {
        LS::B(ux, uy, vx, vy) => exact::line_between(ux, uy, vx, vy),
        LS::N(a, b, c) => exact::line_new(a, b, c),
    };
    match l.and_then(|l| exact::near_line(&l, p.x, p.y)) {
        Some(b) => b,
        None => ls.dist_to(p.x, p.y) <= TOL,
    }
}

fn same_points(a: &[Point], b: &[Point]) -> bool {
    a.len() == b.len() && a.iter().zip(b).all(|(p, q)| p.x.to_bits() == q.x.to_bits() && p.y.to_bits() == q.y.to_bits())
}

/// `ok`, or `off` followed by the offending result's coordinates (bit patterns) so that a replay file shows them
fn ok_off_pts(b: bool, pts: &[Point]) -> String {
    if b {
        "ok".to_string()
    } else {
        let mut s = "off".to_string();
        for p in pts {
            s.push(' ');
            s.push_str(&show_point(p));
        }
        s
    }
}

fn bad() -> String {
    out1("BAD-CASE")
}

fn run_inner(t: &[&str]) -> Option<(String, String)> {
    let op = *t.first()?;
    let has_mode = matches!(op, "cl" | "cc" | "ll");
    let mode = if has_mode { *t.get(1)? } else { "" };
    let base = if has_mode { 2 } else { 1 };
    let eps = parse_num(t.get(base)?)?;
    // the constant extracted from util.rs (handed to the model) must be the constant the crate was compiled with;
    // if not, the raw result is marked (correspondence drift) while the view is still judged against the spec
    let mismatch = eps.to_bits() != EPS.to_bits();
    let a = &t[base + 1..];
    let (raw, view): (String, String) = match op {
        "cl" => {
            if a.len() < 4 {
                return None;
            }
            let (cx, cy, r) = (parse_num(a[0])?, parse_num(a[1])?, parse_num(a[2])?);
            let (ls, li, next) = parse_line(a, 3)?;
            if next != a.len() {
                return None;
            }
            let c = Circle::new(Point::new(cx, cy), r);
            let l = ls.build();
            let res = intersect_cl(&c, &l);
            let (kind, pts): (&str, Vec<Point>) = match res {
                CircleLineIntersection::None => ("None", vec![]),
                CircleLineIntersection::Touch(p) => ("Touch", vec![p]),
                CircleLineIntersection::Intersect(p, q) => ("Intersect", vec![p, q]),
            };
            // the way points are *reported*: `into_iter()` must yield the same points, same count, same order
            let it: Vec<Point> = intersect_cl(&c, &l).into_iter().collect();
            let iter_tag = if same_points(&pts, &it) { "" } else { " iter-mismatch" };
            let raw = show_pts(kind, &pts);
            match mode {
                "K" => {
                    let exact = match (as_int(a[0]), as_int(a[1]), as_int(a[2]), li) {
                        (Some(x), Some(y), Some(rr), Some(l)) => exact_cl(x, y, rr, l),
                        _ => None,
                    };
                    (raw.to_string(), format!("{}{}", cross_check(kind, exact), iter_tag))
                }
                "P" => {
                    let ok = pts.iter().all(|p| near_circle(cx, cy, r, p) && near_line(&ls, p));
                    (raw.to_string(), format!("{}{}", ok_off_pts(ok, &pts), iter_tag))
                }
                _ => return None,
            }
        }
        "cc" => {
            if a.len() != 6 {
                return None;
            }
            let v: Vec<f64> = a.iter().map(|s| parse_num(s)).collect::<Option<Vec<_>>>()?;
            let ca = Circle::new(Point::new(v[0], v[1]), v[2]);
            let cb = Circle::new(Point::new(v[3], v[4]), v[5]);
            let res = intersect_cc(&ca, &cb);
            let (kind, pts): (&str, Vec<Point>) = match res {
                CircleIntersection::None => ("None", vec![]),
                CircleIntersection::Same => ("Same", vec![]),
                CircleIntersection::TouchInside(p) => ("TouchInside", vec![p]),
                CircleIntersection::TouchOutside(p) => ("TouchOutside", vec![p]),
                CircleIntersection::Intersect(p, q) => ("Intersect", vec![p, q]),
            };
            let it: Vec<Point> = res.into_iter().collect();
            let iter_tag = if same_points(&pts, &it) { "" } else { " iter-mismatch" };
            let raw = show_pts(kind, &pts);
            match mode {
                "K" => {
                    let ints: Option<Vec<i128>> = a.iter().map(|s| as_int(s)).collect();
                    let exact = ints.and_then(|z| exact_cc(z[0], z[1], z[2], z[3], z[4], z[5]));
                    (raw.to_string(), format!("{}{}", cross_check(kind, exact), iter_tag))
                }
                "P" => {
                    let ok = pts.iter().all(|p| near_circle(v[0], v[1], v[2], p) && near_circle(v[3], v[4], v[5], p));
                    (raw.to_string(), format!("{}{}", ok_off_pts(ok, &pts), iter_tag))
                }
                _ => return None,
            }
        }
        "ll" => {
            let (u, ui, n1) = parse_line(a, 0)?;
            let (w, wi, n2) = parse_line(a, n1)?;
            if n2 != a.len() {
                return None;
            }
            let (lu, lw) = (u.build(), w.build());
            let par = parallel(&lu, &lw);
            let res = intersect_ll(&lu, &lw);
            let kind = if res.is_some() { "Some" } else { "None" };
            let lpts: Vec<Point> = res.iter().cloned().collect();
            let raw = format!("{} par={}", show_pts(kind, &lpts), par);
            match mode {
                "K" => {
                    let exact = match (ui, wi) {
                        (Some(x), Some(y)) if (x.0 != 0 || x.1 != 0) && (y.0 != 0 || y.1 != 0) => {
                            Some(if x.0 * y.1 - x.1 * y.0 == 0 { "None" } else { "Some" })
                        }
                        _ => None,
                    };
                    (raw.to_string(), cross_check(kind, exact).to_string())
                }
                "P" => {
                    let ok = res.iter().all(|p| near_line(&u, p) && near_line(&w, p));
                    (raw.to_string(), ok_off_pts(ok, &lpts))
                }
                _ => return None,
            }
        }
        "pos" => {
            if a.len() != 5 {
                return None;
            }
            let v: Vec<f64> = a.iter().map(|s| parse_num(s)).collect::<Option<Vec<_>>>()?;
            let c = Circle::new(Point::new(v[0], v[1]), v[2]);
            let kind = match c.position(&Point::new(v[3], v[4])) {
                PointPosition::Inside => "Inside",
                PointPosition::Border => "Border",
                PointPosition::Outside => "Outside",
            };
            let ints: Option<Vec<i128>> = a.iter().map(|s| as_int(s)).collect();
            let exact = ints.and_then(|z| {
                if z[2] <= 0 {
                    return None;
                }
                let d2 = (z[3] - z[0]) * (z[3] - z[0]) + (z[4] - z[1]) * (z[4] - z[1]);
                Some(match d2.cmp(&(z[2] * z[2])) {
                    std::cmp::Ordering::Less => "Inside",
                    std::cmp::Ordering::Equal => "Border",
                    std::cmp::Ordering::Greater => "Outside",
                })
            });
            (kind.to_string(), cross_check(kind, exact).to_string())
        }
        "con" => {
            let (ls, li, n1) = parse_line(a, 0)?;
            if n1 + 2 != a.len() {
                return None;
            }
            let (px, py) = (parse_num(a[n1])?, parse_num(a[n1 + 1])?);
            let l = ls.build();
            let p = Point::new(px, py);
            let res = if l.contains(&p) { "true" } else { "false" };
            let raw = if full_bits() { format!("{} {}", res, show_num(l.dist(&p))) } else { res.to_string() };
            let exact = match (li, as_int(a[n1]), as_int(a[n1 + 1])) {
                (Some(l), Some(x), Some(y)) if l.0 != 0 || l.1 != 0 => {
                    Some(if l.0 * x + l.1 * y + l.2 == 0 { "true" } else { "false" })
                }
                _ => None,
            };
            (raw.to_string(), cross_check(res, exact).to_string())
        }
        "ln" => {
            let (ls, _, n1) = parse_line(a, 0)?;
            if n1 != a.len() {
                return None;
            }
            let l = ls.build();
            let raw = if full_bits() { format!("{} {} {}", show_num(l.a), show_num(l.b), show_num(l.c)) } else { "line".to_string() };
            if l.a.is_nan() || l.b.is_nan() || l.c.is_nan() || l.a.is_infinite() || l.b.is_infinite() || l.c.is_infinite() {
                return Some((raw, "nan".to_string()));
            }
            let unit = (l.a * l.a + l.b * l.b - 1.0).abs() <= 1e-9;
            // two points of the exact line, about one unit apart, must be within 1e-7 of the stored line
            let (p0, p1) = match ls {
                LS::B(ux, uy, vx, vy) => {
                    let (dx, dy) = (vx - ux, vy - uy);
                    let k = dx.hypot(dy);
                    ((ux, uy), (ux + dx / k, uy + dy / k))
                }
                LS::N(a, b, c) => {
                    let n2 = a * a + b * b;
                    let p0 = (-a * c / n2, -b * c / n2);
                    let k = a.hypot(b);
                    (p0, (p0.0 - b / k, p0.1 + a / k))
                }
            };
            let ev = |p: (f64, f64)| (l.a * p.0 + l.b * p.1 + l.c).abs() / l.a.hypot(l.b);
            let on = ev(p0) <= TOL && ev(p1) <= TOL;
            (raw.to_string(), format!("{} {}", if unit { "unit" } else { "nonunit" }, if on { "on" } else { "off" }).to_string())
        }
        _ => return None,
    };
    let raw = if mismatch { format!("{} EPS-MISMATCH:compiled={:016x}", raw, EPS.to_bits()) } else { raw };
    Some((raw, view))
}

fn run_case(line: &str) -> String {
    let mut t: Vec<&str> = line.split_whitespace().collect();
    let full = t.first() == Some(&"bits");
    if full {
        t.remove(0);
    }
    FULL_BITS.store(full, std::sync::atomic::Ordering::Relaxed);
    match catch(|| run_inner(&t)) {
        Ok(Some((raw, view))) => out2(&raw, &view),
        Ok(None) => bad(),
        Err(e) => out1(&e),
    }
}

// ------------------------------------------------------------------------------------------------
// gen
// ------------------------------------------------------------------------------------------------

struct Gen<'a> {
    eps: String,
    emit: &'a mut dyn FnMut(String),
    st: &'a mut Stats,
    rng: SplitMix64,
}

impl<'a> Gen<'a> {
    fn unit(&mut self) -> f64 {
        (self.rng.next_u64() >> 11) as f64 / (1u64 << 53) as f64
    }
    fn unif(&mut self, lo: f64, hi: f64) -> f64 {
        lo + (hi - lo) * self.unit()
    }
    fn logunif(&mut self, lo: f64, hi: f64) -> f64 {
        (lo.ln() + (hi.ln() - lo.ln()) * self.unit()).exp()
    }
    fn int(&mut self, lo: i64, hi: i64) -> f64 {
        self.rng.range_i64(lo, hi) as f64
    }
    fn sign(&mut self) -> f64 {
        if self.rng.chance(1, 2) {
            1.0
        } else {
            -1.0
        }
    }
    fn cl(&mut self, fam: &str, cx: f64, cy: f64, r: f64, l: LS) {
        let body = format!("{} {} {} {} {}", self.eps, tok(cx), tok(cy), tok(r), l.toks());
        (self.emit)(format!("cl K {}", body));
        (self.emit)(format!("cl P {}", body));
        self.st.add(fam, 2);
    }
    fn cc(&mut self, fam: &str, a: (f64, f64, f64), b: (f64, f64, f64)) {
        let body = format!("{} {} {} {} {} {} {}", self.eps, tok(a.0), tok(a.1), tok(a.2), tok(b.0), tok(b.1), tok(b.2));
        (self.emit)(format!("cc K {}", body));
        (self.emit)(format!("cc P {}", body));
        self.st.add(fam, 2);
    }
    fn ll(&mut self, fam: &str, u: LS, v: LS) {
        let body = format!("{} {} {}", self.eps, u.toks(), v.toks());
        (self.emit)(format!("ll K {}", body));
        (self.emit)(format!("ll P {}", body));
        self.st.add(fam, 2);
    }
    fn pos(&mut self, fam: &str, c: (f64, f64, f64), p: (f64, f64)) {
        (self.emit)(format!("pos {} {} {} {} {} {}", self.eps, tok(c.0), tok(c.1), tok(c.2), tok(p.0), tok(p.1)));
        self.st.bump(fam);
    }
    fn con(&mut self, fam: &str, l: LS, p: (f64, f64)) {
        (self.emit)(format!("con {} {} {} {}", self.eps, l.toks(), tok(p.0), tok(p.1)));
        self.st.bump(fam);
    }
    fn ln(&mut self, fam: &str, l: LS) {
        (self.emit)(format!("ln {} {}", self.eps, l.toks()));
        self.st.bump(fam);
    }
    /// random real line through the box, defining points at least 1 apart
    fn rand_line(&mut self, lim: f64) -> LS {
        if self.rng.chance(3, 4) {
            loop {
                let (ux, uy, vx, vy) = (self.unif(-lim, lim), self.unif(-lim, lim), self.unif(-lim, lim), self.unif(-lim, lim));
                if (ux - vx).hypot(uy - vy) >= 1.5 {
                    return LS::B(ux, uy, vx, vy);
                }
            }
        } else {
            // Line::new(a, b, c): direction + scale + offset
            let th = self.unif(0.0, std::f64::consts::TAU);
            let k = self.logunif(0.01, 900.0);
            let off = self.unif(-lim, lim);
            LS::N(k * th.cos(), k * th.sin(), k * off)
        }
    }
}

/// directions with integer length: (dx, dy, n)
const PYTH: [(i64, i64, i64); 12] = [
    (1, 0, 1),
    (0, 1, 1),
    (3, 4, 5),
    (4, 3, 5),
    (5, 12, 13),
    (12, 5, 13),
    (8, 15, 17),
    (15, 8, 17),
    (7, 24, 25),
    (24, 7, 25),
    (20, 21, 29),
    (21, 20, 29),
];

/// offsets from exact tangency / exact border, in absolute units
// (2e-9 … 9e-9 = 2–9 EPS: just outside the property's 1e-9 band, where the kind is already required)
const DELTAS: [f64; 16] = [0.0, 1e-13, 1e-11, 3e-10, 9e-10, 1.1e-9, 2e-9, 3e-9, 5e-9, 9e-9, 1.2e-8, 1e-7, 1e-5, 1e-3, 0.1, 1.02e-9];

fn gen(args: &Args, emit: &mut dyn FnMut(String), st: &mut Stats) {
    let thorough = args.tier == "thorough";
    let eps_tok = match args.extra.get("eps") {
        Some(h) => format!("h{}", h),
        None => format!("h{:016x}", EPS.to_bits()),
    };
    let mut g = Gen { eps: eps_tok, emit, st, rng: SplitMix64::new(args.seed ^ 0xC10) };
    let scale: u64 = if thorough { 25 } else { 1 };
    let b = 30i64;

    // ---- (i) exhaustive small scope: circle at the origin / off-origin, every line through two lattice points
    {
        let (centres, radii, lim): (Vec<(i64, i64)>, Vec<i64>, i64) = if thorough {
            (vec![(0, 0), (1, 2), (-3, 1)], vec![1, 2, 3, 4, 5, 6], 5)
        } else {
            (vec![(0, 0)], vec![1, 2, 5], 3)
        };
        for &(cx, cy) in &centres {
            for &r in &radii {
                for ux in -lim..=lim {
                    for uy in -lim..=lim {
                        for vx in -lim..=lim {
                            for vy in -lim..=lim {
                                if (ux, uy) != (vx, vy) {
                                    g.cl("cl_exhaustive", cx as f64, cy as f64, r as f64, LS::B(ux as f64, uy as f64, vx as f64, vy as f64));
                                }
                            }
                        }
                    }
                }
            }
        }
        // every pair of small circles
        let (clim, rmax) = if thorough { (6i64, 7i64) } else { (4, 5) };
        for ar in 1..=rmax {
            for br in 1..=rmax {
                for bx in -clim..=clim {
                    for by in 0..=clim {
                        g.cc("cc_exhaustive", (0.0, 0.0, ar as f64), (bx as f64, by as f64, br as f64));
                    }
                }
            }
        }
    }

    // ---- (ii) lattice tangencies through Pythagorean directions (exact Touch) and their nearest lattice neighbours
    for _ in 0..(3000 * scale) {
        let &(dx, dy, n) = g.rng.pick(&PYTH);
        let (sx, sy) = (g.sign() as i64, g.sign() as i64);
        let (dx, dy) = (dx * sx, dy * sy);
        let r = g.rng.range_i64(1, b);
        let (cx, cy) = (g.rng.range_i64(-b, b), g.rng.range_i64(-b, b));
        let off = *g.rng.pick(&[0i64, 0, 0, 1, -1]);
        let t = (r * n + off) * (g.sign() as i64);
        // find w = C - P with dx*wy - dy*wx = t
        let mut found = None;
        let start = g.rng.range_i64(-40, 40);
        for k in 0..81 {
            let wx = (start + 40 + k) % 81 - 40;
            if dx != 0 {
                let num = t + dy * wx;
                if num % dx == 0 {
                    let wy = num / dx;
                    let (px, py) = (cx - wx, cy - wy);
                    let m = *g.rng.pick(&[1i64, -1, 2, -2, 3]);
                    let (qx, qy) = (px + m * dx, py + m * dy);
                    if px.abs() <= b && py.abs() <= b && qx.abs() <= b && qy.abs() <= b {
                        found = Some((px, py, qx, qy));
                        break;
                    }
                }
            } else if -dy * wx == t {
                let wy = g.rng.range_i64(-20, 20);
                let (px, py) = (cx - wx, cy - wy);
                let m = *g.rng.pick(&[1i64, -1, 5, -7]);
                let (qx, qy) = (px, py + m * dy);
                if px.abs() <= b && py.abs() <= b && qy.abs() <= b {
                    found = Some((px, py, qx, qy));
                    break;
                }
            }
        }
        if let Some((px, py, qx, qy)) = found {
            let fam = if off == 0 { "cl_lattice_tangent" } else { "cl_lattice_near_tangent" };
            g.cl(fam, cx as f64, cy as f64, r as f64, LS::B(px as f64, py as f64, qx as f64, qy as f64));
        }
    }
    // axis-parallel tangents via Line::new with integer coefficients
    for _ in 0..(600 * scale) {
        let r = g.int(1, b);
        let (cx, cy) = (g.int(-b, b), g.int(-b, b));
        let k = g.int(1, 4) * g.sign();
        let off = *g.rng.pick(&[0.0, 0.0, 1.0, -1.0]);
        let s = g.sign();
        if g.rng.chance(1, 2) {
            // y = cy + s*(r+off):  k*y - k*(cy + s*(r+off)) = 0
            g.cl("cl_lattice_axis", cx, cy, r, LS::N(0.0, k, -k * (cy + s * (r + off))));
        } else {
            g.cl("cl_lattice_axis", cx, cy, r, LS::N(k, 0.0, -k * (cx + s * (r + off))));
        }
    }
    // lattice circles whose centre distance is an integer: TouchOutside / TouchInside exactly, and neighbours
    for _ in 0..(3000 * scale) {
        let &(dx, dy, n) = g.rng.pick(&PYTH);
        let m = g.rng.range_i64(1, (2 * b) / (dx.max(dy)).max(1)).max(1);
        let (dx, dy, d) = (dx * m * g.sign() as i64, dy * m * g.sign() as i64, n * m);
        let (ax, ay) = (g.rng.range_i64(-b, b), g.rng.range_i64(-b, b));
        let (bx, by) = (ax + dx, ay + dy);
        if bx.abs() > b || by.abs() > b {
            continue;
        }
        let off = *g.rng.pick(&[0i64, 0, 0, 1, -1]);
        let (ar, br);
        if g.rng.chance(1, 2) {
            // outside: ar + br = d + off
            if d + off < 2 {
                continue;
            }
            ar = g.rng.range_i64(1, d + off - 1);
            br = d + off - ar;
        } else {
            // inside: |ar - br| = d + off
            let small = g.rng.range_i64(1, b);
            let big = small + d + off;
            if g.rng.chance(1, 2) {
                ar = big;
                br = small;
            } else {
                ar = small;
                br = big;
            }
        }
        if ar < 1 || br < 1 || ar > 2 * b || br > 2 * b {
            continue;
        }
        let fam = if off == 0 { "cc_lattice_tangent" } else { "cc_lattice_near_tangent" };
        g.cc(fam, (ax as f64, ay as f64, ar as f64), (bx as f64, by as f64, br as f64));
    }

    // ---- (iii) random lattice configurations
    for _ in 0..(4000 * scale) {
        let l = loop {
            let (ux, uy, vx, vy) = (g.int(-b, b), g.int(-b, b), g.int(-b, b), g.int(-b, b));
            if (ux, uy) != (vx, vy) {
                break LS::B(ux, uy, vx, vy);
            }
        };
        let (cx, cy, r) = (g.int(-b, b), g.int(-b, b), g.int(1, b));
        g.cl("cl_lattice_random", cx, cy, r, l);
    }
    for _ in 0..(4000 * scale) {
        let a = (g.int(-b, b), g.int(-b, b), g.int(1, b));
        let c = if g.rng.chance(1, 10) { (a.0, a.1, g.int(1, b)) } else { (g.int(-b, b), g.int(-b, b), g.int(1, b)) };
        let c = if g.rng.chance(1, 40) { a } else { c };
        g.cc("cc_lattice_random", a, c);
    }
    for _ in 0..(2500 * scale) {
        let mk = |g: &mut Gen| loop {
            if g.rng.chance(1, 4) {
                let (a, bb, c) = (g.int(-b, b), g.int(-b, b), g.int(-b, b));
                if a != 0.0 || bb != 0.0 {
                    break (LS::N(a, bb, c), (a, bb));
                }
            } else {
                let (ux, uy, vx, vy) = (g.int(-b, b), g.int(-b, b), g.int(-b, b), g.int(-b, b));
                if (ux, uy) != (vx, vy) {
                    break (LS::B(ux, uy, vx, vy), (uy - vy, vx - ux));
                }
            }
        };
        let (u, nu) = mk(&mut g);
        let v = if g.rng.chance(1, 3) {
            // exactly parallel: same normal direction scaled, other offset
            let k = g.int(1, 3) * g.sign();
            let lim = if nu.0.abs().max(nu.1.abs()) * 3.0 <= 60.0 { 1.0 } else { 0.0 };
            let k = if lim == 1.0 { k } else { g.sign() };
            LS::N(nu.0 * k, nu.1 * k, g.int(-b, b))
        } else {
            mk(&mut g).0
        };
        g.ll("ll_lattice", u, v);
    }
    for _ in 0..(2500 * scale) {
        // Pythagorean border points and their neighbours
        let &(dx, dy, n) = g.rng.pick(&PYTH);
        let m = g.rng.range_i64(1, 2);
        let (cx, cy) = (g.int(-b, b), g.int(-b, b));
        let off = *g.rng.pick(&[0.0, 0.0, 1.0, -1.0]);
        let p = (cx + (dx * m) as f64 * g.sign(), cy + (dy * m) as f64 * g.sign());
        g.pos("pos_lattice_border", (cx, cy, (n * m) as f64 + off), p);
        let q = (g.int(-b, b), g.int(-b, b));
        let rr = g.int(1, b);
        g.pos("pos_lattice_random", (cx, cy, rr), q);
    }
    for _ in 0..(2500 * scale) {
        let (ux, uy) = (g.int(-b, b), g.int(-b, b));
        let (dx, dy) = loop {
            let d = (g.int(-7, 7), g.int(-7, 7));
            if d != (0.0, 0.0) {
                break d;
            }
        };
        let l = LS::B(ux, uy, ux + dx, uy + dy);
        let k = g.int(-4, 4);
        let off = *g.rng.pick(&[(0.0, 0.0), (0.0, 0.0), (1.0, 0.0), (0.0, -1.0)]);
        g.con("con_lattice", l, (ux + k * dx + off.0, uy + k * dy + off.1));
        g.ln("ln_lattice", l);
        let (a, bb, c) = (g.int(-b, b), g.int(-b, b), g.int(-60, 60));
        if a != 0.0 || bb != 0.0 {
            g.ln("ln_lattice", LS::N(a, bb, c));
        }
    }

    // ---- (iv) real-valued configurations, coordinates up to 1e3, well-separated defining points
    for _ in 0..(5000 * scale) {
        let l = g.rand_line(1000.0);
        let lim = *g.rng.pick(&[1000.0, 1000.0, 100.0, 10.0]);
        let (cx, cy) = (g.unif(-lim, lim), g.unif(-lim, lim));
        // radius around the distance to the line half of the time, so that both kinds are common
        let d = l.dist_to(cx, cy);
        let r = if g.rng.chance(1, 2) && d > 0.2 && d < 900.0 { (d * g.unif(0.5, 1.6)).clamp(0.1, 1000.0) } else { g.logunif(0.1, 1000.0) };
        g.cl("cl_real_random", cx, cy, r, l);
    }
    for _ in 0..(5000 * scale) {
        let lim = *g.rng.pick(&[1000.0, 1000.0, 100.0, 10.0]);
        let a = (g.unif(-lim, lim), g.unif(-lim, lim));
        let c = (g.unif(-lim, lim), g.unif(-lim, lim));
        let d = (a.0 - c.0).hypot(a.1 - c.1);
        if d < 0.15 {
            continue;
        }
        let ra = g.logunif(0.1, 1000.0);
        let rb = if g.rng.chance(2, 3) {
            // make |ra - rb| < d < ra + rb likely
            (d * g.unif(0.3, 1.7) - ra).abs().clamp(0.1, 1000.0)
        } else {
            g.logunif(0.1, 1000.0)
        };
        g.cc("cc_real_random", (a.0, a.1, ra), (c.0, c.1, rb));
    }
    for _ in 0..(3000 * scale) {
        let (u, v) = (g.rand_line(1000.0), g.rand_line(1000.0));
        g.ll("ll_real_random", u, v);
        let c = (g.unif(-1000.0, 1000.0), g.unif(-1000.0, 1000.0), g.logunif(0.1, 1000.0));
        let p = (g.unif(-1000.0, 1000.0), g.unif(-1000.0, 1000.0));
        g.pos("pos_real_random", c, p);
        g.con("con_real_random", u, p);
        g.ln("ln_real", v);
    }

    // ---- (v) constructed tangencies / borders at arbitrary positions and rotations, swept through the band
    for _ in 0..(5000 * scale) {
        let (cx, cy) = (g.unif(-400.0, 400.0), g.unif(-400.0, 400.0));
        let r = g.logunif(0.1, 300.0);
        let th = g.unif(0.0, std::f64::consts::TAU);
        let delta = *g.rng.pick(&DELTAS) * g.sign();
        let (tx, ty) = (cx + (r + delta) * th.cos(), cy + (r + delta) * th.sin());
        let s1 = g.unif(-150.0, 150.0);
        let s2 = s1 + g.unif(1.5, 100.0) * g.sign();
        let (dx, dy) = (-th.sin(), th.cos());
        let l = if g.rng.chance(3, 4) {
            LS::B(tx + s1 * dx, ty + s1 * dy, tx + s2 * dx, ty + s2 * dy)
        } else {
            let k = g.logunif(0.01, 900.0) * g.sign();
            LS::N(k * th.cos(), k * th.sin(), -k * (th.cos() * tx + th.sin() * ty))
        };
        g.cl(&format!("cl_tangent_d{:e}", delta.abs()), cx, cy, r, l);
    }
    for _ in 0..(5000 * scale) {
        let (ax, ay) = (g.unif(-400.0, 400.0), g.unif(-400.0, 400.0));
        let big = g.logunif(0.2, 300.0);
        let small = big / g.logunif(1.0, (big / 0.1).min(8.0));
        let th = g.unif(0.0, std::f64::consts::TAU);
        let delta = *g.rng.pick(&DELTAS) * g.sign();
        let outside = g.rng.chance(1, 2);
        let d = if outside { big + small + delta } else { big - small + delta };
        if d < 0.15 {
            continue;
        }
        let (bx, by) = (ax + d * th.cos(), ay + d * th.sin());
        if bx.abs() > 1000.0 || by.abs() > 1000.0 {
            continue;
        }
        let fam = format!("cc_tangent_{}_d{:e}", if outside { "out" } else { "in" }, delta.abs());
        if g.rng.chance(1, 2) {
            g.cc(&fam, (ax, ay, big), (bx, by, small));
        } else {
            g.cc(&fam, (bx, by, small), (ax, ay, big));
        }
    }
    // circles of very different radii (ratio up to 10^4) crossing close to tangency: the configuration in which
    // the radical-line route of the old intersect_cc (before 883c692) returned a single inaccurate touch point
    for _ in 0..(4000 * scale) {
        let big = g.logunif(5.0, 1000.0);
        let small = g.logunif(0.1, big / 8.0);
        let (ax, ay) = (g.unif(-400.0, 400.0), g.unif(-400.0, 400.0));
        let th = if g.rng.chance(1, 4) { 0.0 } else { g.unif(0.0, std::f64::consts::TAU) };
        let outside = g.rng.chance(1, 2);
        let d0 = if outside { big + small } else { big - small };
        // offsets into the crossing region: fixed sweep, or scaled by the amplification d/s of the old defect
        let delta = if g.rng.chance(1, 2) {
            *g.rng.pick(&DELTAS)
        } else {
            1e-9 * d0 / small * *g.rng.pick(&[0.1, 0.5, 0.9, 2.0, 10.0])
        };
        let d = if outside { d0 - delta } else { d0 + delta };
        let (bx, by) = (ax + d * th.cos(), ay + d * th.sin());
        if bx.abs() > 1000.0 || by.abs() > 1000.0 || d < 0.15 {
            continue;
        }
        let fam = format!("cc_ratio_{}", if outside { "out" } else { "in" });
        if g.rng.chance(1, 2) {
            g.cc(&fam, (ax, ay, big), (bx, by, small));
        } else {
            g.cc(&fam, (bx, by, small), (ax, ay, big));
        }
    }
    for _ in 0..(2500 * scale) {
        // near-parallel lines
        let u = g.rand_line(500.0);
        if let LS::B(ux, uy, vx, vy) = u {
            let ang = *g.rng.pick(&[0.0, 1e-14, 1e-11, 5e-10, 1.1e-9, 2e-9, 4e-9, 8e-9, 1.2e-8, 1e-6, 1e-4, 1e-3, 3e-2]) * g.sign();
            let (dx, dy) = (vx - ux, vy - uy);
            let (ex, ey) = (dx * ang.cos() - dy * ang.sin(), dx * ang.sin() + dy * ang.cos());
            let (ox, oy) = (g.unif(-300.0, 300.0), g.unif(-300.0, 300.0));
            if (ox + ex).abs() <= 1000.0 && (oy + ey).abs() <= 1000.0 {
                g.ll(&format!("ll_near_parallel_a{:e}", ang.abs()), u, LS::B(ox, oy, ox + ex, oy + ey));
            }
        }
        // near-border points, relative offsets
        let c = (g.unif(-400.0, 400.0), g.unif(-400.0, 400.0), g.logunif(0.1, 300.0));
        let th = g.unif(0.0, std::f64::consts::TAU);
        let rel = *g.rng.pick(&DELTAS) * g.sign();
        let rr = c.2 * (1.0 + rel);
        g.pos(&format!("pos_near_border_rel{:e}", rel.abs()), c, (c.0 + rr * th.cos(), c.1 + rr * th.sin()));
        // points near a line
        let l = g.rand_line(500.0);
        if let LS::B(ux, uy, vx, vy) = l {
            let t = g.unif(-0.5, 1.5);
            let off = *g.rng.pick(&DELTAS) * g.sign();
            let (dx, dy) = (vx - ux, vy - uy);
            let k = dx.hypot(dy);
            let p = (ux + t * dx - off * dy / k, uy + t * dy + off * dx / k);
            if p.0.abs() <= 1000.0 && p.1.abs() <= 1000.0 {
                g.con(&format!("con_near_d{:e}", off.abs()), l, p);
            }
        }
    }

    // concentric and nearly concentric circles around the `Same` / `TouchInside` / `None` decisions: d = 0 exactly (in
    // the domain) with radius differences of 0 … 10 EPS incl. one ulp either side of EPS (the 542ea35 corner: radii
    // 0.5 and fl(0.5+1e-9) gave a NaN touch point), and tiny d (outside the accuracy domain, still compared with the model)
    for _ in 0..(1500 * scale) {
        let r = *g.rng.pick(&[0.125, 0.5, 1.0, 3.0, 10.0, 100.0, 777.0]) * if g.rng.chance(1, 3) { g.unif(0.9, 1.1) } else { 1.0 };
        let k = *g.rng.pick(&[0.0, 0.5, 0.9, 0.999, 1.0, 1.001, 1.1, 2.0, 5.0, 10.0]);
        let mut r2 = r + k * 1e-9;
        match g.rng.below(4) {
            0 => r2 = f64::from_bits(r2.to_bits() + 1),
            1 => r2 = f64::from_bits(r2.to_bits() - 1),
            _ => {}
        }
        let (cx, cy) = if g.rng.chance(1, 2) { (g.int(-30, 30), g.int(-30, 30)) } else { (g.unif(-900.0, 900.0), g.unif(-900.0, 900.0)) };
        let tiny = *g.rng.pick(&[0.0, 0.0, 0.0, 1e-300, 1e-12, 5e-10, 1e-9, 2e-9, 1e-6]);
        let th = g.unif(0.0, std::f64::consts::TAU);
        let (bx, by) = (cx + tiny * th.cos(), cy + tiny * th.sin());
        let fam = if (bx, by) == (cx, cy) { "cc_concentric" } else { "cc_near_concentric" };
        if g.rng.chance(1, 2) {
            g.cc(fam, (cx, cy, r), (bx, by, r2));
        } else {
            g.cc(fam, (bx, by, r2), (cx, cy, r));
        }
    }

    // ---- (vi) small out-of-domain stream (the property does not constrain these: S = any)
    for _ in 0..(300 * scale) {
        let l = LS::B(g.unif(-1.0, 1.0), g.unif(-1.0, 1.0), g.unif(-1.0, 1.0), g.unif(-1.0, 1.0));
        let (ox, oy, or) = (g.unif(-1e3, 1e3), g.unif(-1e3, 1e3), g.logunif(1e-3, 1e3));
        g.cl("ood_close_defining_points", ox, oy, or, l);
        let a = (g.unif(-1e6, 1e6), g.unif(-1e6, 1e6), g.logunif(1e-6, 1e6));
        let c = (a.0 + g.unif(-1e-3, 1e-3), a.1 + g.unif(-1e-3, 1e-3), a.2 * (1.0 + g.unif(-1e-9, 1e-9)));
        g.cc("ood_near_concentric", a, c);
        let oc = g.int(-3, 3);
        g.ln("ood_degenerate_line", LS::N(0.0, 0.0, oc));
    }
}

fn main() {
    cli(gen, run_case);
}
