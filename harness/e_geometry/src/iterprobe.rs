//! Every std-trait entry point of the iterators the intersection enums hand out (`IntoIterator::IntoIter`), driven in every
//! consumption state and compared with the std DEFINITION of that method in terms of `next` / `next_back` applied to the
//! destructured payload of the enum (a plain slice - the independent oracle).
//!
//! `Iterator`: next, size_hint, count, last, nth, fold, for_each, collect, find, position, any, all, reduce, min_by, max_by,
//! and the adapters that route through them (skip, step_by, map+sum, chain, zip, enumerate, peekable).
//! `DoubleEndedIterator` (if the type implements it): next_back, nth_back, rfold, rfind, rev() (+ rev().last(), rev().nth()).
//! `ExactSizeIterator` (if implemented): len() == number of remaining items, size_hint() == (len, Some(len)).
//! `Clone` (if implemented): cloned mid-history, both copies yield the same remainder.
//!
//! Whether the concrete iterator type implements DoubleEndedIterator / ExactSizeIterator / Clone is found out at compile time
//! (autoref specialisation on the concrete type, see `caps!`), so the harness builds against `Flatten<array::IntoIter<..>>`
//! (double ended, cloneable, not exact-size) as well as against a hand-written iterator type.
#![allow(dead_code)]
use rlib_geometry::point::Point;
use std::marker::PhantomData;

pub struct DeOps<I> {
    pub next_back: fn(&mut I) -> Option<Point>,
    pub nth_back: fn(&mut I, usize) -> Option<Point>,
    pub rfold: fn(I) -> Vec<Point>,
    pub rfind_any: fn(&mut I) -> Option<Point>,
    pub rev_collect: fn(I) -> Vec<Point>,
    pub rev_last: fn(I) -> Option<Point>,
    pub rev_nth: fn(I, usize) -> Option<Point>,
    pub rev_size_hint: fn(I) -> (usize, Option<usize>),
}

pub struct Caps<I> {
    pub de: Option<DeOps<I>>,
    pub len: Option<fn(&I) -> usize>,
    pub clone: Option<fn(&I) -> I>,
}

pub struct Tag<I>(pub PhantomData<I>);

pub trait DeYes {
    type Out;
    fn de(&self) -> Self::Out;
}
impl<I: DoubleEndedIterator<Item = Point>> DeYes for Tag<I> {
    type Out = Option<DeOps<I>>;
    fn de(&self) -> Self::Out {
        Some(DeOps {
            next_back: |it| it.next_back(),
            nth_back: |it, k| it.nth_back(k),
            rfold: |it| {
                it.rfold(Vec::new(), |mut v, p| {
                    v.push(p);
                    v
                })
            },
            rfind_any: |it| it.rfind(|_| true),
            rev_collect: |it| it.rev().collect(),
            rev_last: |it| it.rev().last(),
            rev_nth: |it, k| it.rev().nth(k),
            rev_size_hint: |it| it.rev().size_hint(),
        })
    }
}
pub trait DeNo {
    type Out;
    fn de(&self) -> Self::Out;
}
impl<I> DeNo for &Tag<I> {
    type Out = Option<DeOps<I>>;
    fn de(&self) -> Self::Out {
        None
    }
}

pub trait LenYes {
    type Out;
    fn len_fn(&self) -> Self::Out;
}
impl<I: ExactSizeIterator> LenYes for Tag<I> {
    type Out = Option<fn(&I) -> usize>;
    fn len_fn(&self) -> Self::Out {
        Some(|it| it.len())
    }
}
pub trait LenNo {
    type Out;
    fn len_fn(&self) -> Self::Out;
}
impl<I> LenNo for &Tag<I> {
    type Out = Option<fn(&I) -> usize>;
    fn len_fn(&self) -> Self::Out {
        None
    }
}

pub trait CloneYes {
    type Out;
    fn clone_fn(&self) -> Self::Out;
}
impl<I: Clone> CloneYes for Tag<I> {
    type Out = Option<fn(&I) -> I>;
    fn clone_fn(&self) -> Self::Out {
        Some(|it| it.clone())
    }
}
pub trait CloneNo {
    type Out;
    fn clone_fn(&self) -> Self::Out;
}
impl<I> CloneNo for &Tag<I> {
    type Out = Option<fn(&I) -> I>;
    fn clone_fn(&self) -> Self::Out {
        None
    }
}

/// capabilities of the CONCRETE iterator type `$t` (must be expanded where `$t` is not a generic parameter)
#[macro_export]
macro_rules! caps {
    ($t:ty) => {{
        #[allow(unused_imports)]
        use $crate::iterprobe::{CloneNo, CloneYes, DeNo, DeYes, LenNo, LenYes};
        let tag = $crate::iterprobe::Tag::<$t>(std::marker::PhantomData);
        $crate::iterprobe::Caps::<$t> { de: (&tag).de(), len: (&tag).len_fn(), clone: (&tag).clone_fn() }
    }};
}

fn same(a: &Point, b: &Point) -> bool {
    a.x.to_bits() == b.x.to_bits() && a.y.to_bits() == b.y.to_bits()
}
fn same_opt(a: Option<Point>, b: Option<&Point>) -> bool {
    match (a, b) {
        (None, None) => true,
        (Some(p), Some(q)) => same(&p, q),
        _ => false,
    }
}
fn same_vec(a: &[Point], b: &[Point]) -> bool {
    a.len() == b.len() && a.iter().zip(b).all(|(p, q)| same(p, q))
}

/// Drive an iterator that must yield exactly `exp` through every consumption state (`f` items taken from the front, then
/// `b` from the back, `f + b <= n + 1`) and every entry point; `None` = all observations agree with the std definitions,
/// `Some(what)` names the first one that does not.
pub fn battery<I: Iterator<Item = Point>>(mk: &dyn Fn() -> I, caps: &Caps<I>, exp: &[Point]) -> Option<String> {
    let n = exp.len();
    let max_b = if caps.de.is_some() { n + 1 } else { 0 };
    for f in 0..=n + 1 {
        for b in 0..=max_b {
            if f + b > n + 1 {
                continue;
            }
            // order of consumption: fronts first / backs first / alternating
            let orders: &[u8] = if f > 0 && b > 0 { &[0, 1, 2] } else { &[0] };
            for &order in orders {
                let st = format!("f{}b{}o{}", f, b, order);
                // the sequence of front (true) / back (false) steps of this prefix
                let seq: Vec<bool> = match order {
                    0 => (0..f).map(|_| true).chain((0..b).map(|_| false)).collect(),
                    1 => (0..b).map(|_| false).chain((0..f).map(|_| true)).collect(),
                    _ => {
                        let mut v = Vec::new();
                        let (mut a, mut c) = (0, 0);
                        while a < f || c < b {
                            if a < f {
                                v.push(true);
                                a += 1;
                            }
                            if c < b {
                                v.push(false);
                                c += 1;
                            }
                        }
                        v
                    }
                };
                // what each step must hand out (None once nothing is left), and how many were taken from each end
                let mut wants: Vec<Option<Point>> = Vec::new();
                let (mut taken_f, mut taken_b) = (0usize, 0usize);
                for &front in &seq {
                    if taken_f + taken_b < n {
                        if front {
                            wants.push(Some(exp[taken_f]));
                            taken_f += 1;
                        } else {
                            wants.push(Some(exp[n - 1 - taken_b]));
                            taken_b += 1;
                        }
                    } else {
                        wants.push(None);
                    }
                }
                // consume the prefix, checking every item handed out
                let prefix = |it: &mut I| -> Option<String> {
                    for (k, &front) in seq.iter().enumerate() {
                        let got = if front { it.next() } else { (caps.de.as_ref().unwrap().next_back)(it) };
                        if !same_opt(got, wants[k].as_ref()) {
                            return Some(format!("{}:{}#{}", st, if front { "next" } else { "next_back" }, k));
                        }
                    }
                    None
                };
                let rem: &[Point] = &exp[taken_f..n - taken_b];
                let m = rem.len();
                // a fresh iterator in this state, for one observation each
                macro_rules! fresh {
                    () => {{
                        let mut it = mk();
                        if let Some(e) = prefix(&mut it) {
                            return Some(e);
                        }
                        it
                    }};
                }
                macro_rules! fail {
                    ($what:expr) => {
                        return Some(format!("{}:{}", st, $what))
                    };
                }
                // the state an iterator is left in by a `&mut self` entry point: what it still holds must be exactly `rest`
                // (sound size_hint, exact len, and the items themselves - seen from the front, or from the back)
                let after = |it: I, rest: &[Point], back: bool| -> bool {
                    let (l, h) = it.size_hint();
                    if l > rest.len() || h.map_or(false, |h| h < rest.len()) {
                        return false;
                    }
                    if let Some(len) = caps.len {
                        if len(&it) != rest.len() {
                            return false;
                        }
                    }
                    match (&caps.de, back) {
                        (Some(de), true) => {
                            let want: Vec<Point> = rest.iter().rev().copied().collect();
                            same_vec(&(de.rev_collect)(it), &want)
                        }
                        _ => same_vec(&it.collect::<Vec<_>>(), rest),
                    }
                };
                // --- Iterator ---
                {
                    let it = fresh!();
                    let (l, h) = it.size_hint();
                    if l > m || h.map_or(false, |h| h < m) {
                        fail!(format!("size_hint=({},{:?})/{}", l, h, m));
                    }
                    if let Some(len) = caps.len {
                        if len(&it) != m || (l, h) != (m, Some(m)) {
                            fail!(format!("len={}/size_hint=({},{:?})/{}", len(&it), l, h, m));
                        }
                    }
                }
                if fresh!().count() != m {
                    fail!("count");
                }
                if !same_opt(fresh!().last(), rem.last()) {
                    fail!("last");
                }
                for k in 0..=m + 1 {
                    let mut it = fresh!();
                    if !same_opt(it.nth(k), rem.get(k)) {
                        fail!(format!("nth({})", k));
                    }
                    if k < m && !same_opt(it.next(), rem.get(k + 1)) {
                        fail!(format!("nth({})+next", k));
                    }
                    for back in [false, true] {
                        let mut it = fresh!();
                        let _ = it.nth(k);
                        if !after(it, &rem[(k + 1).min(m)..], back) {
                            fail!(format!("nth({})+rest{}", k, if back { "-rev" } else { "" }));
                        }
                    }
                }
                {
                    let v = fresh!().fold(Vec::new(), |mut v, p| {
                        v.push(p);
                        v
                    });
                    if !same_vec(&v, rem) {
                        fail!("fold");
                    }
                    let mut w = Vec::new();
                    fresh!().for_each(|p| w.push(p));
                    if !same_vec(&w, rem) {
                        fail!("for_each");
                    }
                    let c: Vec<Point> = fresh!().collect();
                    if !same_vec(&c, rem) {
                        fail!("collect");
                    }
                    let mut e: Vec<Point> = vec![Point::new(7.0, 7.0)];
                    e.extend(fresh!());
                    if !same_vec(&e[1..], rem) {
                        fail!("extend");
                    }
                    let mut it = fresh!();
                    let mut u = Vec::new();
                    while let Some(p) = it.next() {
                        u.push(p);
                        if u.len() > 4 {
                            break;
                        }
                    }
                    if !same_vec(&u, rem) {
                        fail!("next*");
                    }
                }
                if !same_opt(fresh!().find(|_| true), rem.first()) {
                    fail!("find");
                }
                for back in [false, true] {
                    let mut it = fresh!();
                    let _ = it.find(|_| true);
                    if !after(it, &rem[1.min(m)..], back) {
                        fail!("find+rest");
                    }
                    let mut it = fresh!();
                    let _ = it.find(|_| false);
                    if !after(it, &[], back) {
                        fail!("find(none)+rest");
                    }
                    let mut it = fresh!();
                    let _ = it.any(|_| true);
                    if !after(it, &rem[1.min(m)..], back) {
                        fail!("any+rest");
                    }
                    let mut it = fresh!();
                    let _ = it.all(|_| false);
                    if !after(it, &rem[1.min(m)..], back) {
                        fail!("all+rest");
                    }
                    let mut it = fresh!();
                    let _ = it.position(|_| true);
                    if !after(it, &rem[1.min(m)..], back) {
                        fail!("position+rest");
                    }
                    // one more `next` after the end stays at the end
                    let mut it = fresh!();
                    for _ in 0..m + 2 {
                        let _ = it.next();
                    }
                    if !after(it, &[], back) {
                        fail!("exhausted+rest");
                    }
                }
                if m > 0 {
                    let tgt = rem[m - 1];
                    let want = rem.iter().position(|p| same(p, &tgt));
                    if fresh!().position(|p| same(&p, &tgt)) != want {
                        fail!("position");
                    }
                }
                if fresh!().any(|_| true) != (m > 0) || !fresh!().all(|_| true) || fresh!().all(|_| false) != (m == 0) {
                    fail!("any/all");
                }
                {
                    // reduce / min_by / max_by: std definitions on the slice iterator
                    let key = |p: &Point, q: &Point| p.x.partial_cmp(&q.x).unwrap_or(std::cmp::Ordering::Equal);
                    if !same_opt(fresh!().reduce(|_, q| q), rem.last()) || !same_opt(fresh!().reduce(|p, _| p), rem.first()) {
                        fail!("reduce");
                    }
                    let want_min = rem.iter().copied().min_by(key);
                    let want_max = rem.iter().copied().max_by(key);
                    if !same_opt(fresh!().min_by(key), want_min.as_ref()) {
                        fail!("min_by");
                    }
                    if !same_opt(fresh!().max_by(key), want_max.as_ref()) {
                        fail!("max_by");
                    }
                }
                {
                    // adapters that route through nth / fold / size_hint
                    let s: Vec<Point> = fresh!().skip(1).collect();
                    if !same_vec(&s, &rem[1.min(m)..]) {
                        fail!("skip(1)");
                    }
                    let s: Vec<Point> = fresh!().step_by(2).collect();
                    let want: Vec<Point> = rem.iter().copied().step_by(2).collect();
                    if !same_vec(&s, &want) {
                        fail!("step_by(2)");
                    }
                    let sx: f64 = fresh!().map(|p| p.x).sum();
                    let wx: f64 = rem.iter().map(|p| p.x).sum();
                    if sx.to_bits() != wx.to_bits() && !(sx.is_nan() && wx.is_nan()) {
                        fail!("map+sum");
                    }
                    let ch: Vec<Point> = fresh!().chain(fresh!()).collect();
                    let want: Vec<Point> = rem.iter().chain(rem.iter()).copied().collect();
                    if !same_vec(&ch, &want) {
                        fail!("chain");
                    }
                    let z: Vec<(usize, Point)> = fresh!().enumerate().collect();
                    if z.len() != m || z.iter().enumerate().any(|(i, (j, p))| i != *j || !same(p, &rem[i])) {
                        fail!("enumerate");
                    }
                    let zz = fresh!().zip(fresh!()).count();
                    if zz != m {
                        fail!("zip");
                    }
                    let mut pk = fresh!().peekable();
                    let first = pk.peek().copied();
                    if !same_opt(first, rem.first()) || !same_vec(&pk.collect::<Vec<_>>(), rem) {
                        fail!("peekable");
                    }
                    let t: Vec<Point> = fresh!().take(1).collect();
                    if !same_vec(&t, &rem[..1.min(m)]) {
                        fail!("take(1)");
                    }
                    let mut it = fresh!();
                    let br: Vec<Point> = it.by_ref().take(1).collect();
                    let rest: Vec<Point> = it.collect();
                    if !same_vec(&br, &rem[..1.min(m)]) || !same_vec(&rest, &rem[1.min(m)..]) {
                        fail!("by_ref");
                    }
                }
                // --- DoubleEndedIterator ---
                if let Some(de) = &caps.de {
                    let rrem: Vec<Point> = rem.iter().rev().copied().collect();
                    if !same_vec(&(de.rev_collect)(fresh!()), &rrem) {
                        fail!("rev");
                    }
                    if !same_vec(&(de.rfold)(fresh!()), &rrem) {
                        fail!("rfold");
                    }
                    if !same_opt((de.rev_last)(fresh!()), rem.first()) {
                        fail!("rev.last");
                    }
                    {
                        let (l, h) = (de.rev_size_hint)(fresh!());
                        if l > m || h.map_or(false, |h| h < m) {
                            fail!("rev.size_hint");
                        }
                    }
                    if !same_opt((de.rfind_any)(&mut fresh!()), rem.last()) {
                        fail!("rfind");
                    }
                    for back in [false, true] {
                        let mut it = fresh!();
                        let _ = (de.rfind_any)(&mut it);
                        if !after(it, &rem[..m.saturating_sub(1)], back) {
                            fail!("rfind+rest");
                        }
                        let mut it = fresh!();
                        for _ in 0..m + 2 {
                            let _ = (de.next_back)(&mut it);
                        }
                        if !after(it, &[], back) {
                            fail!("exhausted-back+rest");
                        }
                    }
                    for k in 0..=m + 1 {
                        let mut it = fresh!();
                        if !same_opt((de.nth_back)(&mut it, k), rrem.get(k)) {
                            fail!(format!("nth_back({})", k));
                        }
                        // what is left is rem[..m-1-k] (nothing when k is past the end)
                        if !after(it, &rem[..m.saturating_sub(k + 1)], false) {
                            fail!(format!("nth_back({})+rest", k));
                        }
                        let mut it = fresh!();
                        let _ = (de.nth_back)(&mut it, k);
                        if !after(it, &rem[..m.saturating_sub(k + 1)], true) {
                            fail!(format!("nth_back({})+rest-rev", k));
                        }
                        if !same_opt((de.rev_nth)(fresh!(), k), rrem.get(k)) {
                            fail!(format!("rev.nth({})", k));
                        }
                    }
                    {
                        let mut it = fresh!();
                        let mut u = Vec::new();
                        while let Some(p) = (de.next_back)(&mut it) {
                            u.push(p);
                            if u.len() > 4 {
                                break;
                            }
                        }
                        if !same_vec(&u, &rrem) {
                            fail!("next_back*");
                        }
                    }
                }
                // --- Clone ---
                if let Some(cl) = caps.clone {
                    let it = fresh!();
                    let copy = cl(&it);
                    let a: Vec<Point> = it.collect();
                    let c: Vec<Point> = copy.collect();
                    if !same_vec(&a, rem) || !same_vec(&c, rem) {
                        fail!("clone");
                    }
                    let mut it = fresh!();
                    let copy = cl(&it);
                    let _ = it.next();
                    let c: Vec<Point> = copy.collect();
                    if !same_vec(&c, rem) {
                        fail!("clone-then-advance");
                    }
                }
            }
        }
    }
    None
}
