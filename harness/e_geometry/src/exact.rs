//! Exact dyadic arithmetic (sign, big magnitude, binary exponent) for the point predicate of mode `P`:
//! every f64 is `±m·2^e`, sums and products of such numbers are again of that form, and the decimal
//! tolerance 1e-7 is handled by multiplying through with 10^7.  Nothing here is rounded, so the verdict
//! "this returned point is within 1e-7 of the circle / line" on the IMPLEMENTATION's own coordinates does
//! not depend on f64 cancellation, nor on the coordinates being bit-equal to the model's.
use std::cmp::Ordering;

#[derive(Clone, Debug)]
pub struct Dy {
    neg: bool,
    mag: Vec<u64>, // little endian, no trailing zero limbs; empty = 0
    exp: i64,
}

fn trim(v: &mut Vec<u64>) {
    while let Some(&0) = v.last() {
        v.pop();
    }
}

fn mag_cmp(a: &[u64], b: &[u64]) -> Ordering {
    if a.len() != b.len() {
        return a.len().cmp(&b.len());
    }
    for i in (0..a.len()).rev() {
        if a[i] != b[i] {
            return a[i].cmp(&b[i]);
        }
    }
    Ordering::Equal
}

fn mag_add(a: &[u64], b: &[u64]) -> Vec<u64> {
    let (a, b) = if a.len() >= b.len() { (a, b) } else { (b, a) };
    let mut out = Vec::with_capacity(a.len() + 1);
    let mut carry = 0u128;
    for i in 0..a.len() {
        let s = a[i] as u128 + if i < b.len() { b[i] as u128 } else { 0 } + carry;
        out.push(s as u64);
        carry = s >> 64;
    }
    if carry > 0 {
        out.push(carry as u64);
    }
    out
}

/// a - b, requires a >= b
fn mag_sub(a: &[u64], b: &[u64]) -> Vec<u64> {
    let mut out = Vec::with_capacity(a.len());
    let mut borrow = 0i128;
    for i in 0..a.len() {
        let mut d = a[i] as i128 - if i < b.len() { b[i] as i128 } else { 0 } - borrow;
        if d < 0 {
            d += 1i128 << 64;
            borrow = 1;
        } else {
            borrow = 0;
        }
        out.push(d as u64);
    }
    trim(&mut out);
    out
}

fn mag_mul(a: &[u64], b: &[u64]) -> Vec<u64> {
    if a.is_empty() || b.is_empty() {
        return vec![];
    }
    let mut out = vec![0u64; a.len() + b.len()];
    for i in 0..a.len() {
        let mut carry = 0u128;
        for j in 0..b.len() {
            let t = a[i] as u128 * b[j] as u128 + out[i + j] as u128 + carry;
            out[i + j] = t as u64;
            carry = t >> 64;
        }
        let mut k = i + b.len();
        while carry > 0 {
            let t = out[k] as u128 + carry;
            out[k] = t as u64;
            carry = t >> 64;
            k += 1;
        }
    }
    trim(&mut out);
    out
}

fn mag_shl(a: &[u64], bits: u64) -> Vec<u64> {
    if a.is_empty() {
        return vec![];
    }
    let limbs = (bits / 64) as usize;
    let sh = (bits % 64) as u32;
    let mut out = vec![0u64; limbs];
    if sh == 0 {
        out.extend_from_slice(a);
    } else {
        let mut carry = 0u64;
        for &x in a {
            out.push((x << sh) | carry);
            carry = x >> (64 - sh);
        }
        if carry > 0 {
            out.push(carry);
        }
    }
    out
}

impl Dy {
    pub fn zero() -> Dy {
        Dy { neg: false, mag: vec![], exp: 0 }
    }
    pub fn from_u64(n: u64) -> Dy {
        let mut mag = vec![n];
        trim(&mut mag);
        Dy { neg: false, mag, exp: 0 }
    }
    /// exact value of a finite f64 whose magnitude is 0 or within [1e-60, 1e60] (else None: the caller falls back)
    pub fn from_f64(v: f64) -> Option<Dy> {
        if !v.is_finite() {
            return None;
        }
        if v == 0.0 {
            return Some(Dy::zero());
        }
        if !(1e-60..=1e60).contains(&v.abs()) {
            return None;
        }
        let bits = v.to_bits();
        let e = ((bits >> 52) & 0x7ff) as i64;
        let m = bits & ((1u64 << 52) - 1);
        let (mant, exp) = if e == 0 { (m, -1074) } else { (m | (1u64 << 52), e - 1075) };
        Some(Dy { neg: bits >> 63 == 1, mag: vec![mant], exp })
    }
    pub fn is_zero(&self) -> bool {
        self.mag.is_empty()
    }
    pub fn neg(&self) -> Dy {
        Dy { neg: !self.neg && !self.is_zero(), mag: self.mag.clone(), exp: self.exp }
    }
    pub fn add(&self, o: &Dy) -> Dy {
        if self.is_zero() {
            return o.clone();
        }
        if o.is_zero() {
            return self.clone();
        }
        let e = self.exp.min(o.exp);
        let a = mag_shl(&self.mag, (self.exp - e) as u64);
        let b = mag_shl(&o.mag, (o.exp - e) as u64);
        if self.neg == o.neg {
            Dy { neg: self.neg, mag: mag_add(&a, &b), exp: e }
        } else {
            match mag_cmp(&a, &b) {
                Ordering::Equal => Dy::zero(),
                Ordering::Greater => Dy { neg: self.neg, mag: mag_sub(&a, &b), exp: e },
                Ordering::Less => Dy { neg: o.neg, mag: mag_sub(&b, &a), exp: e },
            }
        }
    }
    pub fn sub(&self, o: &Dy) -> Dy {
        self.add(&o.neg())
    }
    pub fn mul(&self, o: &Dy) -> Dy {
        if self.is_zero() || o.is_zero() {
            return Dy::zero();
        }
        Dy { neg: self.neg != o.neg, mag: mag_mul(&self.mag, &o.mag), exp: self.exp + o.exp }
    }
    pub fn abs(&self) -> Dy {
        Dy { neg: false, mag: self.mag.clone(), exp: self.exp }
    }
    pub fn sq(&self) -> Dy {
        self.mul(self)
    }
    /// sign of self - o
    pub fn cmp(&self, o: &Dy) -> Ordering {
        let d = self.sub(o);
        if d.is_zero() {
            Ordering::Equal
        } else if d.neg {
            Ordering::Less
        } else {
            Ordering::Greater
        }
    }
    pub fn le(&self, o: &Dy) -> bool {
        self.cmp(o) != Ordering::Greater
    }
}

/// 10^7 (the reciprocal of the tolerance)
fn t7() -> Dy {
    Dy::from_u64(10_000_000)
}

/// `| |p - c| - r | <= 1e-7`, decided exactly:  (r·10^7 - 1)² <= |p-c|²·10^14 <= (r·10^7 + 1)²  and  r·10^7 >= 1
pub fn near_circle(cx: f64, cy: f64, r: f64, px: f64, py: f64) -> Option<bool> {
    let (cx, cy, r, px, py) = (Dy::from_f64(cx)?, Dy::from_f64(cy)?, Dy::from_f64(r)?, Dy::from_f64(px)?, Dy::from_f64(py)?);
    let d2 = px.sub(&cx).sq().add(&py.sub(&cy).sq());
    let t = t7();
    let one = Dy::from_u64(1);
    let rt = r.mul(&t);
    let d2t = d2.mul(&t.sq());
    Some(one.le(&rt) && rt.sub(&one).sq().le(&d2t) && d2t.le(&rt.add(&one).sq()))
}

/// exact coefficients (A, B, C) of the line through (ux,uy), (vx,vy) — `Line::between` before normalisation
pub fn line_between(ux: f64, uy: f64, vx: f64, vy: f64) -> Option<(Dy, Dy, Dy)> {
    let (ux, uy, vx, vy) = (Dy::from_f64(ux)?, Dy::from_f64(uy)?, Dy::from_f64(vx)?, Dy::from_f64(vy)?);
    let a = uy.sub(&vy);
    let b = vx.sub(&ux);
    let c = a.mul(&ux).add(&b.mul(&uy)).neg();
    Some((a, b, c))
}

pub fn line_new(a: f64, b: f64, c: f64) -> Option<(Dy, Dy, Dy)> {
    Some((Dy::from_f64(a)?, Dy::from_f64(b)?, Dy::from_f64(c)?))
}

/// distance from (px,py) to the exact line `A x + B y + C = 0` is `<= 1e-7`:  (A px + B py + C)²·10^14 <= A² + B²
pub fn near_line(l: &(Dy, Dy, Dy), px: f64, py: f64) -> Option<bool> {
    let (px, py) = (Dy::from_f64(px)?, Dy::from_f64(py)?);
    let e = l.0.mul(&px).add(&l.1.mul(&py)).add(&l.2);
    let n2 = l.0.sq().add(&l.1.sq());
    Some(e.sq().mul(&t7().sq()).le(&n2))
}

/// `|v - e| <= 4e-15 * bound`, decided exactly:  |v - e| * 10^15 <= 4 * bound  (the `pt` observations)
pub fn within(v: &Dy, e: &Dy, bound: &Dy) -> bool {
    v.sub(e).abs().mul(&Dy::from_u64(1_000_000_000_000_000)).le(&bound.mul(&Dy::from_u64(4)))
}

#[cfg(test)]
mod tests {
    use super::*;
    #[test]
    fn basics() {
        let a = Dy::from_f64(0.1).unwrap();
        let b = Dy::from_f64(0.2).unwrap();
        let c = Dy::from_f64(0.30000000000000004).unwrap();
        // 0.1 + 0.2 is NOT exactly the f64 0.30000000000000004 (the f64 sum is rounded)
        assert!(a.add(&b).cmp(&c) != Ordering::Equal);
        assert!(Dy::from_f64(1.5).unwrap().mul(&Dy::from_f64(-2.0).unwrap()).cmp(&Dy::from_f64(-3.0).unwrap()) == Ordering::Equal);
        assert_eq!(near_circle(0.0, 0.0, 5.0, 3.0, 4.0), Some(true));
        assert_eq!(near_circle(0.0, 0.0, 5.0, 3.0, 4.0000002), Some(false));
        assert_eq!(near_circle(0.0, 0.0, 5.0, 3.0, 4.00000005), Some(true));
        let l = line_between(0.0, 0.0, 3.0, 4.0).unwrap();
        assert_eq!(near_line(&l, 6.0, 8.0), Some(true));
        assert_eq!(near_line(&l, 6.0, 8.000001), Some(false));
        let big = Dy::from_f64(1e30).unwrap();
        let small = Dy::from_f64(1e-30).unwrap();
        assert!(big.add(&small).cmp(&big) == Ordering::Greater);
        assert!(big.sub(&big).is_zero());
        let d = |x: f64| Dy::from_f64(x).unwrap();
        // 0.1 + 0.2 rounded is within 4e-15 of the exact sum, 0.3 + 1e-12 is not
        assert!(within(&d(0.1 + 0.2), &d(0.1).add(&d(0.2)), &d(0.3)));
        assert!(!within(&d(0.3 + 1e-12), &d(0.1).add(&d(0.2)), &d(0.3)));
        assert!(within(&d(-2.5), &d(-2.5), &Dy::zero()));
    }
}
