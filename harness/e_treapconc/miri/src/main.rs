//! Two threads create treap nodes and build their own treaps — run under Miri
//! (`cargo +nightly miri run`), whose data-race detector reports an unsynchronised
//! access to the priority generator deterministically for a given `-Zmiri-seed`.
use rlib_treap::{Treap, TreapItem, TreapItemSized, TreapNode};

struct It {
    id: u32,
    size: usize,
}

impl TreapItem for It {
    fn update(&mut self, left: Option<&Self>, right: Option<&Self>) {
        self.size = 1 + left.map_or(0, |l| l.size) + right.map_or(0, |r| r.size);
    }
}

impl TreapItemSized for It {
    fn size(&self) -> usize {
        self.size
    }
}

fn work(tid: u32, n: u32) -> (Vec<u32>, Vec<u32>) {
    let mut prios = Vec::new();
    let mut t: Treap<It> = Treap::new();
    for i in 0..n {
        let node = TreapNode::new(It { id: tid * 1000 + i, size: 1 });
        prios.push(node.priority);
        let pos = (i as usize * 7) % (t.size() + 1);
        let (l, r) = TreapNode::split_at(t.root.take(), pos);
        t.root = TreapNode::merge(TreapNode::merge(l, Some(Box::new(node))), r);
        t.insert_at(0, It { id: tid * 1000 + 500 + i, size: 1 });
    }
    let ids = t.collect().iter().map(|i| i.id).collect();
    (prios, ids)
}

fn main() {
    let n = 12;
    let hs: Vec<_> = (0..2u32).map(|tid| std::thread::spawn(move || work(tid, n))).collect();
    for (tid, h) in hs.into_iter().enumerate() {
        let (prios, ids) = h.join().unwrap();
        println!("thread {} priorities {:?}", tid, prios);
        println!("thread {} sequence {:?}", tid, ids);
    }
}
