//! Correspondence + stress harness for engine `treapconc` (property C17).
//!
//! Case lines (parameter block `P` = `<A> <C> <MIXMUL> <MIXSHIFT> <PRIOBITS> <SEED>`, extracted from the source):
//!   `disc`                                 the discipline the extractor found (from `--disc`)
//!   `stream P <n>`                         `rlib_rand::Rng::from_seed(SEED)`, `n` × `next_raw()` truncated to PRIOBITS
//!   `conc <disc> <k> <m> <opseed> P`       `k` threads released by a barrier, each makes `m` draws (one `TreapNode`
//!                                          each, through `Treap::insert_at` or `TreapNode::new`) interleaved with
//!                                          removals / split+merge on its own treap
//!   `tie <disc> <k> <m> <opseed> P`        as `conc`, every node's public `priority` overwritten with 0..3 (ties in every merge):
//!                                          the shapes must equal those of the same operations run alone
//!   `deep <disc> <k> <m> <opseed> P`       as `conc` with up to 64 threads, uncapped treaps, two split+merge rotations per draw
//!   `render <disc> <k> <m> <opseed> P`     as `conc`, every draw followed by two renderings of all of the thread's treaps
//!                                          (`TreePrinter`, `Debug` of `Treap` and of `TreapNode`): each must equal the
//!                                          documented layout computed by hand and the rendering of the run alone
//!   `stack <disc> <k> <m> <opseed> P`      (wave 3) tall thread-owned treaps (a spine of `m` levels, priorities written through the public
//!                                          field); all `k` threads are held at the bottom of the same recursive operation at once
//!   `panic <disc> <k> <m> <opseed> P`      (wave 3) odd threads have an item whose `update`/`push` callback panics (caught, or ending the
//!                                          thread); even threads keep working, also after the neighbours have panicked; alone = fresh process
//!   `exit <disc> <k> <m> <opseed> P`       (wave 3) the last draws of every thread come from a thread-local's destructor at thread exit
//!   `long <disc> <k> <m> <opseed> P`       (wave 4) 2 long-lived threads make m/2 draws each, stay alive while a crowd of `k` short-lived threads
//!                                          (one node each) comes and goes, and make the other m - m/2 draws: their streams must continue
//!   (`--profile debug`: the generator emits the real-thread kinds only, smaller — run against the debug build of rlib)
//!   `sched <disc> P ; m0 m1 … ; i0 i1 …`   thread `j` makes `mj` draws (the schedule is for the model: real threads
//!                                          are scheduled by the OS)
//!   `fsched <disc> P ; m0 m1 … ; i0 i1 …`  the same; the model runs its fine-grained system (get/set,
//!                                          lock/read/write/unlock, load/CAS/retry) under the schedule
//! `conc` and `sched` run in a fresh child process (`worker`), so that a process-wide generator starts at its seed
//! and a crash under a broken discipline cannot take the harness down.
//!
//! raw : `T <summ t0>;<summ t1>;…` (every thread's stream, thread-local reading) or `U <summ sorted union>` (shared
//!       reading); `summ` = `<len>:<fnv1a64 hex>:<first four>`.
//! view: `ok` iff the streams are what the discipline promises, judged against the implementation's own sequential
//!       stream (`ref`: the same number of nodes created one after the other on one thread of a fresh process — no
//!       knowledge of the generator needed, independent of the Lean model), and every thread's treap results equal a
//!       plain `Vec` oracle and the same operations run alone. The raw digests are what ties the real streams to the
//!       model's LCG (constants extracted from the source).
#[path = "../../common/mod.rs"]
mod common;
use common::*;
use rlib_rand::Rng;
use rlib_treap::{TreapItem, TreapItemSized, TreapNode};
use rlib_treap::{Treap, TreePrinter};
use std::cell::{Cell, RefCell};
use std::sync::atomic::{AtomicBool, AtomicUsize, Ordering};
use std::sync::{Arc, Barrier, Mutex};
use std::time::{Duration, Instant};

#[derive(Clone, Copy, Debug)]
struct Params {
    a: u64,
    c: u64,
    mixmul: u64,
    mixshift: u32,
    bits: u32,
    seed: u64,
}

impl Params {
    fn parse(ts: &[&str]) -> Option<Params> {
        if ts.len() != 6 {
            return None;
        }
        Some(Params {
            a: ts[0].parse().ok()?,
            c: ts[1].parse().ok()?,
            mixmul: ts[2].parse().ok()?,
            mixshift: ts[3].parse().ok()?,
            bits: ts[4].parse().ok()?,
            seed: ts[5].parse().ok()?,
        })
    }
    fn mask(&self, z: u64) -> u64 {
        if self.bits >= 64 {
            z
        } else {
            z & ((1u64 << self.bits) - 1)
        }
    }
    fn show(&self) -> String {
        format!("{} {} {} {} {} {}", self.a, self.c, self.mixmul, self.mixshift, self.bits, self.seed)
    }
}

fn fnv(xs: &[u64]) -> u64 {
    let mut h: u64 = 0xcbf29ce484222325;
    for &x in xs {
        for j in 0..8 {
            h = (h ^ ((x >> (8 * j)) & 255)).wrapping_mul(0x100000001b3);
        }
    }
    h
}

fn summ(xs: &[u64]) -> String {
    let head: Vec<String> = xs.iter().take(4).map(|x| x.to_string()).collect();
    format!("{}:{:016x}:{}", xs.len(), fnv(xs), head.join(","))
}

fn show_stream(xs: &[u64]) -> String {
    if xs.len() <= 32 {
        let v: Vec<String> = xs.iter().map(|x| x.to_string()).collect();
        format!("[{}]", v.join(","))
    } else {
        summ(xs)
    }
}

// ---------------------------------------------------------------------------------------------
// the treap item of the stress threads: subtree size and sum of ids
// ---------------------------------------------------------------------------------------------

struct It {
    id: u64,
    size: usize,
    sum: u64,
}

// (hand-written, short: derived `Debug` goes through `debug_struct`, which is very slow under Miri)
impl std::fmt::Debug for It {
    fn fmt(&self, f: &mut std::fmt::Formatter<'_>) -> std::fmt::Result {
        write!(f, "It{}/{}", self.id, self.size)
    }
}

/// A bare key: relies on the DEFAULT (empty) `TreapItem::update` / `TreapItem::push` and has no `TreapItemSized`
/// (the item of rlib's own `set` test). The third treap of every stress thread holds these.
#[derive(Default)]
struct Plain(u64);

impl std::fmt::Debug for Plain {
    fn fmt(&self, f: &mut std::fmt::Formatter<'_>) -> std::fmt::Result {
        write!(f, "P{}", self.0)
    }
}

impl TreapItem for Plain {}

// ---------------------------------------------------------------------------------------------
// renderings computed by hand (public fields only): the layouts `print.rs` documents
// ---------------------------------------------------------------------------------------------

/// `TreePrinter`: one line `- <item>` per node, `- [None]` per missing child, three columns per level
fn tree_by_hand<T: std::fmt::Debug>(node: &Option<Box<TreapNode<T>>>, depth: usize, out: &mut String) {
    use std::fmt::Write;
    for _ in 0..3 * depth {
        out.push(' ');
    }
    match node {
        None => out.push_str("- [None]\n"),
        Some(n) => {
            let _ = writeln!(out, "- {:?}", n.item);
            tree_by_hand(&n.left, depth + 1, out);
            tree_by_hand(&n.right, depth + 1, out);
        }
    }
}

/// `Debug` of `Treap` / `TreapNode`: the items in order, each followed by one blank
fn inorder_by_hand<T: std::fmt::Debug>(node: &Option<Box<TreapNode<T>>>, out: &mut String) {
    use std::fmt::Write;
    if let Some(n) = node {
        inorder_by_hand(&n.left, out);
        let _ = write!(out, "{:?} ", n.item);
        inorder_by_hand(&n.right, out);
    }
}

fn fnv_str(s: &str) -> u64 {
    let mut h: u64 = 0xcbf29ce484222325;
    for &b in s.as_bytes() {
        h = (h ^ b as u64).wrapping_mul(0x100000001b3);
    }
    h
}

/// a `fmt::Write` sink that gives up (formatting error) once more than `cap` bytes arrived: a rendering that
/// runs away (e.g. an indentation that grew without bound) ends as a wrong text instead of gigabytes of blanks
struct Bounded {
    buf: String,
    cap: usize,
}

impl std::fmt::Write for Bounded {
    fn write_str(&mut self, s: &str) -> std::fmt::Result {
        if self.buf.len() + s.len() > self.cap {
            return Err(std::fmt::Error);
        }
        self.buf.push_str(s);
        Ok(())
    }
}

/// `format!("{:?}", x)`, given that the result is expected to be about `expect` bytes long
fn render<D: std::fmt::Debug>(x: &D, expect: usize) -> String {
    use std::fmt::Write;
    let mut b = Bounded { buf: String::with_capacity(expect + 16), cap: 2 * expect + 256 };
    match write!(b, "{:?}", x) {
        Ok(()) => b.buf,
        Err(_) => format!("<formatting failed or ran away after {} bytes>", b.buf.len()),
    }
}

/// every way the crate renders a treap, against the layouts computed by hand
fn render_all<T: TreapItem + std::fmt::Debug>(t: &Treap<T>, got: &mut Vec<u64>, want: &mut Vec<u64>) {
    let mut w = String::new();
    tree_by_hand(&t.root, 0, &mut w);
    got.push(fnv_str(&render(&TreePrinter::new(t), w.len())));
    want.push(fnv_str(&w));
    if cfg!(miri) && t.root.as_ref().map_or(false, |r| r.left.is_some() && r.right.is_some()) {
        // formatting is very slow under Miri: the two `Debug` impls only for treaps whose root lacks a child
        return;
    }
    let mut w = String::new();
    inorder_by_hand(&t.root, &mut w);
    got.push(fnv_str(&render(t, w.len())));
    want.push(fnv_str(&w));
    if let Some(r) = t.root.as_ref() {
        got.push(fnv_str(&render(r, w.len())));
        want.push(fnv_str(&w));
    }
}

impl It {
    fn new(id: u64) -> It {
        It { id, size: 1, sum: id }
    }
}

impl TreapItem for It {
    fn update(&mut self, left: Option<&Self>, right: Option<&Self>) {
        self.size = 1 + left.map_or(0, |l| l.size) + right.map_or(0, |r| r.size);
        self.sum = self
            .id
            .wrapping_add(left.map_or(0, |l| l.sum))
            .wrapping_add(right.map_or(0, |r| r.sum));
    }
}

impl TreapItemSized for It {
    fn size(&self) -> usize {
        self.size
    }
}

/// priority of the node at in-order position `pos` (public fields only)
fn prio_at(root: &Option<Box<TreapNode<It>>>, mut pos: usize) -> Option<u32> {
    let mut cur = root.as_ref()?;
    loop {
        let ls = cur.left.as_ref().map_or(0, |l| l.item.size);
        if pos < ls {
            cur = cur.left.as_ref()?;
        } else if pos == ls {
            return Some(cur.priority as u32);
        } else {
            pos -= ls + 1;
            cur = cur.right.as_ref()?;
        }
    }
}

/// What a stress thread does besides drawing.
#[derive(Clone, Copy, PartialEq, Debug)]
enum Mode {
    /// light: extra operations only once the treap has 64 elements (the bulk of `conc`)
    Normal,
    /// every kind of operation from the first draw on (`sched`, `fsched`, Miri)
    Heavy,
    /// every node's `priority` field is overwritten with a value in 0..4: ties in every merge; the shape must still
    /// be the shape of the same operations run alone
    Tie,
    /// no size cap, two split+merge rotations after every draw: tall treaps, threads spend their time inside `split`
    Deep,
    /// as `Heavy`, and all treaps of the thread are rendered twice after every draw: threads spend their time
    /// inside `TreePrinter` / `Debug`
    Render,
    /// (wave 3) tall thread-owned treaps (priorities written through the public field: a spine of `m` levels); all
    /// threads are held at the bottom of the SAME recursive operation at the same instant (see `stack_body`)
    Stack,
    /// (wave 3) every second thread has an item whose `update`/`push` callback panics (caught inside the thread, or
    /// ending the thread); the other threads work as in `Heavy`, and go on working after the neighbours have panicked
    Panic,
    /// (wave 3) as `Heavy`; the last draws of every thread are made from the destructor of a thread-local at thread exit
    Exit,
    /// (wave 4) `LONG_LIVED` threads work as in `Heavy`, stay alive while a crowd of short-lived node-creating threads comes
    /// and goes, and go on working afterwards (see `run_long`)
    Long,
}

struct ThreadOut {
    prios: Vec<u64>,
    /// digest of everything the treap API returned: removed ids, sizes, root sums, first/last, final sequences
    result: u64,
    /// the same digest computed on plain Vecs
    oracle: u64,
    /// digest of the shapes (pre-order ids and priorities through the public fields) of the three treaps at the end
    shape: u64,
    /// digest of every rendering (`TreePrinter`, `Debug`) the thread made of its own treaps
    render: u64,
    /// the same renderings computed by hand from the public fields
    render_oracle: u64,
    ops: [u64; 8],
    panic: Option<String>,
    /// `Panic` mode: this thread is one of those whose callbacks panic (its treap results are not judged), and how
    /// many panics it caught
    faulty: Option<u64>,
}

impl ThreadOut {
    fn died(why: String) -> ThreadOut {
        ThreadOut { prios: Vec::new(), result: 0, oracle: 1, shape: 0, render: 0, render_oracle: 0, ops: [0; 8], panic: Some(why), faulty: None }
    }
}

fn shape_into<T>(root: &Option<Box<TreapNode<T>>>, id: impl Fn(&T) -> u64, out: &mut Vec<u64>) {
    let mut stack: Vec<&Option<Box<TreapNode<T>>>> = vec![root];
    while let Some(n) = stack.pop() {
        match n {
            None => out.push(u64::MAX),
            Some(b) => {
                out.push(id(&b.item));
                out.push(b.priority as u64);
                stack.push(&b.right);
                stack.push(&b.left);
            }
        }
    }
}

/// One thread's work: `m` draws (one `TreapNode` each), each followed by non-drawing operations; everything observable
/// through the API is folded into `result`, and the same on `Vec<u64>`s into `oracle`. Two treaps: a sequence treap
/// (`insert_at`, `remove_at`, `split_at`, `merge`, `size`, `root`, `collect`) and a key-sorted one (`split_by`,
/// `first`, `last`, `root_mut`, `is_empty`).
fn thread_work(tid: usize, m: usize, opseed: u64, mode: Mode) -> ThreadOut {
    thread_work_gated(tid, m, opseed, mode, 0, None)
}

/// `post` further rounds of non-drawing operations after the `m` draws; `gate` is called between the two phases
fn thread_work_gated(tid: usize, m: usize, opseed: u64, mode: Mode, post: usize, gate: Option<&dyn Fn()>) -> ThreadOut {
    match catch(|| thread_body(tid, m, opseed, mode, post, gate)) {
        Ok(o) => o,
        Err(e) => ThreadOut::died(e),
    }
}

fn thread_body(tid: usize, m: usize, opseed: u64, mode: Mode, post: usize, gate: Option<&dyn Fn()>) -> ThreadOut {
    let mut rng = SplitMix64::new(opseed ^ (0x9E37_79B9u64.wrapping_mul(tid as u64 + 1)));
    let mut t: Treap<It> = Treap::new();
    let mut v: Vec<u64> = Vec::new();
    let mut vsum: u64 = 0;
    let mut s: Treap<It> = Treap::new();
    let mut sv: Vec<u64> = Vec::new();
    // third treap: bare keys (default `update`/`push`), kept sorted with `TreapNode::split_by` called directly
    let mut pt: Treap<Plain> = Treap::default();
    let mut pv: Vec<u64> = Vec::new();
    let (mut rgot, mut rwant): (Vec<u64>, Vec<u64>) = (Vec::new(), Vec::new());
    let mut prios = Vec::with_capacity(m);
    let mut res: Vec<u64> = Vec::new();
    let mut orc: Vec<u64> = Vec::new();
    let mut ops = [0u64; 8];
    let cap = if mode == Mode::Deep { usize::MAX } else { 256 };
    for d in 0..m + post {
        if d == m {
            if let Some(g) = gate {
                g();
            }
        }
        let id = ((tid as u64) << 32) | d as u64;
        // (after the `m` draws: only the non-drawing operations below)
        let kind = if d < m { rng.below(7) } else { 7 };
        if kind == 7 {
        } else if kind < 3 && mode != Mode::Tie {
            // the usual way: the node is created inside insert_at; read its priority back from the tree
            let pos = rng.below(v.len() as u64 + 1) as usize;
            t.insert_at(pos, It::new(id));
            prios.push(prio_at(&t.root, pos).expect("inserted node not found") as u64);
            v.insert(pos, id);
            vsum = vsum.wrapping_add(id);
            ops[0] += 1;
        } else if kind < 5 {
            // the node is created first (public constructor), then linked in with split/merge
            let pos = rng.below(v.len() as u64 + 1) as usize;
            let mut node = TreapNode::new(It::new(id));
            prios.push(node.priority as u64);
            if mode == Mode::Tie {
                node.priority = rng.below(4) as u32 as _;
            }
            let (l, r) = TreapNode::split_at(t.root.take(), pos);
            t.root = TreapNode::merge(TreapNode::merge(l, Some(Box::new(node))), r);
            v.insert(pos, id);
            vsum = vsum.wrapping_add(id);
            ops[1] += 1;
        } else if kind == 6 {
            // bare keys: `Treap::from_item` creates the node, `TreapNode::split_by` (called directly) finds the place
            let key = (rng.below(1 << 30) << 24) | (d as u64 & 0xff_ffff);
            let mut one = Treap::from_item(Plain(key));
            prios.push(one.root.as_ref().unwrap().priority as u64);
            if mode == Mode::Tie {
                one.root.as_mut().unwrap().priority = rng.below(4) as u32 as _;
            }
            let (a, b) = TreapNode::split_by(pt.root.take(), |it| it.0 < key);
            pt = Treap::merge(Treap::merge(Treap { root: a }, one), Treap { root: b });
            let at = pv.partition_point(|&x| x < key);
            pv.insert(at, key);
            ops[7] += 1;
        } else {
            // key-sorted treap: split_by + merge
            let key = (rng.below(1 << 30) << 24) | (d as u64 & 0xff_ffff);
            let mut node = TreapNode::new(It::new(key));
            prios.push(node.priority as u64);
            if mode == Mode::Tie {
                node.priority = rng.below(4) as u32 as _;
            }
            let st = std::mem::replace(&mut s, Treap::new());
            let (a, b) = st.split_by(|it| it.id < key);
            s = Treap::merge(Treap::merge(a, Treap { root: Some(Box::new(node)) }), b);
            let at = sv.partition_point(|&x| x < key);
            sv.insert(at, key);
            ops[2] += 1;
        }
        if mode != Mode::Normal || v.len() > 64 {
            let extra = if mode == Mode::Deep { 2 } else { rng.below(3) };
            for _ in 0..extra {
                let what = rng.below(5);
                if what == 4 {
                    // the node-level API called directly on the roots: `push`, `update` (they change nothing
                    // observable here), `collect_into` into a vector that already holds the other treap's elements
                    if let Some(r) = t.root.as_mut() {
                        r.push();
                        r.update();
                    }
                    if let Some(r) = pt.root.as_mut() {
                        r.push();
                        r.update();
                    }
                    if pv.len() <= 256 || rng.chance(1, 32) {
                        // (digests, not the elements: in `deep` mode this treap is not capped)
                        let mut both: Vec<&Plain> = Vec::new();
                        if let Some(r) = pt.root.as_mut() {
                            r.collect_into(&mut both);
                        }
                        res.push(both.len() as u64);
                        res.push(fnv(&both.iter().map(|i| i.0).collect::<Vec<u64>>()));
                        orc.push(pv.len() as u64);
                        orc.push(fnv(&pv));
                    }
                    if !pv.is_empty() && (mode == Mode::Deep || pv.len() >= 24) {
                        // remove a key with two direct `TreapNode::split_by`s
                        let key = pv[rng.below(pv.len() as u64) as usize];
                        let (a, bc) = TreapNode::split_by(pt.root.take(), |it| it.0 < key);
                        let (b, c) = TreapNode::split_by(bc, |it| it.0 <= key);
                        res.push(b.as_ref().map_or(u64::MAX, |n| n.item.0));
                        orc.push(key);
                        if mode == Mode::Deep {
                            pt.root = TreapNode::merge(TreapNode::merge(a, b), c);
                        } else {
                            pt.root = TreapNode::merge(a, c);
                            let at = pv.partition_point(|&x| x < key);
                            pv.remove(at);
                        }
                    }
                    res.push(pt.first().map_or(u64::MAX, |i| i.0));
                    orc.push(pv.first().copied().unwrap_or(u64::MAX));
                    res.push(pt.last().map_or(u64::MAX, |i| i.0));
                    orc.push(pv.last().copied().unwrap_or(u64::MAX));
                    res.push(pt.is_empty() as u64);
                    orc.push(pv.is_empty() as u64);
                    ops[7] += 1;
                } else if mode != Mode::Deep && !v.is_empty() && (what == 0 || v.len() > cap) {
                    let p = rng.below(v.len() as u64) as usize;
                    res.push(t.remove_at(p).id);
                    let x = v.remove(p);
                    vsum = vsum.wrapping_sub(x);
                    orc.push(x);
                    ops[3] += 1;
                } else if what == 3 && !sv.is_empty() {
                    // remove a key from the sorted treap with two split_by's (or only look, in deep mode)
                    let key = sv[rng.below(sv.len() as u64) as usize];
                    let st = std::mem::replace(&mut s, Treap::new());
                    let (a, bc) = st.split_by(|it| it.id < key);
                    let (mut b, c) = bc.split_by(|it| it.id <= key);
                    res.push(b.root().map_or(u64::MAX, |i| i.id));
                    res.push(b.size() as u64);
                    orc.push(key);
                    orc.push(1);
                    if mode == Mode::Deep || sv.len() < 32 {
                        if let Some(r) = b.root_mut() {
                            r.sum = r.id; // root_mut: rewrite the aggregate with the value it already has
                        }
                        s = Treap::merge(Treap::merge(a, b), c);
                    } else {
                        s = Treap::merge(a, c);
                        let at = sv.partition_point(|&x| x < key);
                        sv.remove(at);
                    }
                    ops[4] += 1;
                } else if v.len() >= 2 {
                    // rotate: split at p, merge the halves the other way round
                    let p = rng.below(v.len() as u64 + 1) as usize;
                    let tt = std::mem::replace(&mut t, Treap::new());
                    let (a, b) = tt.split_at(p);
                    t = Treap::merge(b, a);
                    v.rotate_left(p);
                    ops[5] += 1;
                }
            }
        }
        res.push(t.size() as u64);
        orc.push(v.len() as u64);
        res.push(t.root().map_or(0, |i| i.sum));
        orc.push(vsum);
        if mode != Mode::Normal || d % 16 == 0 {
            res.push(s.first().map_or(u64::MAX, |i| i.id));
            orc.push(sv.first().copied().unwrap_or(u64::MAX));
            res.push(s.last().map_or(u64::MAX, |i| i.id));
            orc.push(sv.last().copied().unwrap_or(u64::MAX));
            res.push(s.is_empty() as u64);
            orc.push(sv.is_empty() as u64);
            ops[6] += 1;
        }
        // rendering a thread-owned treap (`TreePrinter`, `Debug` of `Treap` / `TreapNode`) is an operation like any
        // other: the text must be the documented layout and the same as when the thread runs alone
        let renders = match mode {
            Mode::Render => 2,
            // (formatting is very slow under Miri: there the two threads render twice on the way and once at the end)
            Mode::Heavy | Mode::Tie if cfg!(miri) => (d == m / 2) as usize,
            Mode::Heavy | Mode::Tie => 1,
            // the bulk streams: often while the treaps are small, then rarely (a rendering is linear in the size)
            Mode::Normal => ((d < 256 && d % 8 == 0) || d % 1024 == 0) as usize,
            Mode::Deep => (d % 1024 == 0) as usize,
            Mode::Panic | Mode::Exit => (d % 8 == 0) as usize,
            // (`thread_body` never runs in these modes: their threads use `Heavy`)
            Mode::Stack | Mode::Long => 0,
        };
        for _ in 0..renders {
            render_all(&t, &mut rgot, &mut rwant);
            if !cfg!(miri) {
                render_all(&s, &mut rgot, &mut rwant);
                render_all(&pt, &mut rgot, &mut rwant);
            }
        }
    }
    res.extend(t.collect().iter().map(|i| i.id));
    orc.extend(v.iter().copied());
    res.extend(s.collect().iter().map(|i| i.id));
    orc.extend(sv.iter().copied());
    res.extend(pt.collect().iter().map(|i| i.0));
    orc.extend(pv.iter().copied());
    if !cfg!(miri) {
        render_all(&t, &mut rgot, &mut rwant);
        render_all(&s, &mut rgot, &mut rwant);
    }
    render_all(&pt, &mut rgot, &mut rwant);
    let mut sh = Vec::new();
    shape_into(&t.root, |i| i.id, &mut sh);
    shape_into(&s.root, |i| i.id, &mut sh);
    shape_into(&pt.root, |i| i.0, &mut sh);
    ThreadOut { prios, result: fnv(&res), oracle: fnv(&orc), shape: fnv(&sh), render: fnv(&rgot), render_oracle: fnv(&rwant), ops, panic: None, faulty: None }
}

// ---------------------------------------------------------------------------------------------
// wave 3 (a): many threads at the bottom of a deep recursion at the same instant (`stack`)
// ---------------------------------------------------------------------------------------------

/// The threads of one run wait for each other at numbered points; gives up as soon as one of them failed.
struct Rendezvous {
    n: usize,
    arrived: Vec<AtomicUsize>,
    failed: AtomicBool,
    timed_out: AtomicBool,
}

impl Rendezvous {
    fn new(n: usize, rounds: usize) -> Rendezvous {
        Rendezvous { n, arrived: (0..rounds).map(|_| AtomicUsize::new(0)).collect(), failed: AtomicBool::new(false), timed_out: AtomicBool::new(false) }
    }
    fn wait(&self, round: usize) {
        if round >= self.arrived.len() {
            return;
        }
        self.arrived[round].fetch_add(1, Ordering::SeqCst);
        let deadline = Instant::now() + Duration::from_secs(60);
        while self.arrived[round].load(Ordering::SeqCst) < self.n && !self.failed.load(Ordering::SeqCst) {
            if Instant::now() > deadline {
                self.timed_out.store(true, Ordering::SeqCst);
                self.failed.store(true, Ordering::SeqCst);
                break;
            }
            std::thread::yield_now();
        }
    }
}

thread_local! {
    static STACK_CTX: RefCell<Option<Arc<Rendezvous>>> = RefCell::new(None);
    /// `Some(r)`: the next callback of a marked item waits at rendezvous `r`
    static ARMED: Cell<Option<usize>> = Cell::new(None);
}

fn rendezvous_if_armed() {
    if let Some(r) = ARMED.with(|a| a.take()) {
        let rv = STACK_CTX.with(|c| c.borrow().clone());
        if let Some(rv) = rv {
            rv.wait(r);
        }
    }
}

/// run one operation with rendezvous `r` armed; a thread whose operation did not meet the marked node arrives afterwards
fn armed<R>(r: usize, f: impl FnOnce() -> R) -> R {
    ARMED.with(|a| a.set(Some(r)));
    let out = f();
    rendezvous_if_armed();
    out
}

/// item of the tall treaps: size and sum of ids; the `push` callback of the marked item (the deepest node of the
/// spine) is where the thread waits for the others — in the middle of rlib's recursion
struct Tall {
    id: u64,
    size: usize,
    sum: u64,
    mark: bool,
}

impl TreapItem for Tall {
    fn update(&mut self, left: Option<&Self>, right: Option<&Self>) {
        self.size = 1 + left.map_or(0, |l| l.size) + right.map_or(0, |r| r.size);
        self.sum = self.id.wrapping_add(left.map_or(0, |l| l.sum)).wrapping_add(right.map_or(0, |r| r.sum));
    }
    fn push(&mut self, _left: Option<&mut Self>, _right: Option<&mut Self>) {
        if self.mark {
            rendezvous_if_armed();
        }
    }
}

impl TreapItemSized for Tall {
    fn size(&self) -> usize {
        self.size
    }
}

const STACK_ROUNDS: usize = 6;

/// `m` draws: `m-1` nodes linked into a spine (priorities 1, 2, 3, … written through the public field: a right spine
/// by appending for even threads, a left spine by prepending for odd ones), then — every step with all threads
/// waiting for each other at the deepest node, inside the callback — one more node merged in at the far end
/// (`merge` recursion `m` levels deep), `split_at` and `split_by` at the far end, merges back, `collect_into`.
fn stack_body(tid: usize, m: usize, opseed: u64) -> ThreadOut {
    let right = (tid as u64 + opseed) % 2 == 0;
    let d_of = |id: u64| (id & 0xffff_ffff) as usize;
    let mut prios = Vec::with_capacity(m);
    let (mut res, mut orc): (Vec<u64>, Vec<u64>) = (Vec::new(), Vec::new());
    let mut t: Option<Box<TreapNode<Tall>>> = None;
    let mut v: Vec<u64> = Vec::new();
    let spine = m.saturating_sub(1);
    for d in 0..spine {
        let id = ((tid as u64) << 32) | d as u64;
        let mut node = TreapNode::new(Tall { id, size: 1, sum: id, mark: d + 1 == spine });
        prios.push(node.priority as u64);
        node.priority = (d + 1) as u32 as _;
        if right {
            t = TreapNode::merge(t, Some(Box::new(node)));
            v.push(id);
        } else {
            t = TreapNode::merge(Some(Box::new(node)), t);
            v.insert(0, id);
        }
    }
    let note = |res: &mut Vec<u64>, orc: &mut Vec<u64>, t: &Option<Box<TreapNode<Tall>>>, v: &Vec<u64>| {
        res.push(t.as_ref().map_or(0, |r| r.item.size) as u64);
        orc.push(v.len() as u64);
        res.push(t.as_ref().map_or(0, |r| r.item.sum));
        orc.push(v.iter().fold(0u64, |a, &x| a.wrapping_add(x)));
    };
    note(&mut res, &mut orc, &t, &v);
    if m >= 1 {
        // round 0: one more node at the far end — `merge` walks down the whole spine
        let id = ((tid as u64) << 32) | (m - 1) as u64;
        let mut node = TreapNode::new(Tall { id, size: 1, sum: id, mark: false });
        prios.push(node.priority as u64);
        node.priority = u32::MAX as _;
        let old = t.take();
        t = armed(0, || if right { TreapNode::merge(old, Some(Box::new(node))) } else { TreapNode::merge(Some(Box::new(node)), old) });
        if right {
            v.push(id);
        } else {
            v.insert(0, id);
        }
        note(&mut res, &mut orc, &t, &v);
    }
    // rounds 1, 2: `split_at` next to the far end, and back
    let at = if right { v.len().saturating_sub(1) } else { 1.min(v.len()) };
    let old = t.take();
    let (a, b) = armed(1, || TreapNode::split_at(old, at));
    res.push(a.as_ref().map_or(0, |r| r.item.size) as u64);
    orc.push(at as u64);
    res.push(b.as_ref().map_or(0, |r| r.item.sum));
    orc.push(v[at..].iter().fold(0u64, |x, &y| x.wrapping_add(y)));
    t = armed(2, || TreapNode::merge(a, b));
    note(&mut res, &mut orc, &t, &v);
    // rounds 3, 4: `split_by` with a predicate that holds on a prefix ending next to the far end, and back
    let old = t.take();
    let far = spine.saturating_sub(1);
    let (a, b) = armed(3, || if right { TreapNode::split_by(old, |it| d_of(it.id) < far) } else { TreapNode::split_by(old, |it| d_of(it.id) > far) });
    let cut = if right { far.min(v.len()) } else { v.iter().filter(|&&x| d_of(x) > far).count() };
    res.push(a.as_ref().map_or(0, |r| r.item.size) as u64);
    orc.push(cut as u64);
    res.push(b.as_ref().map_or(0, |r| r.item.size) as u64);
    orc.push((v.len() - cut) as u64);
    t = armed(4, || TreapNode::merge(a, b));
    note(&mut res, &mut orc, &t, &v);
    // round 5: `collect_into` recurses along the spine
    {
        let mut all: Vec<&Tall> = Vec::new();
        armed(5, || {
            if let Some(r) = t.as_mut() {
                r.collect_into(&mut all);
            }
        });
        res.extend(all.iter().map(|i| i.id));
        orc.extend(v.iter().copied());
    }
    let mut sh = Vec::new();
    shape_into(&t, |i| i.id, &mut sh);
    // (a tall treap is dropped recursively by the compiler-generated glue: take it apart by hand instead)
    let mut cur = t;
    while let Some(mut b) = cur {
        cur = if b.left.is_some() && b.right.is_some() {
            // neither spine has such a node; keep going on one side, the other is small
            b.left.take()
        } else {
            b.left.take().or(b.right.take())
        };
    }
    ThreadOut { prios, result: fnv(&res), oracle: fnv(&orc), shape: fnv(&sh), render: 0, render_oracle: 0, ops: [0; 8], panic: None, faulty: None }
}

fn big_stack<T: Send + 'static>(f: impl FnOnce() -> T + Send + 'static) -> std::thread::JoinHandle<T> {
    std::thread::Builder::new().stack_size(64 << 20).spawn(f).expect("spawn")
}

fn run_stack(k: usize, m: usize, opseed: u64, together: bool) -> (Vec<ThreadOut>, bool) {
    let work = move |tid: usize, rv: Arc<Rendezvous>| -> ThreadOut {
        STACK_CTX.with(|c| *c.borrow_mut() = Some(rv.clone()));
        match catch(|| stack_body(tid, m, opseed)) {
            Ok(o) => o,
            Err(e) => {
                rv.failed.store(true, Ordering::SeqCst);
                ThreadOut::died(e)
            }
        }
    };
    if together {
        let rv = Arc::new(Rendezvous::new(k, STACK_ROUNDS));
        let barrier = Arc::new(Barrier::new(k));
        let hs: Vec<_> = (0..k)
            .map(|tid| {
                let (rv, b) = (rv.clone(), barrier.clone());
                big_stack(move || {
                    b.wait();
                    work(tid, rv)
                })
            })
            .collect();
        let outs = hs.into_iter().map(|h| h.join().unwrap_or_else(|_| ThreadOut::died("panic:join".into()))).collect();
        (outs, rv.timed_out.load(Ordering::SeqCst))
    } else {
        let outs = (0..k)
            .map(|tid| {
                let rv = Arc::new(Rendezvous::new(1, STACK_ROUNDS));
                big_stack(move || work(tid, rv)).join().unwrap_or_else(|_| ThreadOut::died("panic:join".into()))
            })
            .collect();
        (outs, false)
    }
}

// ---------------------------------------------------------------------------------------------
// wave 3 (b): threads whose item callbacks panic while the other threads keep working (`panic`)
// ---------------------------------------------------------------------------------------------

/// item of the faulty threads: `fuse` 1 = `update` panics when the node or one of its children carries the fuse,
/// 2 = `push` panics on the node that carries it
struct Bomb {
    #[allow(dead_code)]
    id: u64,
    size: usize,
    fuse: u8,
}

impl TreapItem for Bomb {
    fn update(&mut self, left: Option<&Self>, right: Option<&Self>) {
        if self.fuse == 1 || left.map_or(false, |l| l.fuse == 1) || right.map_or(false, |r| r.fuse == 1) {
            panic!("item callback `update` fails (on purpose)");
        }
        self.size = 1 + left.map_or(0, |l| l.size) + right.map_or(0, |r| r.size);
    }
    fn push(&mut self, _left: Option<&mut Self>, _right: Option<&mut Self>) {
        if self.fuse == 2 {
            panic!("item callback `push` fails (on purpose)");
        }
    }
}

impl TreapItemSized for Bomb {
    fn size(&self) -> usize {
        self.size
    }
}

fn is_faulty(tid: usize) -> bool {
    tid % 2 == 1
}

/// A faulty thread: `m` draws like everybody else; now and then the new item carries a fuse, so that a callback panics
/// in the middle of rlib's `merge`/`split_at` — caught with `catch_unwind`, the thread goes on with what is left. The
/// last two draws make a two-node merge / split whose callback panics for certain: caught (flavours 0, 1) or not
/// (flavours 2, 3: the thread dies, `join` reports it). Returns (what the thread saw, the final certain panic still to do).
fn faulty_body(tid: usize, m: usize, opseed: u64) -> (ThreadOut, Option<Box<dyn FnOnce() + Send>>) {
    let flavour = (tid / 2) % 4;
    let fuse: u8 = if flavour % 2 == 0 { 1 } else { 2 };
    let mut rng = SplitMix64::new(opseed ^ (0xB0B0_5EEDu64.wrapping_mul(tid as u64 + 1)));
    let mut prios = Vec::with_capacity(m);
    let mut caught = 0u64;
    let mut t: Option<Box<TreapNode<Bomb>>> = None;
    let body = m.saturating_sub(2);
    for d in 0..body {
        let id = ((tid as u64) << 32) | d as u64;
        let mut node = TreapNode::new(Bomb { id, size: 1, fuse: 0 });
        prios.push(node.priority as u64);
        if rng.chance(1, 8) {
            node.item.fuse = fuse;
        }
        let len = t.as_ref().map_or(0, |r| r.item.size);
        let pos = rng.below(len as u64 + 1) as usize;
        let rot = rng.below(len as u64 + 1) as usize;
        let old = t.take();
        let r = std::panic::catch_unwind(std::panic::AssertUnwindSafe(|| {
            let (l, r) = TreapNode::split_at(old, pos);
            let t1 = TreapNode::merge(TreapNode::merge(l, Some(Box::new(node))), r);
            let (a, b) = TreapNode::split_at(t1, rot);
            TreapNode::merge(b, a)
        }));
        match r {
            Ok(t2) => t = t2,
            // whatever was detached is gone with the unwinding: start again from an empty treap
            Err(_) => caught += 1,
        }
    }
    let mut last: Vec<Box<TreapNode<Bomb>>> = Vec::new();
    for d in body..m {
        let id = ((tid as u64) << 32) | d as u64;
        let node = TreapNode::new(Bomb { id, size: 1, fuse });
        prios.push(node.priority as u64);
        last.push(Box::new(node));
    }
    let certain: Option<Box<dyn FnOnce() + Send>> = if last.len() == 2 {
        let b = last.pop();
        let a = last.pop();
        Some(Box::new(move || {
            // `update` flavour: the root of the merge is updated with a fused child; `push` flavour: `merge` pushes its root
            let _ = TreapNode::merge(a, b);
        }))
    } else {
        None
    };
    let mut out = ThreadOut { prios, result: 0, oracle: 0, shape: 0, render: 0, render_oracle: 0, ops: [0; 8], panic: None, faulty: Some(caught) };
    if flavour < 2 {
        if let Some(f) = certain {
            if std::panic::catch_unwind(std::panic::AssertUnwindSafe(f)).is_err() {
                out.faulty = Some(caught + 1);
            }
        }
        (out, None)
    } else {
        (out, certain)
    }
}

const PANIC_POST: usize = 200;

/// `panic` mode, all threads together: the healthy ones (even ids) do the `Heavy` mix, wait until every faulty thread
/// has finished or died, and then go on with `PANIC_POST` rounds of operations on their treaps.
fn run_panic_together(k: usize, m: usize, opseed: u64) -> Vec<ThreadOut> {
    let barrier = Arc::new(Barrier::new(k));
    let go_on = Arc::new(AtomicBool::new(false));
    let mut healthy = Vec::new();
    let mut faulty = Vec::new();
    for tid in 0..k {
        let b = barrier.clone();
        if is_faulty(tid) {
            let slot: Arc<Mutex<Option<ThreadOut>>> = Arc::new(Mutex::new(None));
            let s2 = slot.clone();
            let h = std::thread::spawn(move || {
                b.wait();
                let (out, certain) = faulty_body(tid, m, opseed);
                *s2.lock().unwrap() = Some(out);
                if let Some(f) = certain {
                    f(); // not caught: the thread ends here
                }
            });
            faulty.push((tid, h, slot));
        } else {
            let g = go_on.clone();
            let h = std::thread::spawn(move || {
                b.wait();
                let gate = move || {
                    let deadline = Instant::now() + Duration::from_secs(60);
                    while !g.load(Ordering::SeqCst) && Instant::now() < deadline {
                        std::thread::yield_now();
                    }
                };
                thread_work_gated(tid, m, opseed, Mode::Panic, PANIC_POST, Some(&gate))
            });
            healthy.push((tid, h));
        }
    }
    let mut outs: Vec<Option<ThreadOut>> = (0..k).map(|_| None).collect();
    for (tid, h, slot) in faulty {
        let died = h.join().is_err();
        let mut o = slot.lock().unwrap().take().unwrap_or_else(|| ThreadOut::died("panic:faulty-thread-lost".into()));
        if died {
            o.faulty = o.faulty.map(|c| c + 1);
        }
        outs[tid] = Some(o);
    }
    go_on.store(true, Ordering::SeqCst);
    for (tid, h) in healthy {
        outs[tid] = Some(h.join().unwrap_or_else(|_| ThreadOut::died("panic:join".into())));
    }
    outs.into_iter().map(|o| o.unwrap()).collect()
}

/// the healthy threads of a `panic` case run alone, one after the other (no faulty thread ever runs in this process)
fn run_panic_alone(k: usize, m: usize, opseed: u64) -> Vec<Option<ThreadOut>> {
    (0..k)
        .map(|tid| {
            if is_faulty(tid) {
                None
            } else {
                Some(
                    std::thread::spawn(move || thread_work_gated(tid, m, opseed, Mode::Panic, PANIC_POST, None))
                        .join()
                        .unwrap_or_else(|_| ThreadOut::died("panic:join".into())),
                )
            }
        })
        .collect()
}

/// `alone <line>` (a fresh child process of the worker): one line per thread `result shape render panic|-`
fn alone_child(line: &str) {
    if let Some((_disc, progs, opseed, _p, Mode::Panic)) = parse_run_line(line) {
        for o in run_panic_alone(progs.len(), progs[0], opseed) {
            match o {
                None => println!("skip"),
                Some(o) => println!("{} {} {} {}", o.result, o.shape, o.render, o.panic.unwrap_or_else(|| "-".into())),
            }
        }
    }
}

fn panic_alone_from_child(line: &str, k: usize) -> Option<Vec<Option<ThreadOut>>> {
    let exe = std::env::current_exe().ok()?;
    let o = std::process::Command::new(exe).arg("alone").arg(line).stderr(std::process::Stdio::null()).output().ok()?;
    if !o.status.success() {
        return None;
    }
    let text = String::from_utf8_lossy(&o.stdout).to_string();
    let mut v = Vec::new();
    for l in text.lines() {
        let ts: Vec<&str> = l.split_whitespace().collect();
        if ts == ["skip"] {
            v.push(None);
        } else if ts.len() == 4 {
            let mut t = ThreadOut::died(String::new());
            t.result = ts[0].parse().ok()?;
            t.shape = ts[1].parse().ok()?;
            t.render = ts[2].parse().ok()?;
            t.panic = if ts[3] == "-" { None } else { Some(ts[3].to_string()) };
            v.push(Some(t));
        } else {
            return None;
        }
    }
    if v.len() == k {
        Some(v)
    } else {
        None
    }
}

// ---------------------------------------------------------------------------------------------
// wave 3 (c): nodes created while the thread exits, from the destructor of a thread-local (`exit`)
// ---------------------------------------------------------------------------------------------

#[derive(Default)]
struct ExitOut {
    prios: Vec<u64>,
    result: u64,
    oracle: u64,
    panic: Option<String>,
    ran: bool,
}

struct ExitJob {
    tid: usize,
    first: usize,
    count: usize,
    seed: u64,
    slot: Arc<Mutex<ExitOut>>,
}

impl Drop for ExitJob {
    fn drop(&mut self) {
        let (tid, first, count, seed) = (self.tid, self.first, self.count, self.seed);
        let r = catch(move || {
            let mut rng = SplitMix64::new(seed ^ 0xE417);
            let mut prios = Vec::new();
            let mut t: Treap<It> = Treap::new();
            let mut v: Vec<u64> = Vec::new();
            for j in 0..count {
                let id = ((tid as u64) << 32) | (first + j) as u64;
                let pos = rng.below(v.len() as u64 + 1) as usize;
                if j % 2 == 0 {
                    t.insert_at(pos, It::new(id));
                    prios.push(prio_at(&t.root, pos).expect("inserted node not found") as u64);
                } else {
                    let node = TreapNode::new(It::new(id));
                    prios.push(node.priority as u64);
                    let (l, r) = TreapNode::split_at(t.root.take(), pos);
                    t.root = TreapNode::merge(TreapNode::merge(l, Some(Box::new(node))), r);
                }
                v.insert(pos, id);
            }
            let mut got: Vec<u64> = t.collect().iter().map(|i| i.id).collect();
            got.push(t.size() as u64);
            let mut want = v.clone();
            want.push(v.len() as u64);
            (prios, fnv(&got), fnv(&want))
        });
        if let Ok(mut s) = self.slot.lock() {
            s.ran = true;
            match r {
                Ok((p, a, b)) => {
                    s.prios = p;
                    s.result = a;
                    s.oracle = b;
                }
                Err(e) => s.panic = Some(e),
            }
        }
    }
}

thread_local! {
    static EXIT_HOOK: RefCell<Option<ExitJob>> = RefCell::new(None);
}

fn exit_draws(m: usize) -> usize {
    (m / 2).min(16)
}

/// one thread of an `exit` case: `m - e` draws in the thread body (the `Heavy` mix), the last `e` from the destructor of
/// a thread-local — registered BEFORE the thread's first node for even threads (it then runs after the destructors of
/// whatever thread-locals the library registered), after the body for odd ones
fn exit_thread(tid: usize, m: usize, opseed: u64, slot: Arc<Mutex<ExitOut>>) -> ThreadOut {
    let e = exit_draws(m);
    let job = ExitJob { tid, first: m - e, count: e, seed: opseed ^ tid as u64, slot };
    let mut job = Some(job);
    if tid % 2 == 0 {
        EXIT_HOOK.with(|h| *h.borrow_mut() = job.take());
    }
    let out = thread_work(tid, m - e, opseed, Mode::Exit);
    if let Some(j) = job.take() {
        EXIT_HOOK.with(|h| *h.borrow_mut() = Some(j));
    }
    out
}

fn run_exit(k: usize, m: usize, opseed: u64, together: bool) -> Vec<ThreadOut> {
    let barrier = Arc::new(Barrier::new(if together { k } else { 1 }));
    let mut pending = Vec::new();
    let mut outs = Vec::new();
    let finish = |h: std::thread::JoinHandle<ThreadOut>, slot: Arc<Mutex<ExitOut>>| -> ThreadOut {
        let mut o = h.join().unwrap_or_else(|_| ThreadOut::died("panic:join".into()));
        let s = slot.lock().unwrap();
        if o.panic.is_none() {
            if !s.ran && exit_draws(m) > 0 {
                o.panic = Some("exit:destructor-did-not-run".into());
            } else if let Some(p) = &s.panic {
                o.panic = Some(format!("exit:{}", p));
            } else {
                o.prios.extend(s.prios.iter().copied());
                o.result = fnv(&[o.result, s.result]);
                o.oracle = fnv(&[o.oracle, s.oracle]);
            }
        }
        o
    };
    for tid in 0..k {
        let slot: Arc<Mutex<ExitOut>> = Arc::new(Mutex::new(ExitOut::default()));
        let (s2, b) = (slot.clone(), barrier.clone());
        let h = std::thread::spawn(move || {
            b.wait();
            exit_thread(tid, m, opseed, s2)
        });
        if together {
            pending.push((h, slot));
        } else {
            outs.push(finish(h, slot));
        }
    }
    for (h, slot) in pending {
        outs.push(finish(h, slot));
    }
    outs
}

// ---------------------------------------------------------------------------------------------
// wave 4: long-lived threads observed before and after a crowd of short-lived node-creating threads (`long`)
// ---------------------------------------------------------------------------------------------

/// number of long-lived threads of a `long` case (threads 0 and 1; the crowd are threads 2, 3, …)
const LONG_LIVED: usize = 2;
/// crowd threads alive at the same time
const CROWD_BATCH: usize = 8;

/// programs of `long <disc> k m …`: two long-lived threads with `m` draws each, then `k` threads with one draw each
fn long_progs(k: usize, m: usize) -> Vec<usize> {
    let mut v = vec![m; LONG_LIVED];
    v.extend(std::iter::repeat(1).take(k));
    v
}

/// two pieces of work of ONE thread, one after the other
fn join_outs(a: ThreadOut, b: ThreadOut) -> ThreadOut {
    let mut prios = a.prios;
    prios.extend(b.prios);
    let mut ops = a.ops;
    for j in 0..8 {
        ops[j] += b.ops[j];
    }
    ThreadOut {
        prios,
        result: fnv(&[a.result, b.result]),
        oracle: fnv(&[a.oracle, b.oracle]),
        shape: fnv(&[a.shape, b.shape]),
        render: fnv(&[a.render, b.render]),
        render_oracle: fnv(&[a.render_oracle, b.render_oracle]),
        ops,
        panic: a.panic.or(b.panic),
        faulty: None,
    }
}

/// a long-lived thread: the `Heavy` mix with m/2 draws, `pause` (the crowd comes and goes meanwhile), then a second
/// piece of work with the remaining draws on fresh treaps — the thread and its generator stay the same
fn long_thread(tid: usize, m: usize, opseed: u64, pause: &dyn Fn()) -> ThreadOut {
    let a = thread_work(tid, m / 2, opseed, Mode::Heavy);
    pause();
    let b = thread_work(tid + 64, m - m / 2, opseed ^ 0x10E6, Mode::Heavy);
    join_outs(a, b)
}

/// a short-lived thread: one node (`Treap::from_item` / `insert_at` into an empty treap / a bare `TreapNode::new`), observed, gone
fn short_thread(tid: usize) -> ThreadOut {
    let r = catch(move || {
        let id = (tid as u64) << 32;
        match tid % 3 {
            2 => {
                let node = TreapNode::new(It::new(id));
                (node.priority as u64, fnv(&[node.item.id, node.item.size as u64]), fnv(&[id, 1]))
            }
            w => {
                let mut t: Treap<It> = if w == 0 {
                    Treap::from_item(It::new(id))
                } else {
                    let mut t = Treap::new();
                    t.insert_at(0, It::new(id));
                    t
                };
                let p = t.root.as_ref().map_or(u64::MAX, |n| n.priority as u64);
                let mut got: Vec<u64> = t.collect().iter().map(|i| i.id).collect();
                got.push(t.size() as u64);
                (p, fnv(&got), fnv(&[id, 1]))
            }
        }
    });
    match r {
        Ok((p, result, oracle)) => ThreadOut { prios: vec![p], result, oracle, shape: p, render: 0, render_oracle: 0, ops: [0; 8], panic: None, faulty: None },
        Err(e) => ThreadOut::died(e),
    }
}

/// `together`: the long-lived threads start together, the coordinator waits until both have made their first m/2 draws,
/// lets the crowd of `k` short-lived threads come and go (`CROWD_BATCH` at a time, every one joined), and releases the
/// long-lived threads for the second half. Alone: every thread by itself on a fresh thread, one after the other.
fn run_long(k: usize, m: usize, opseed: u64, together: bool) -> Vec<ThreadOut> {
    let died = || ThreadOut::died("panic:join".into());
    let mut outs: Vec<ThreadOut> = Vec::with_capacity(LONG_LIVED + k);
    if !together {
        for tid in 0..LONG_LIVED {
            outs.push(std::thread::spawn(move || long_thread(tid, m, opseed, &|| ())).join().unwrap_or_else(|_| died()));
        }
        for c in 0..k {
            outs.push(std::thread::spawn(move || short_thread(LONG_LIVED + c)).join().unwrap_or_else(|_| died()));
        }
        return outs;
    }
    let first_half_done = Arc::new(Barrier::new(LONG_LIVED + 1));
    let crowd_gone = Arc::new(Barrier::new(LONG_LIVED + 1));
    let mut long_handles = Vec::new();
    for tid in 0..LONG_LIVED {
        let (b1, b2) = (first_half_done.clone(), crowd_gone.clone());
        long_handles.push(std::thread::spawn(move || {
            long_thread(tid, m, opseed, &|| {
                b1.wait();
                b2.wait();
            })
        }));
    }
    first_half_done.wait();
    let mut crowd: Vec<ThreadOut> = Vec::with_capacity(k);
    let mut c = 0;
    while c < k {
        let n = CROWD_BATCH.min(k - c);
        let start = Arc::new(Barrier::new(n));
        let hs: Vec<_> = (c..c + n)
            .map(|j| {
                let b = start.clone();
                std::thread::spawn(move || {
                    b.wait();
                    short_thread(LONG_LIVED + j)
                })
            })
            .collect();
        for h in hs {
            crowd.push(h.join().unwrap_or_else(|_| died()));
        }
        c += n;
    }
    crowd_gone.wait();
    for h in long_handles {
        outs.push(h.join().unwrap_or_else(|_| died()));
    }
    outs.extend(crowd);
    outs
}

/// the programs on real threads released together by a barrier
fn run_concurrently(progs: &[usize], opseed: u64, mode: Mode) -> Vec<ThreadOut> {
    let barrier = Arc::new(Barrier::new(progs.len()));
    let mut handles = Vec::new();
    for (tid, &m) in progs.iter().enumerate() {
        let b = barrier.clone();
        handles.push(std::thread::spawn(move || {
            b.wait();
            thread_work(tid, m, opseed, mode)
        }));
    }
    handles
        .into_iter()
        .map(|h| {
            h.join().unwrap_or_else(|_| ThreadOut::died("panic:join".into()))
        })
        .collect()
}

/// the same programs run alone: one fresh thread after the other (a fresh thread, so that a thread-local generator
/// starts at its seed exactly as it did for the concurrent thread)
fn run_alone(progs: &[usize], opseed: u64, mode: Mode) -> Vec<ThreadOut> {
    progs
        .iter()
        .enumerate()
        .map(|(tid, &m)| {
            std::thread::spawn(move || thread_work(tid, m, opseed, mode))
                .join()
                .unwrap_or_else(|_| ThreadOut::died("panic:join".into()))
        })
        .collect()
}

/// Compare the concurrent run with the Vec oracle and the run alone; `shapes`: the priorities are the same in both
/// runs (thread-local generator, or forced priorities), so the shapes must be equal too.
fn treap_verdict(outs: &[ThreadOut], solo: &[ThreadOut], shapes: bool) -> Option<String> {
    for (i, o) in outs.iter().enumerate() {
        if o.faulty.is_some() && o.panic.is_none() {
            // a thread whose own callbacks panic: only its priority stream is judged
            continue;
        }
        if let Some(p) = &o.panic {
            let alone = if solo[i].panic.is_none() { "succeeds" } else { "panics-too" };
            return Some(format!("fail:treap-thread{}-{}-while-the-same-operations-run-alone-{}", i, p, alone));
        }
        if o.result != o.oracle {
            return Some(format!("fail:treap-thread{}-differs-from-vec-oracle", i));
        }
        if o.result != solo[i].result {
            return Some(format!("fail:treap-thread{}-differs-from-run-alone", i));
        }
        if o.render != o.render_oracle {
            return Some(format!("fail:treap-thread{}-rendering-(TreePrinter/Debug)-of-its-own-treaps-differs-from-the-documented-layout", i));
        }
        // (a rendering shows the shape: it is comparable with the run alone only when both runs drew the same priorities)
        if shapes && o.render != solo[i].render {
            return Some(format!("fail:treap-thread{}-rendering-(TreePrinter/Debug)-of-its-own-treaps-differs-from-run-alone", i));
        }
        if shapes && o.shape != solo[i].shape {
            return Some(format!("fail:treap-thread{}-shape-differs-from-run-alone-with-the-same-priorities", i));
        }
    }
    None
}

/// `xs` is a subsequence of `seq`
fn is_subseq(xs: &[u64], seq: &[u64]) -> bool {
    let mut j = 0;
    for &x in xs {
        while j < seq.len() && seq[j] != x {
            j += 1;
        }
        if j == seq.len() {
            return false;
        }
        j += 1;
    }
    true
}

/// Runs in a fresh child process: `n` nodes created one after the other on the main thread — the
/// implementation's own sequential priority stream (little-endian u32s on stdout).
fn reference(n: usize) {
    use std::io::Write;
    let mut bytes = Vec::with_capacity(4 * n);
    for _ in 0..n {
        let node = TreapNode::new(0u8);
        bytes.extend_from_slice(&(node.priority as u32).to_le_bytes());
    }
    std::io::stdout().write_all(&bytes).unwrap();
}

/// Runs in a fresh child process: real threads, then the analysis against the sequential reference
/// stream (read from stdin); prints the `I … | V …` line.
fn worker(line: &str) -> String {
    let (disc, progs, opseed, p, mode) = match parse_run_line(line) {
        Some(x) => x,
        None => return out1("INVALID"),
    };
    let k = progs.len();
    if k == 0 || (k > 64 && mode != Mode::Long) {
        return out1("INVALID");
    }
    let total: usize = progs.iter().sum();
    let seq: Vec<u64> = {
        use std::io::Read;
        let mut bytes = Vec::new();
        std::io::stdin().read_to_end(&mut bytes).unwrap_or(0);
        bytes.chunks_exact(4).map(|c| u32::from_le_bytes([c[0], c[1], c[2], c[3]]) as u64).collect()
    };
    if seq.len() != total {
        return out2("no-sequential-reference", "fail:no-sequential-reference");
    }
    let mut harness_trouble: Option<String> = None;
    let (outs, solo) = match mode {
        Mode::Stack => {
            let (o, timed_out) = run_stack(k, progs[0], opseed, true);
            if timed_out {
                harness_trouble = Some("rendezvous-timed-out".into());
            }
            (o, run_stack(k, progs[0], opseed, false).0)
        }
        Mode::Exit => (run_exit(k, progs[0], opseed, true), run_exit(k, progs[0], opseed, false)),
        Mode::Long => (run_long(k - LONG_LIVED, progs[0], opseed, true), run_long(k - LONG_LIVED, progs[0], opseed, false)),
        Mode::Panic => {
            // the run alone first, in a fresh process of its own: no callback ever panics there
            let alone = panic_alone_from_child(line, k);
            let o = run_panic_together(k, progs[0], opseed);
            let solo: Vec<ThreadOut> = match alone {
                Some(v) => v
                    .into_iter()
                    .enumerate()
                    .map(|(i, a)| a.unwrap_or_else(|| ThreadOut { prios: Vec::new(), result: o[i].result, oracle: o[i].oracle, shape: o[i].shape, render: o[i].render, render_oracle: o[i].render_oracle, ops: [0; 8], panic: None, faulty: o[i].faulty }))
                    .collect(),
                None => {
                    harness_trouble = Some("run-alone-child-died".into());
                    (0..k).map(|_| ThreadOut::died("alone-child".into())).collect()
                }
            };
            for (i, t) in o.iter().enumerate() {
                if is_faulty(i) && progs[0] >= 2 && t.panic.is_none() && t.faulty.unwrap_or(0) == 0 {
                    harness_trouble = Some(format!("thread{}-callback-that-panics-was-never-called-by-merge", i));
                }
            }
            (o, solo)
        }
        _ => (run_concurrently(&progs, opseed, mode), run_alone(&progs, opseed, mode)),
    };
    if let Some(why) = harness_trouble {
        return out2(&why, &format!("fail:{}", why));
    }
    // a thread that panicked has no complete stream: that is the finding, not the missing draws
    if outs.iter().any(|o| o.panic.is_some()) {
        let v = treap_verdict(&outs, &solo, false).unwrap_or_else(|| "fail:thread-panicked".into());
        let n = outs.iter().filter(|o| o.panic.is_some()).count();
        return out2(&format!("panicked-threads={}/{}", n, k), &v);
    }
    let tl_ok = outs.iter().all(|o| o.prios[..] == seq[..o.prios.len()]);
    let mut union: Vec<u64> = outs.iter().flat_map(|o| o.prios.iter().copied()).collect();
    union.sort_unstable();
    let mut seq_sorted = seq.clone();
    seq_sorted.sort_unstable();
    let multiset_ok = union == seq_sorted;
    let incr_ok = outs.iter().all(|o| is_subseq(&o.prios, &seq));
    let sh_ok = multiset_ok && incr_ok;

    let stream_fail = |what: &str| -> String {
        // a short, deterministic description of the first discrepancy
        if what == "tl" {
            for (i, o) in outs.iter().enumerate() {
                for (j, &x) in o.prios.iter().enumerate() {
                    if x != seq[j] {
                        return format!("fail:thread{}-draw{}-got{}-sequential-stream-has{}", i, j, x, seq[j]);
                    }
                }
            }
            "fail:thread-stream-differs".to_string()
        } else if !multiset_ok {
            // first value occurring more (or less) often than in the sequential stream
            let (mut a, mut b) = (0, 0);
            while a < union.len() && b < seq_sorted.len() {
                if union[a] == seq_sorted[b] {
                    a += 1;
                    b += 1;
                } else if union[a] < seq_sorted[b] {
                    let idx = seq.iter().position(|&y| y == union[a]);
                    return match idx {
                        Some(i) => format!("fail:duplicated-draw-value{}-sequential-index{}", union[a], i + 1),
                        None => format!("fail:foreign-value{}", union[a]),
                    };
                } else {
                    let idx = seq.iter().position(|&y| y == seq_sorted[b]).unwrap_or(0);
                    return format!("fail:lost-draw-value{}-sequential-index{}", seq_sorted[b], idx + 1);
                }
            }
            "fail:lost-or-duplicated-draw".to_string()
        } else {
            "fail:thread-stream-not-increasing-in-sequential-index".to_string()
        }
    };

    let (raw_tl, streams_view) = match disc.as_str() {
        "threadLocal" => (true, if tl_ok { "ok".to_string() } else { stream_fail("tl") }),
        "unknown" => {
            if tl_ok {
                (true, "ok".to_string())
            } else if sh_ok {
                (false, "ok".to_string())
            } else {
                (false, stream_fail("sh"))
            }
        }
        _ => (false, if sh_ok { "ok".to_string() } else { stream_fail("sh") }),
    };
    // no constants in the case line (the generator's arithmetic was not recognised): the model cannot predict the values,
    // only how many draws every thread made
    let blind = p.a == 0 && p.c == 0;
    let raw = if raw_tl {
        let one = |xs: &[u64]| if blind { xs.len().to_string() } else { summ(xs) };
        if mode == Mode::Long {
            // the long-lived threads one by one, the crowd's draws (one per thread, in thread order) as one stream
            let mut v: Vec<String> = outs.iter().take(LONG_LIVED).map(|o| one(&o.prios)).collect();
            let crowd: Vec<u64> = outs.iter().skip(LONG_LIVED).flat_map(|o| o.prios.iter().copied()).collect();
            v.push(format!("crowd:{}", one(&crowd)));
            format!("T {}", v.join(";"))
        } else {
            let v: Vec<String> = outs.iter().map(|o| one(&o.prios)).collect();
            format!("T {}", v.join(";"))
        }
    } else if blind {
        format!("U {}", union.len())
    } else {
        format!("U {}", summ(&union))
    };
    let mut view = streams_view;
    let mut raw = raw;
    if view != "ok" {
        // the observation itself (the run is not reproducible): the first draws of every thread
        let obs: Vec<String> = if mode == Mode::Long {
            // the long-lived threads: their draws around the pause (index m/2 is the first draw after the crowd has gone)
            let h = progs[0] / 2;
            let mut v: Vec<String> = outs
                .iter()
                .enumerate()
                .take(LONG_LIVED)
                .map(|(i, o)| {
                    let (a, b) = (h.saturating_sub(2).min(o.prios.len()), (h + 4).min(o.prios.len()));
                    format!("t{}={:?}..draws{}-{}={:?}", i, &o.prios[..o.prios.len().min(3)], a, b, &o.prios[a..b]).replace(' ', "")
                })
                .collect();
            let crowd: Vec<u64> = outs.iter().skip(LONG_LIVED).take(6).flat_map(|o| o.prios.iter().copied()).collect();
            v.push(format!("crowd={:?}", crowd).replace(' ', ""));
            v
        } else {
            outs.iter()
                .enumerate()
                .take(64)
                .map(|(i, o)| format!("t{}={:?}", i, &o.prios[..o.prios.len().min(6)]).replace(' ', ""))
                .collect()
        };
        raw = format!("{} observed:{}", raw, obs.join(";"));
    } else {
        let shapes = mode == Mode::Tie || mode == Mode::Stack || disc == "threadLocal";
        if let Some(f) = treap_verdict(&outs, &solo, shapes) {
            view = f;
        }
    }
    let ops = outs.iter().fold([0u64; 8], |mut a, o| {
        for j in 0..8 {
            a[j] += o.ops[j];
        }
        a
    });
    let _ = ops;
    out2(&raw, &view)
}

/// `conc …` / `sched …` → (disc, programs, opseed, params, heavy ops from the first draw)
fn parse_run_line(line: &str) -> Option<(String, Vec<usize>, u64, Params, Mode)> {
    let parts: Vec<&str> = line.split(';').map(|s| s.trim()).collect();
    let ts: Vec<&str> = parts[0].split_whitespace().collect();
    match ts.first().copied() {
        Some("conc") | Some("tie") | Some("deep") | Some("render") | Some("stack") | Some("panic") | Some("exit") | Some("long") if parts.len() == 1 && ts.len() == 11 => {
            let k: usize = ts[2].parse().ok()?;
            let m: usize = ts[3].parse().ok()?;
            let opseed: u64 = ts[4].parse().ok()?;
            let p = Params::parse(&ts[5..])?;
            if k * m > 50_000_000 {
                return None;
            }
            let mode = match ts[0] {
                "tie" => Mode::Tie,
                "deep" => Mode::Deep,
                "render" => Mode::Render,
                "stack" => Mode::Stack,
                "panic" => Mode::Panic,
                "exit" => Mode::Exit,
                "long" => Mode::Long,
                _ => Mode::Normal,
            };
            if mode == Mode::Long {
                // `k` = size of the crowd
                if k > 100_000 {
                    return None;
                }
                return Some((ts[1].to_string(), long_progs(k, m), opseed, p, mode));
            }
            Some((ts[1].to_string(), vec![m; k], opseed, p, mode))
        }
        Some("sched") | Some("fsched") if parts.len() == 3 && ts.len() == 8 => {
            let p = Params::parse(&ts[2..])?;
            let progs: Option<Vec<usize>> = parts[1].split_whitespace().map(|t| t.parse().ok()).collect();
            let progs = progs?;
            if progs.iter().sum::<usize>() > 1_000_000 {
                return None;
            }
            let opseed = fnv(&parts[2].split_whitespace().map(|t| t.parse().unwrap_or(0)).collect::<Vec<u64>>());
            Some((ts[1].to_string(), progs, opseed, p, Mode::Heavy))
        }
        _ => None,
    }
}

fn run_case(line: &str, disc: &str) -> String {
    let ts: Vec<&str> = line.split_whitespace().collect();
    match ts.first().copied() {
        Some("disc") => out1(disc),
        Some("stream") if ts.len() == 8 => {
            let (p, n) = match (Params::parse(&ts[1..7]), ts[7].parse::<usize>()) {
                (Some(p), Ok(n)) if n <= 10_000_000 => (p, n),
                _ => return out1("INVALID"),
            };
            // the real generator type used by treap_node.rs, seeded from the case
            let mut rng = Rng::from_seed(p.seed);
            let real: Vec<u64> = (0..n).map(|_| p.mask(rng.next_raw())).collect();
            out1(&show_stream(&real))
        }
        Some("conc") | Some("tie") | Some("deep") | Some("render") | Some("stack") | Some("panic") | Some("exit") | Some("long") | Some("sched") | Some("fsched") => {
            if parse_run_line(line).is_none() {
                return out1("INVALID");
            }
            let exe = std::env::current_exe().expect("current_exe");
            let total: usize = parse_run_line(line).map(|x| x.1.iter().sum()).unwrap_or(0);
            let refstream = match std::process::Command::new(&exe).arg("ref").arg(total.to_string()).output() {
                Ok(o) if o.status.success() && o.stdout.len() == 4 * total => o.stdout,
                _ => return out2("reference-run-died", "fail:reference-run-died"),
            };
            let child = std::process::Command::new(&exe)
                .arg("worker")
                .arg(line)
                .stdin(std::process::Stdio::piped())
                .stdout(std::process::Stdio::piped())
                .stderr(std::process::Stdio::null())
                .spawn();
            let res = child.and_then(|mut c| {
                use std::io::Write;
                // the worker reads stdin to the end before it starts its threads
                let mut stdin = c.stdin.take().unwrap();
                let w = std::thread::spawn(move || {
                    let _ = stdin.write_all(&refstream);
                });
                let o = c.wait_with_output();
                let _ = w.join();
                o
            });
            match res {
                Ok(o) => {
                    let s = String::from_utf8_lossy(&o.stdout);
                    let l = s.lines().next().unwrap_or("").trim().to_string();
                    if o.status.success() && l.starts_with("I ") {
                        l
                    } else {
                        out2(&format!("worker-died:{}", o.status), "fail:worker-died")
                    }
                }
                Err(e) => out2(&format!("worker-not-started:{}", e), "fail:worker-not-started"),
            }
        }
        _ => out1("INVALID"),
    }
}

/// all distinct interleavings of `progs[j]` copies of `j`
fn interleavings(progs: &[usize], cur: &mut Vec<usize>, left: &mut Vec<usize>, out: &mut Vec<Vec<usize>>) {
    if left.iter().all(|&x| x == 0) {
        out.push(cur.clone());
        return;
    }
    for j in 0..progs.len() {
        if left[j] > 0 {
            left[j] -= 1;
            cur.push(j);
            interleavings(progs, cur, left, out);
            cur.pop();
            left[j] += 1;
        }
    }
}

fn main() {
    let argv: Vec<String> = std::env::args().collect();
    if argv.get(1).map(|s| s.as_str()) == Some("ref") {
        reference(argv.get(2).and_then(|s| s.parse().ok()).unwrap_or(0));
        return;
    }
    if argv.get(1).map(|s| s.as_str()) == Some("miri") {
        // the program run under Miri (`cargo +nightly miri run -- miri <disc>`): two threads, every kind of treap
        // operation the harness knows, then with forced equal priorities; compared with the same operations run alone
        install_quiet_panic_hook();
        let disc = argv.get(2).cloned().unwrap_or_default();
        let mut bad = false;
        for (mode, m) in [(Mode::Heavy, 14usize), (Mode::Tie, 12)] {
            let progs = [m, m];
            let outs = run_concurrently(&progs, 7, mode);
            let solo = run_alone(&progs, 7, mode);
            for (i, o) in outs.iter().enumerate() {
                println!("{:?} thread {} priorities {:?} ops {:?}", mode, i, &o.prios[..o.prios.len().min(6)], o.ops);
            }
            if let Some(f) = treap_verdict(&outs, &solo, mode == Mode::Tie || disc == "threadLocal") {
                println!("INTERFERENCE {:?} {}", mode, f);
                bad = true;
            }
        }
        std::process::exit(if bad { 3 } else { 0 });
    }
    if argv.get(1).map(|s| s.as_str()) == Some("alone") {
        install_quiet_panic_hook();
        alone_child(argv.get(2).map(|s| s.as_str()).unwrap_or(""));
        return;
    }
    if argv.get(1).map(|s| s.as_str()) == Some("worker") {
        install_quiet_panic_hook();
        println!("{}", worker(argv.get(2).map(|s| s.as_str()).unwrap_or("")));
        return;
    }
    let pre = parse_args();
    let disc = pre.extra.get("disc").cloned().unwrap_or_else(|| "unknown".to_string());
    let disc_run = disc.clone();
    cli(
        move |args, emit, stats| {
            let g = |k: &str, d: u64| -> u64 { args.extra.get(k).and_then(|v| v.parse().ok()).unwrap_or(d) };
            let p = Params {
                a: g("A", 0),
                c: g("C", 0),
                mixmul: g("mixmul", 0),
                mixshift: g("mixshift", 0) as u32,
                bits: g("bits", 32) as u32,
                seed: g("rngseed", 0),
            };
            let thorough = args.tier == "thorough";
            // the debug build of rlib (debug_assert!, cfg(debug_assertions), overflow checks) gets the cases with real
            // threads only, in smaller sizes: the generator arithmetic and the model's schedules do not depend on the profile
            let debug = args.extra.get("profile").map_or(false, |s| s == "debug");
            let mut rng = SplitMix64::new(args.seed);
            emit("disc".to_string());
            stats.bump("disc");
            // without the LCG constants the model cannot compute streams: the stress still runs (judged against
            // the implementation's own sequential run; the raw digests will differ from the model's)
            let have_lcg = args.extra.contains_key("A");
            if !have_lcg {
                stats.bump("no_lcg_constants");
            }
            // (i) the generator itself: extracted constants vs the real `Rng`, boundary + random seeds
            let mut seeds = vec![0u64, 1, 2, p.seed, p.seed.wrapping_add(1), u64::MAX, u64::MAX - 1, 1 << 63, (1 << 32) - 1, 1 << 32];
            for _ in 0..(if thorough { 200 } else { 30 }) {
                seeds.push(rng.next_u64());
            }
            if !have_lcg || debug {
                seeds.clear();
            }
            for &s in &seeds {
                for n in [1usize, 2, 7, 32] {
                    let q = Params { seed: s, ..p };
                    emit(format!("stream {} {}", q.show(), n));
                    stats.bump("stream");
                }
            }
            for n in [1000usize, 100_000].into_iter().filter(|_| have_lcg && !debug) {
                emit(format!("stream {} {}", p.show(), n));
                emit(format!("stream {} {}", Params { seed: rng.next_u64(), ..p }.show(), n));
                stats.add("stream", 2);
            }
            // (ii) exhaustive small scope: every interleaving of small programs (model side follows the
            // schedule; the real threads are scheduled by the OS). Only for one-step disciplines: under a
            // split discipline the model itself violates the property on some of these schedules.
            let safe = matches!(disc.as_str(), "threadLocal" | "mutex" | "atomicRmw") && !debug;
            if safe {
                let scopes: Vec<Vec<usize>> = if thorough {
                    vec![vec![1, 1], vec![2, 1], vec![2, 2], vec![3, 2], vec![3, 3], vec![1, 1, 1], vec![2, 2, 1], vec![2, 2, 2], vec![4, 3], vec![3, 2, 2], vec![1, 1, 1, 1], vec![2, 1, 1, 1]]
                } else {
                    vec![vec![1, 1], vec![2, 1], vec![2, 2], vec![3, 2], vec![1, 1, 1], vec![2, 2, 1]]
                };
                for progs in scopes {
                    let mut out = Vec::new();
                    interleavings(&progs, &mut Vec::new(), &mut progs.clone(), &mut out);
                    let ps: Vec<String> = progs.iter().map(|x| x.to_string()).collect();
                    for sch in out {
                        let ss: Vec<String> = sch.iter().map(|x| x.to_string()).collect();
                        emit(format!("sched {} {} ; {} ; {}", disc, p.show(), ps.join(" "), ss.join(" ")));
                        stats.bump("sched_exhaustive");
                    }
                }
                // schedules with stutter steps (finished or non-existent threads) between the real ones
                for _ in 0..(if thorough { 200 } else { 30 }) {
                    let k = 2 + rng.below(4) as usize;
                    let progs: Vec<usize> = (0..k).map(|_| rng.below(6) as usize).collect();
                    let mut left = progs.clone();
                    let mut sch = Vec::new();
                    while left.iter().any(|&x| x > 0) {
                        let j = rng.below(k as u64 + 2) as usize;
                        sch.push(j);
                        if j < k && left[j] > 0 {
                            left[j] -= 1;
                        }
                    }
                    let ps: Vec<String> = progs.iter().map(|x| x.to_string()).collect();
                    let ss: Vec<String> = sch.iter().map(|x| x.to_string()).collect();
                    emit(format!("sched {} {} ; {} ; {}", disc, p.show(), ps.join(" "), ss.join(" ")));
                    stats.bump("sched_random_stutter");
                }
            }
            // (ii') the fine-grained system of the model: every interleaving of the micro-operations of tiny programs
            // (followed by enough round-robin entries for every thread to finish: blocked lock attempts and failed
            // CASes consume schedule entries), and random ones
            if safe {
                let per_draw = if disc == "mutex" { 4 } else { 2 };
                let scopes: Vec<Vec<usize>> = if disc == "mutex" {
                    if thorough { vec![vec![1, 1], vec![2, 1]] } else { vec![vec![1, 1]] }
                } else if thorough {
                    vec![vec![1, 1], vec![2, 1], vec![2, 2], vec![1, 1, 1], vec![3, 2]]
                } else {
                    vec![vec![1, 1], vec![2, 1], vec![1, 1, 1]]
                };
                let tail = |k: usize, total: usize| -> Vec<usize> {
                    let mut v = Vec::new();
                    for _ in 0..(6 * per_draw * total + 10) {
                        for j in 0..k {
                            v.push(j);
                        }
                    }
                    v
                };
                for progs in scopes {
                    let steps: Vec<usize> = progs.iter().map(|m| m * per_draw).collect();
                    let mut out = Vec::new();
                    interleavings(&steps, &mut Vec::new(), &mut steps.clone(), &mut out);
                    let ps: Vec<String> = progs.iter().map(|x| x.to_string()).collect();
                    let total: usize = progs.iter().sum();
                    for mut sch in out {
                        sch.extend(tail(progs.len(), total));
                        let ss: Vec<String> = sch.iter().map(|x| x.to_string()).collect();
                        emit(format!("fsched {} {} ; {} ; {}", disc, p.show(), ps.join(" "), ss.join(" ")));
                        stats.bump("fsched_exhaustive");
                    }
                }
                for _ in 0..(if thorough { 300 } else { 40 }) {
                    let k = 2 + rng.below(4) as usize;
                    let progs: Vec<usize> = (0..k).map(|_| rng.below(5) as usize).collect();
                    let total: usize = progs.iter().sum();
                    let mut sch: Vec<usize> = (0..(3 * per_draw * total)).map(|_| rng.below(k as u64 + 1) as usize).collect();
                    sch.extend(tail(k, total));
                    let ps: Vec<String> = progs.iter().map(|x| x.to_string()).collect();
                    let ss: Vec<String> = sch.iter().map(|x| x.to_string()).collect();
                    emit(format!("fsched {} {} ; {} ; {}", disc, p.show(), ps.join(" "), ss.join(" ")));
                    stats.bump("fsched_random");
                }
            }
            // (iii) stress: k threads × m draws with treap operations
            let plan: Vec<(usize, usize, usize)> = if debug {
                if thorough { vec![(2, 1000, 3), (4, 1000, 3), (16, 1000, 3), (8, 10_000, 1), (16, 5_000, 1)] } else { vec![(2, 500, 1), (4, 300, 1), (16, 100, 1), (8, 1500, 1)] }
            } else if thorough {
                // (k, m, repetitions)
                vec![(2, 1000, 10), (4, 1000, 10), (8, 1000, 10), (16, 1000, 10), (2, 100_000, 6), (4, 50_000, 6), (8, 40_000, 6), (16, 25_000, 6), (2, 400_000, 2), (8, 100_000, 2), (16, 60_000, 3)]
            } else {
                vec![(2, 500, 3), (4, 500, 3), (8, 500, 3), (16, 500, 3), (2, 50_000, 1), (4, 40_000, 1), (8, 25_000, 1), (16, 15_000, 1)]
            };
            for (k, m, reps) in plan {
                for _ in 0..reps {
                    emit(format!("conc {} {} {} {} {}", disc, k, m, rng.next_u64() >> 1, p.show()));
                    stats.bump(&format!("conc_k{}", k));
                    stats.add("conc_draws", (k * m) as u64);
                    stats.add("conc_threads", k as u64);
                }
            }
            // (iv) interference between thread-owned treaps that does not go through the generator:
            // `tie`  = every node's public `priority` field overwritten with 0..3 (ties in every merge), shapes compared
            //          with the same operations run alone;
            // `deep` = many more threads than cores, uncapped treaps, every thread inside split/merge most of the time
            let tie_plan: Vec<(usize, usize, usize)> = if debug {
                if thorough { vec![(4, 200, 3)] } else { vec![(4, 80, 1)] }
            } else if thorough { vec![(2, 400, 4), (4, 400, 4), (8, 300, 4), (16, 200, 4)] } else {
                vec![(2, 300, 1), (4, 300, 1), (16, 150, 1)]
            };
            for (k, m, reps) in tie_plan {
                for _ in 0..reps {
                    emit(format!("tie {} {} {} {} {}", disc, k, m, rng.next_u64() >> 1, p.show()));
                    stats.bump("tie");
                    stats.add("tie_draws", (k * m) as u64);
                }
            }
            // `render` = every thread renders its own treaps (TreePrinter / Debug) after every draw: state shared
            // through the printing code shows as a text that differs from the documented layout / the run alone
            let render_plan: Vec<(usize, usize, usize)> = if debug {
                if thorough { vec![(4, 100, 3)] } else { vec![(4, 50, 1)] }
            } else if thorough { vec![(2, 400, 2), (4, 400, 2), (8, 300, 2), (16, 200, 2), (64, 100, 1)] } else {
                vec![(4, 300, 1), (16, 150, 1)]
            };
            for (k, m, reps) in render_plan {
                for _ in 0..reps {
                    emit(format!("render {} {} {} {} {}", disc, k, m, rng.next_u64() >> 1, p.show()));
                    stats.bump("render");
                    stats.add("render_draws", (k * m) as u64);
                }
            }
            let deep_plan: Vec<(usize, usize, usize)> = if debug {
                if thorough { vec![(64, 1500, 1)] } else { vec![(64, 200, 1)] }
            } else if thorough {
                vec![(64, 3000, 3), (48, 10_000, 1), (64, 30_000, 1)]
            } else {
                vec![(64, 3000, 1)]
            };
            for (k, m, reps) in deep_plan {
                for _ in 0..reps {
                    emit(format!("deep {} {} {} {} {}", disc, k, m, rng.next_u64() >> 1, p.show()));
                    stats.bump("deep");
                    stats.add("deep_draws", (k * m) as u64);
                    stats.add("deep_threads", k as u64);
                }
            }
            // (v) wave 3 — interference that needs a particular situation rather than a particular schedule (both profiles):
            // `stack` = tall thread-owned treaps (priorities written through the public field), ALL threads held at the bottom
            //           of the same recursive operation (merge / split_at / split_by / collect_into) at the same instant by a
            //           rendezvous inside the item callback;
            // `panic` = every second thread's `update`/`push` callback panics (caught inside the thread, or the thread dies and
            //           is joined); the others keep working, also after the neighbours have panicked;
            // `exit`  = the last draws of every thread are made from the destructor of a thread-local while the thread exits
            let w3: [(&str, Vec<(usize, usize, usize)>); 3] = if thorough && debug {
                [
                    ("stack", vec![(16, 300, 2), (64, 500, 1), (16, 1500, 1), (2, 300, 1)]),
                    ("panic", vec![(2, 2000, 1), (8, 1000, 1), (16, 500, 2), (64, 200, 1)]),
                    ("exit", vec![(2, 1000, 1), (8, 500, 1), (16, 200, 2), (64, 100, 1)]),
                ]
            } else if thorough {
                [
                    ("stack", vec![(16, 300, 2), (64, 500, 2), (64, 2000, 1), (32, 4000, 1), (2, 300, 1)]),
                    ("panic", vec![(2, 2000, 3), (8, 1000, 3), (16, 500, 3), (64, 200, 2)]),
                    ("exit", vec![(2, 1000, 2), (8, 500, 2), (16, 200, 3), (64, 100, 2)]),
                ]
            } else {
                [
                    ("stack", vec![(16, 300, 1), (64, 200, 1), (4, 1000, 1)]),
                    ("panic", vec![(2, 500, 1), (8, 300, 1), (16, 150, 1)]),
                    ("exit", vec![(4, 200, 1), (16, 100, 1)]),
                ]
            };
            for (kind, plan) in w3 {
                for (k, m, reps) in plan {
                    for _ in 0..reps {
                        emit(format!("{} {} {} {} {} {}", kind, disc, k, m, rng.next_u64() >> 1, p.show()));
                        stats.bump(kind);
                        stats.add(&format!("{}_draws", kind), (k * m) as u64);
                    }
                }
            }
            // (vi) wave 4 — `long`: two long-lived threads make half of their draws, a crowd of k short-lived threads (one node each,
            //      a few at a time) comes and goes, the long-lived threads make the other half: their streams must go on as if
            //      nothing had happened in between (seeded C17_m12: per-thread state kept in a process-wide table indexed by a
            //      thread ordinal that wraps / is recycled). Crowd sizes beyond 256, 2*256 and (thorough) 4096.
            let long_plan: Vec<(usize, usize, usize)> = if thorough && debug {
                vec![(300, 200, 1), (1100, 100, 1)]
            } else if thorough {
                vec![(300, 200, 2), (700, 400, 2), (1100, 100, 1), (5000, 1000, 1), (3, 300, 1)]
            } else if debug {
                vec![(300, 60, 1)]
            } else {
                vec![(300, 200, 1), (700, 60, 1), (3, 100, 1)]
            };
            for (k, m, reps) in long_plan {
                for _ in 0..reps {
                    emit(format!("long {} {} {} {} {}", disc, k, m, rng.next_u64() >> 1, p.show()));
                    stats.bump("long");
                    stats.add("long_crowd_threads", k as u64);
                    stats.add("long_draws", (LONG_LIVED * m + k) as u64);
                }
            }
        },
        move |line| run_case(line, &disc_run),
    );
}
