//! Correspondence harness for engine `sieve` (property C13): drives rlib_sieve::Sieve through its public API
//! (`new`, `min_prime`, `is_prime`, `primes`, `factorize`).  Case forms: see lean/Driver/Sieve.lean.
#[path = "../../common/mod.rs"]
mod common;
use common::*;
use rlib_sieve::Sieve;

const FNV_INIT: u64 = 0xcbf29ce484222325;
#[inline]
fn fnv(h: u64, x: u64) -> u64 {
    (h ^ x).wrapping_mul(0x100000001b3)
}

/// independent oracle 1: least divisor >= 2 by trial division (n >= 2)
fn min_fac(n: u64) -> u64 {
    let mut d = 2u64;
    while d * d <= n {
        if n % d == 0 {
            return d;
        }
        d += 1;
    }
    n
}

fn oracle_factorize(mut n: u64) -> Vec<(u64, u32)> {
    let mut out = Vec::new();
    let mut d = 2u64;
    while n > 1 {
        if d * d > n {
            out.push((n, 1));
            break;
        }
        if n % d == 0 {
            let mut e = 0;
            while n % d == 0 {
                n /= d;
                e += 1;
            }
            out.push((d, e));
        }
        d += 1;
    }
    out
}

/// independent oracle 2: segmented sieve of Eratosthenes giving the least prime factor of every c in [lo, hi)
/// (0 for c < 2); base primes up to sqrt(hi) from a plain Eratosthenes sieve.
struct Segmented {
    base: Vec<u64>,
}
impl Segmented {
    fn new(limit: u64) -> Self {
        let mut r = 1u64;
        while r * r <= limit {
            r += 1;
        }
        let mut comp = vec![false; (r + 1) as usize];
        let mut base = Vec::new();
        for i in 2..=r {
            if !comp[i as usize] {
                base.push(i);
                let mut m = i * i;
                while m <= r {
                    comp[m as usize] = true;
                    m += i;
                }
            }
        }
        Segmented { base }
    }
    fn segment(&self, lo: u64, hi: u64) -> Vec<u64> {
        let mut spf = vec![0u64; (hi - lo) as usize];
        for &p in &self.base {
            if p * p >= hi {
                break;
            }
            let mut m = ((lo + p - 1) / p * p).max(p * p);
            while m < hi {
                let k = (m - lo) as usize;
                if spf[k] == 0 {
                    spf[k] = p;
                }
                m += p;
            }
        }
        for c in lo..hi {
            let k = (c - lo) as usize;
            if spf[k] == 0 && c >= 2 {
                spf[k] = c; // prime
            }
        }
        spf
    }
}

struct Tables {
    raw: String,
    view: String,
}

/// read all three tables through the accessors, hash them, and compare each entry with the oracle
fn observe(s: &Sieve, n_lim: usize, segmented: bool) -> Tables {
    let mut hm = FNV_INIT;
    let mut hi = FNV_INIT;
    let mut bad: Option<String> = None;
    let seg = if segmented { Some(Segmented::new(n_lim as u64 + 1)) } else { None };
    const SEG: usize = 1 << 16;
    let mut expected_primes: Vec<i32> = Vec::new();
    let mut lo = 0usize;
    while lo <= n_lim {
        let hi_ix = (lo + SEG).min(n_lim + 1);
        let want: Vec<u64> = match &seg {
            Some(sg) => sg.segment(lo as u64, hi_ix as u64),
            None => (lo..hi_ix).map(|c| if c < 2 { 0 } else { min_fac(c as u64) }).collect(),
        };
        for c in lo..hi_ix {
            let m = s.min_prime(c as i32);
            let p = s.is_prime(c as i32);
            hm = fnv(hm, (m as i64 + 1) as u64);
            hi = fnv(hi, if p { 2 } else { 1 });
            let w = want[c - lo];
            let wp = c >= 2 && w == c as u64;
            if wp {
                expected_primes.push(c as i32);
            }
            if bad.is_none() {
                if c >= 2 && m as i64 != w as i64 {
                    bad = Some(format!("bad mnp[{}]={} want {}", c, m, w));
                } else if p != wp {
                    bad = Some(format!("bad isp[{}]={} want {}", c, p, wp));
                }
            }
        }
        lo = hi_ix;
    }
    let pr = s.primes();
    let mut hp = FNV_INIT;
    for &p in pr.iter() {
        hp = fnv(hp, p as i64 as u64);
    }
    if bad.is_none() && *pr != expected_primes {
        let k = pr.iter().zip(expected_primes.iter()).position(|(a, b)| a != b).unwrap_or(pr.len().min(expected_primes.len()));
        bad = Some(format!(
            "bad primes[{}]={:?},want={:?},len={},want_len={}",
            k,
            pr.get(k),
            expected_primes.get(k),
            pr.len(),
            expected_primes.len()
        ));
    }
    Tables {
        raw: format!("len={} mnp#{:016x} isp#{:016x} primes#{}:{:016x}", n_lim + 1, hm, hi, pr.len(), hp),
        view: bad.unwrap_or_else(|| "ok".to_string()),
    }
}

fn show_fact(v: &[(i32, i32)]) -> String {
    let parts: Vec<String> = v.iter().map(|(p, e)| format!("{}^{}", p, e)).collect();
    format!("[{}]", parts.join(","))
}

/// `factorize(n).collect()`, guarded against a runaway iterator (a broken table could loop forever); returns raw and view:
/// inside the property's domain (1 <= n <= N) the view is the raw result if it equals the trial-division oracle,
/// else `oracle-mismatch:<raw>`
fn factorize(s: &Sieve, n_lim: usize, n: i32) -> (String, String) {
    let r = catch(|| {
        let mut out = Vec::new();
        for pe in s.factorize(n) {
            out.push(pe);
            if out.len() > 64 {
                return Err(out);
            }
        }
        Ok(out)
    });
    match r {
        Ok(Ok(v)) => {
            let raw = show_fact(&v);
            let in_dom = n >= 1 && (n as usize) <= n_lim;
            let want: Vec<(i32, i32)> = if in_dom { oracle_factorize(n as u64).iter().map(|&(p, e)| (p as i32, e as i32)).collect() } else { vec![] };
            if in_dom && v != want {
                let view = format!("oracle-mismatch:{}", raw);
                (raw, view)
            } else {
                (raw.clone(), raw)
            }
        }
        Ok(Err(v)) => {
            let t = format!("runaway:{}", show_fact(&v[..4]));
            (t.clone(), t)
        }
        Err(e) => (e.clone(), e),
    }
}

fn run_case(line: &str) -> String {
    let toks: Vec<&str> = line.split_whitespace().collect();
    if toks.len() < 2 {
        return "I bad-op | V bad-op".to_string();
    }
    let n_lim: usize = match toks[1].parse() {
        Ok(v) => v,
        Err(_) => return "I bad-op | V bad-op".to_string(),
    };
    // a fresh `Sieve::new` for every case (no harness-side cache: state kept between calls must be rlib's own)
    let s = &match catch(|| Sieve::new(n_lim)) {
        Ok(s) => s,
        Err(e) => return out1(&e),
    };
    match toks[0] {
        "tab" | "big" => match catch(|| observe(s, n_lim, toks[0] == "big")) {
            Ok(t) => out2(&t.raw, &t.view),
            Err(e) => out1(&e),
        },
        "mnp" => {
            let v: Vec<String> = (0..=n_lim)
                .map(|c| match catch(|| s.min_prime(c as i32)) {
                    Ok(x) => x.to_string(),
                    Err(e) => e,
                })
                .collect();
            // the property speaks about 2 <= n: entries 0 and 1 are masked in the view
            let mut w = v.clone();
            for x in w.iter_mut().take(2) {
                *x = "_".to_string();
            }
            out2(&format!("[{}]", v.join(",")), &format!("[{}]", w.join(",")))
        }
        "isp" => {
            let v: String = (0..=n_lim)
                .map(|c| match catch(|| s.is_prime(c as i32)) {
                    Ok(true) => '1',
                    Ok(false) => '0',
                    Err(_) => 'E',
                })
                .collect();
            out1(&v)
        }
        "primes" => {
            let v: Vec<String> = s.primes().iter().map(|p| p.to_string()).collect();
            out1(&format!("[{}]", v.join(",")))
        }
        "mp" | "ip" | "fact" => {
            let n: i64 = match toks.get(2).and_then(|t| t.parse().ok()) {
                Some(v) => v,
                None => return "I bad-op | V bad-op".to_string(),
            };
            let n = n as i32;
            match toks[0] {
                "mp" => out1(&match catch(|| s.min_prime(n)) {
                    Ok(x) => x.to_string(),
                    Err(e) => e,
                }),
                "ip" => out1(&match catch(|| s.is_prime(n)) {
                    Ok(x) => x.to_string(),
                    Err(e) => e,
                }),
                _ => {
                    let (raw, view) = factorize(s, n_lim, n);
                    out2(&raw, &view)
                }
            }
        }
        "factm" => {
            let ns: Vec<i32> = toks.get(2).map(|t| t.split(',').filter_map(|x| x.parse().ok()).collect()).unwrap_or_default();
            let rv: Vec<(String, String)> = ns.iter().map(|&n| factorize(s, n_lim, n)).collect();
            let raws: Vec<&str> = rv.iter().map(|x| x.0.as_str()).collect();
            let views: Vec<&str> = rv.iter().map(|x| x.1.as_str()).collect();
            out2(&raws.join("/"), &views.join("/"))
        }
        _ => "I bad-op | V bad-op".to_string(),
    }
}

fn is_prime_u(n: u64) -> bool {
    n >= 2 && min_fac(n) == n
}

/// numbers whose factorisation exercises the grouping loop: highly composite, prime powers, p*q near the limit,
/// primes near the limit, random
fn fact_samples(rng: &mut SplitMix64, lim: u64, count: usize, st: &mut Stats) -> Vec<u64> {
    let mut v: Vec<u64> = Vec::new();
    let small = [2u64, 3, 5, 7, 11, 13, 17, 19, 23];
    // prime powers
    for &p in &[2u64, 3, 5, 7, 11, 13, 31, 97, 101, 997, 3163] {
        let mut x = p;
        while x <= lim {
            v.push(x);
            st.bump("fact_prime_power");
            x *= p;
        }
    }
    // primorials / highly composite
    let mut x = 1u64;
    for &p in &small {
        if x * p > lim {
            break;
        }
        x *= p;
        v.push(x);
        st.bump("fact_primorial");
    }
    for &h in &[12u64, 60, 360, 2520, 5040, 55440, 720720, 1441440, 4324320, 8648640] {
        if h <= lim {
            v.push(h);
            st.bump("fact_highly_composite");
        }
    }
    // the limit and its neighbours
    for d in 0..6u64 {
        if lim > d {
            v.push(lim - d);
            st.bump("fact_at_limit");
        }
    }
    // p*q near the limit and p^2 near the limit
    let mut r = 1u64;
    while (r + 1) * (r + 1) <= lim {
        r += 1;
    }
    let mut p = r;
    let mut found = 0;
    while p >= 2 && found < 6 {
        if is_prime_u(p) {
            v.push(p * p);
            st.bump("fact_prime_square_near_limit");
            let mut q = lim / p;
            while q >= 2 && !is_prime_u(q) {
                q -= 1;
            }
            if q >= 2 {
                v.push(p * q);
                st.bump("fact_semiprime_near_limit");
            }
            found += 1;
        }
        p -= 1;
    }
    while v.len() < count {
        let x = match rng.below(4) {
            0 => 1 + rng.below(lim),
            1 => {
                // smooth number
                let mut x = 1u64;
                loop {
                    let p = *rng.pick(&small);
                    if x * p > lim || rng.chance(1, 12) {
                        break;
                    }
                    x *= p;
                }
                x
            }
            2 => {
                // semiprime
                let a = 2 + rng.below(r.max(3) - 1);
                let b = 2 + rng.below((lim / a).max(3) - 1);
                (a * b).min(lim)
            }
            _ => lim - rng.below(lim.min(5000)),
        };
        v.push(x.max(1));
        st.bump("fact_random");
    }
    v
}

fn gen(args: &Args, emit: &mut dyn FnMut(String), st: &mut Stats) {
    let thorough = args.tier == "thorough";
    let mut rng = SplitMix64::new(args.seed ^ 0xC13);
    // (0) state kept between constructions in one process (caches, globals) must not leak: a large table, then smaller
    //     prime / composite limits cut out of its range, repeats, and growth again
    for n in [120usize, 113, 113, 112, 7, 120, 121, 2, 3, 3, 97, 96, 0, 1, 127, 31, 128] {
        emit(format!("tab {}", n));
        st.bump("tab_history_probe");
    }
    for (a, b) in [(200usize, 199usize), (199, 199), (60, 59), (400, 13)] {
        emit(format!("primes {}", a));
        emit(format!("primes {}", b));
        emit(format!("fact {} {}", a, b));
        emit(format!("mnp {}", b));
        st.add("history_probe_mixed", 4);
    }
    // (1) every limit in [0, 3000]: all tables, all n <= N (hash + entry-by-entry oracle comparison).  Zig-zag order
    //     3000, 0, 2999, 1, …: every construction is preceded by a much larger or much smaller one
    for k in 0..=1500usize {
        let pair = if k == 1500 { vec![1500] } else { vec![3000 - k, k] };
        for n in pair {
            emit(format!("tab {}", n));
            st.bump("tab_every_limit");
            st.add("table_entries", 3 * (n as u64 + 1));
        }
    }
    // (1b) limits just above 2^17 = 2 * 65536 (the first composites whose cofactor or prime does not fit 16 bits:
    //      131074 = 2 * 65537) and next to the first prime square above it (367^2 = 134689)
    for n in [131071usize, 131074, 131075, 134688, 134689, 134690] {
        emit(format!("tab {}", n));
        st.bump("tab_above_2_17");
        st.add("table_entries", 3 * (n as u64 + 1));
    }
    {
        let mut v: Vec<u64> = vec![65536, 65537, 131072, 131073, 131074, 131076, 134689, 2 * 65539, 65521 * 2, 139999, 140000];
        v.extend(fact_samples(&mut rng, 140_000, 120, st));
        let strs: Vec<String> = v.iter().map(|x| x.to_string()).collect();
        emit(format!("factm 140000 {}", strs.join(",")));
        st.bump("factm_above_2_17");
    }
    // (2) whole tables as text for every N <= 300 and for limits adjacent to prime squares
    let mut full: Vec<usize> = (0..=300).collect();
    for p in 2..=54u64 {
        if is_prime_u(p) && p * p > 300 {
            for d in [-1i64, 0, 1] {
                full.push(((p * p) as i64 + d) as usize);
            }
        }
    }
    for n in full {
        emit(format!("mnp {}", n));
        emit(format!("isp {}", n));
        emit(format!("primes {}", n));
        st.add("full_tables", 3);
    }
    // (3) factorize: every n <= 3000 on the big table and on the tightest table (N = n)
    for n in 1..=3000u64 {
        emit(format!("fact 3000 {}", n));
        emit(format!("fact {} {}", n, n));
        st.add("fact_exhaustive", 2);
    }
    // (4) single accessor calls incl. the boundary n = N and a small out-of-domain stream (n > N, n < 2)
    for _ in 0..400 {
        let nl = rng.below(3001);
        let n = match rng.below(4) {
            0 => nl,
            1 => nl + 1 + rng.below(3),
            2 => rng.below(2),
            _ => rng.below(nl + 1),
        };
        emit(format!("mp {} {}", nl, n));
        emit(format!("ip {} {}", nl, n));
        st.add(if n > nl { "accessor_out_of_range" } else { "accessor_in_range" }, 2);
    }
    for nl in [0u64, 1, 2, 10] {
        emit(format!("fact {} 0", nl));
        emit(format!("fact {} {}", nl, nl + 1));
        emit(format!("fact {} 1", nl));
        st.add("fact_out_of_domain_or_edge", 3);
    }
    // (5) sampled factorisations on larger tables
    let limits: Vec<u64> = if thorough { vec![100_000, 1_000_000, 10_000_000] } else { vec![100_000] };
    for lim in limits {
        let per_line = 500;
        let lines = if thorough { 8 } else { 2 };
        for _ in 0..lines {
            let v = fact_samples(&mut rng, lim, per_line, st);
            let strs: Vec<String> = v.iter().map(|x| x.to_string()).collect();
            emit(format!("factm {} {}", lim, strs.join(",")));
            st.bump("factm_lines");
        }
    }
    // (6) larger limits
    let extra = if thorough { 150 } else { 6 };
    for _ in 0..extra {
        let n = 3001 + rng.below(if thorough { 300_000 } else { 60_000 });
        emit(format!("tab {}", n));
        st.bump("tab_random_limit");
        st.add("table_entries", 3 * (n + 1));
    }
    if thorough {
        for n in [999_999u64, 1_000_000] {
            emit(format!("tab {}", n));
            st.bump("tab_1e6_vs_model");
            st.add("table_entries", 3 * (n + 1));
        }
        emit("big 10000000".to_string());
        st.bump("big_1e7_vs_segmented_eratosthenes");
        st.add("table_entries", 3 * 10_000_001);
    }
}

fn main() {
    // oracle self-test: the two oracles agree with each other on a window (cheap; guards the harness itself)
    let sg = Segmented::new(5000);
    let w = sg.segment(0, 5000);
    for c in 2..5000u64 {
        assert_eq!(w[c as usize], min_fac(c), "oracle self-test");
    }
    assert_eq!(oracle_factorize(360), vec![(2, 3), (3, 2), (5, 1)]);
    cli(gen, run_case);
}
