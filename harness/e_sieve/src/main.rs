//! Correspondence harness for engine `sieve` (property C13): drives rlib_sieve::Sieve through its public API
//! (`new`, `min_prime`, `is_prime`, `primes`, `factorize`, every provided method of the `Iterator` that `factorize` returns).
//! Case forms: see lean/Driver/Sieve.lean.
#[path = "../../common/mod.rs"]
mod common;
use common::*;
use rlib_sieve::Sieve;

const FNV_INIT: u64 = 0xcbf29ce484222325;
#[inline]
fn fnv(h: u64, x: u64) -> u64 {
    (h ^ x).wrapping_mul(0x100000001b3)
}

/// independent oracle 1: least divisor >= 2 by trial division (n >= 2)
fn min_fac(n: u64) -> u64 {
    let mut d = 2u64;
    while d * d <= n {
        if n % d == 0 {
            return d;
        }
        d += 1;
    }
    n
}

fn oracle_factorize(mut n: u64) -> Vec<(u64, u32)> {
    let mut out = Vec::new();
    let mut d = 2u64;
    while n > 1 {
        if d * d > n {
            out.push((n, 1));
            break;
        }
        if n % d == 0 {
            let mut e = 0;
            while n % d == 0 {
                n /= d;
                e += 1;
            }
            out.push((d, e));
        }
        d += 1;
    }
    out
}

/// independent oracle 2: segmented sieve of Eratosthenes giving the least prime factor of every c in [lo, hi)
/// (0 for c < 2); base primes up to sqrt(hi) from a plain Eratosthenes sieve.
struct Segmented {
    base: Vec<u64>,
}
impl Segmented {
    fn new(limit: u64) -> Self {
        let mut r = 1u64;
        while r * r <= limit {
            r += 1;
        }
        let mut comp = vec![false; (r + 1) as usize];
        let mut base = Vec::new();
        for i in 2..=r {
            if !comp[i as usize] {
                base.push(i);
                let mut m = i * i;
                while m <= r {
                    comp[m as usize] = true;
                    m += i;
                }
            }
        }
        Segmented { base }
    }
    fn segment(&self, lo: u64, hi: u64) -> Vec<u64> {
        let mut spf = vec![0u64; (hi - lo) as usize];
        for &p in &self.base {
            if p * p >= hi {
                break;
            }
            let mut m = ((lo + p - 1) / p * p).max(p * p);
            while m < hi {
                let k = (m - lo) as usize;
                if spf[k] == 0 {
                    spf[k] = p;
                }
                m += p;
            }
        }
        for c in lo..hi {
            let k = (c - lo) as usize;
            if spf[k] == 0 && c >= 2 {
                spf[k] = c; // prime
            }
        }
        spf
    }
}

struct Tables {
    raw: String,
    view: String,
}

/// read all three tables through the accessors, hash them, and compare each entry with the oracle
fn observe(s: &Sieve, n_lim: usize, segmented: bool) -> Tables {
    let mut hm = FNV_INIT;
    let mut hi = FNV_INIT;
    let mut bad: Option<String> = None;
    let seg = if segmented { Some(Segmented::new(n_lim as u64 + 1)) } else { None };
    const SEG: usize = 1 << 16;
    let mut expected_primes: Vec<i32> = Vec::new();
    let mut lo = 0usize;
    while lo <= n_lim {
        let hi_ix = (lo + SEG).min(n_lim + 1);
        let want: Vec<u64> = match &seg {
            Some(sg) => sg.segment(lo as u64, hi_ix as u64),
            None => (lo..hi_ix).map(|c| if c < 2 { 0 } else { min_fac(c as u64) }).collect(),
        };
        for c in lo..hi_ix {
            let m = s.min_prime(c as i32);
            let p = s.is_prime(c as i32);
            hm = fnv(hm, (m as i64 + 1) as u64);
            hi = fnv(hi, if p { 2 } else { 1 });
            let w = want[c - lo];
            let wp = c >= 2 && w == c as u64;
            if wp {
                expected_primes.push(c as i32);
            }
            if bad.is_none() {
                if c >= 2 && m as i64 != w as i64 {
                    bad = Some(format!("bad mnp[{}]={} want {}", c, m, w));
                } else if p != wp {
                    bad = Some(format!("bad isp[{}]={} want {}", c, p, wp));
                }
            }
        }
        lo = hi_ix;
    }
    let pr = s.primes();
    let mut hp = FNV_INIT;
    for &p in pr.iter() {
        hp = fnv(hp, p as i64 as u64);
    }
    if bad.is_none() && *pr != expected_primes {
        let k = pr.iter().zip(expected_primes.iter()).position(|(a, b)| a != b).unwrap_or(pr.len().min(expected_primes.len()));
        bad = Some(format!(
            "bad primes[{}]={:?},want={:?},len={},want_len={}",
            k,
            pr.get(k),
            expected_primes.get(k),
            pr.len(),
            expected_primes.len()
        ));
    }
    Tables {
        raw: format!("len={} mnp#{:016x} isp#{:016x} primes#{}:{:016x}", n_lim + 1, hm, hi, pr.len(), hp),
        view: bad.unwrap_or_else(|| "ok".to_string()),
    }
}

fn show_fact(v: &[(i32, i32)]) -> String {
    let parts: Vec<String> = v.iter().map(|(p, e)| format!("{}^{}", p, e)).collect();
    format!("[{}]", parts.join(","))
}

/// `factorize(n).collect()`, guarded against a runaway iterator (a broken table could loop forever); returns raw and view:
/// inside the property's domain (1 <= n <= N) the view is the raw result if it equals the trial-division oracle,
/// else `oracle-mismatch:<raw>`
fn factorize(s: &Sieve, n_lim: usize, n: i32) -> (String, String) {
    let r = catch(|| {
        let mut out = Vec::new();
        for pe in s.factorize(n) {
            out.push(pe);
            if out.len() > 64 {
                return Err(out);
            }
        }
        Ok(out)
    });
    match r {
        Ok(Ok(v)) => {
            let raw = show_fact(&v);
            let in_dom = n >= 1 && (n as usize) <= n_lim;
            let want: Vec<(i32, i32)> = if in_dom { oracle_factorize(n as u64).iter().map(|&(p, e)| (p as i32, e as i32)).collect() } else { vec![] };
            if in_dom && v != want {
                let view = format!("oracle-mismatch:{}", raw);
                (raw, view)
            } else {
                (raw.clone(), raw)
            }
        }
        Ok(Err(v)) => {
            let t = format!("runaway:{}", show_fact(&v[..4]));
            (t.clone(), t)
        }
        Err(e) => (e.clone(), e),
    }
}


// ------------------------------------------------------------------------------------------------------------------
// independent oracle 3: least-prime-factor table by a plain sieve of Eratosthenes (first writer wins), kept for the
// whole process and grown on demand (an ORACLE cache; the sieve under test is still built afresh for every case)
// ------------------------------------------------------------------------------------------------------------------
struct Spf {
    spf: Vec<u32>,
    primes: Vec<i32>,
}
thread_local! {
    static SPF: std::cell::RefCell<Spf> = std::cell::RefCell::new(Spf { spf: Vec::new(), primes: Vec::new() });
}
fn spf_build(len: usize) -> Spf {
    let mut spf = vec![0u32; len];
    let mut primes = Vec::new();
    for i in 2..len {
        if spf[i] == 0 {
            spf[i] = i as u32;
            primes.push(i as i32);
            let mut m = i * i;
            while m < len {
                if spf[m] == 0 {
                    spf[m] = i as u32;
                }
                m += i;
            }
        }
    }
    Spf { spf, primes }
}
fn with_spf<R>(n_lim: usize, f: impl FnOnce(&Spf) -> R) -> R {
    SPF.with(|c| {
        if c.borrow().spf.len() < n_lim + 1 {
            let len = (n_lim + 1).next_power_of_two().max(1 << 17) + 1;
            *c.borrow_mut() = spf_build(len);
        }
        f(&c.borrow())
    })
}

/// summary of a freshly built sieve (raw) and the verdict of the entry-by-entry comparison of all three tables with
/// the Eratosthenes oracle (view: `ok` / first bad entry)
fn summary(s: &Sieve, n_lim: usize) -> (String, String) {
    let pr = s.primes();
    let mut hp = FNV_INIT;
    for &p in pr.iter() {
        hp = fnv(hp, p as i64 as u64);
    }
    let opt = |x: Option<&i32>| x.map(|v| v.to_string()).unwrap_or_else(|| "-".to_string());
    let mn = match catch(|| s.min_prime(n_lim as i32)) {
        Ok(x) => x.to_string(),
        Err(e) => e,
    };
    let ip = match catch(|| s.is_prime(n_lim as i32)) {
        Ok(x) => x.to_string(),
        Err(e) => e,
    };
    let raw = format!("np={} hp={:016x} first={} last={} mnpN={} ispN={}", pr.len(), hp, opt(pr.first()), opt(pr.last()), mn, ip);
    let view = match catch(|| {
        with_spf(n_lim, |o| {
            for c in 0..=n_lim {
                let w = o.spf[c];
                let wp = c >= 2 && w as usize == c;
                let m = s.min_prime(c as i32);
                let p = s.is_prime(c as i32);
                if c >= 2 && m as i64 != w as i64 {
                    return format!("bad mnp[{}]={} want {}", c, m, w);
                }
                if p != wp {
                    return format!("bad isp[{}]={} want {}", c, p, wp);
                }
            }
            let cnt = o.primes.partition_point(|&p| (p as usize) <= n_lim);
            let want = &o.primes[..cnt];
            if pr.as_slice() != want {
                let k = pr.iter().zip(want.iter()).position(|(a, b)| a != b).unwrap_or(pr.len().min(want.len()));
                return format!("bad primes[{}]={:?},want={:?},len={},want_len={}", k, pr.get(k), want.get(k), pr.len(), want.len());
            }
            // the list and the flags answer the same question (values the API returned, fed back in)
            let wp_n = n_lim >= 2 && o.spf[n_lim] as usize == n_lim;
            if pr.binary_search(&(n_lim as i32)).is_ok() != wp_n {
                return format!("bad primes.binary_search({})", n_lim);
            }
            "ok".to_string()
        })
    }) {
        Ok(v) => v,
        Err(e) => e,
    };
    (raw, view)
}

// ------------------------------------------------------------------------------------------------------------------
// every way of consuming an iterator of (prime, exponent) pairs: `k` calls of `next`, then each provided method of
// `Iterator` on what is left.  Generic, so that the very same code runs on `Sieve::factorize(n)` and on
// `Vec::into_iter()` of the trial-division factorisation (std's own iterator = the reference semantics).
// ------------------------------------------------------------------------------------------------------------------
type Item = (i32, i32);
fn show_item(x: &Item) -> String {
    format!("{}^{}", x.0, x.1)
}
fn show_opt(x: &Option<Item>) -> String {
    x.as_ref().map(show_item).unwrap_or_else(|| "-".to_string())
}
fn fold_step(h: u64, x: Item) -> u64 {
    h.wrapping_mul(31).wrapping_add(x.0 as i64 as u64).wrapping_mul(31).wrapping_add(x.1 as i64 as u64)
}
const RUNAWAY: usize = 64;

/// Err = the whole record (panic of the plain `next` loop / runaway); Ok = (record without `sh=`, size_hint, items left)
fn modes<I: Iterator<Item = Item>>(mk: &dyn Fn() -> I, k: usize) -> Result<(String, (usize, Option<usize>), usize), String> {
    let adv = || {
        let mut it = mk();
        for _ in 0..k {
            it.next();
        }
        it
    };
    let f = |g: &dyn Fn() -> String| -> String {
        match catch(g) {
            Ok(v) => v,
            Err(e) => e,
        }
    };
    // (1) by hand, guarded: the results of the k first calls, then `next` until None, then twice more (stays None)
    let hand = catch(|| {
        let mut it = mk();
        let pre: Vec<Option<Item>> = (0..k).map(|_| it.next()).collect();
        let mut rest = Vec::new();
        while let Some(x) = it.next() {
            rest.push(x);
            if rest.len() > RUNAWAY {
                return Err(rest);
            }
        }
        let fused = it.next().is_none() && it.next().is_none();
        Ok((pre, rest, fused))
    });
    let (pre, rest, fused) = match hand {
        Err(e) => return Err(e),
        Ok(Err(v)) => return Err(format!("runaway:{}", show_fact(&v[..4]))),
        Ok(Ok(t)) => t,
    };
    let pre_s: Vec<String> = pre.iter().map(show_opt).collect();
    let mut out = format!("pre=<{}>", pre_s.join(","));
    out += &format!(" c={}", f(&|| show_fact(&adv().take(RUNAWAY + 1).collect::<Vec<_>>())));
    // plain collect without the guard as well (it is what users write); the guarded run above has shown that it ends
    let plain = f(&|| show_fact(&adv().collect::<Vec<_>>()));
    if plain != show_fact(&rest) {
        out += &format!("(collect={})", plain);
    }
    out += &format!(" h={}{}", show_fact(&rest), if fused { "" } else { "!unfused" });
    out += &format!(" n={}", f(&|| adv().count().to_string()));
    out += &format!(" l={}", f(&|| show_opt(&adv().last())));
    out += &format!(" f={}", f(&|| adv().fold(7u64, fold_step).to_string()));
    out += &format!(
        " e={}",
        f(&|| {
            let mut h = 7u64;
            adv().for_each(|x| h = fold_step(h, x));
            h.to_string()
        })
    );
    out += &format!(" s={}", f(&|| adv().map(|x| x.1).sum::<i32>().to_string()));
    out += &format!(" p={}", f(&|| adv().map(|x| x.1 + 1).product::<i32>().to_string()));
    out += &format!(" mx={}", f(&|| show_opt(&adv().max())));
    out += &format!(" mn={}", f(&|| show_opt(&adv().min())));
    out += &format!(" xk={}", f(&|| show_opt(&adv().max_by_key(|x| x.1))));
    out += &format!(" nk={}", f(&|| show_opt(&adv().min_by_key(|x| x.1))));
    out += &format!(" rd={}", f(&|| show_opt(&adv().reduce(|a, b| (b.0, a.1 + b.1)))));
    out += &format!(" fd={}", f(&|| show_opt(&adv().find(|x| x.1 >= 2))));
    out += &format!(" ps={}", f(&|| adv().position(|x| x.1 == 1).map(|v| v.to_string()).unwrap_or_else(|| "-".to_string())));
    out += &format!(" an={}", f(&|| adv().any(|x| x.0 > 1000).to_string()));
    out += &format!(" al={}", f(&|| adv().all(|x| x.1 == 1).to_string()));
    out += &format!(
        " pt={}",
        f(&|| {
            let (a, b): (Vec<Item>, Vec<Item>) = adv().partition(|x| x.1 % 2 == 1);
            format!("{}+{}", show_fact(&a), show_fact(&b))
        })
    );
    out += &format!(
        " uz={}",
        f(&|| {
            let (a, b): (Vec<i32>, Vec<i32>) = adv().unzip();
            format!("{:?}+{:?}", a, b).replace(' ', "")
        })
    );
    for j in 0..2usize {
        out += &format!(
            " n{}={}",
            j,
            f(&|| {
                let mut it = adv();
                let x = it.nth(j);
                format!("{}>{}", show_opt(&x), show_fact(&it.take(RUNAWAY + 1).collect::<Vec<_>>()))
            })
        );
    }
    out += &format!(" sk={}", f(&|| show_fact(&adv().skip(1).take(RUNAWAY + 1).collect::<Vec<_>>())));
    out += &format!(" st={}", f(&|| show_fact(&adv().step_by(2).take(RUNAWAY + 1).collect::<Vec<_>>())));
    out += &format!(
        " tk={}",
        f(&|| {
            let mut it = adv();
            let a: Vec<Item> = it.by_ref().take(1).collect();
            format!("{}+{}", show_fact(&a), it.count())
        })
    );
    out += &format!(" eq={}", f(&|| adv().eq(rest.iter().copied()).to_string()));
    let sh = match catch(|| adv().size_hint()) {
        Ok(v) => v,
        Err(_) => (usize::MAX, Some(0)),
    };
    Ok((out, sh, rest.len()))
}

/// one record of an `itm` line: (raw, view)
fn modes_record(s: &Sieve, n_lim: usize, k: usize, n: i32) -> (String, String) {
    match modes(&|| s.factorize(n), k) {
        Err(e) => (e.clone(), e),
        Ok((rec, sh, left)) => {
            // size_hint: the property fixes no value, only that the pair brackets the number of items left
            let sh_ok = sh.0 <= left && sh.1.map_or(true, |u| left <= u);
            let sh_view = if sh_ok { "ok".to_string() } else { format!("bad({},{:?};left={})", sh.0, sh.1, left) };
            let raw = format!("{} sh={}", rec, sh_view);
            let in_dom = n >= 1 && (n as usize) <= n_lim;
            let mut view = raw.clone();
            if in_dom {
                let want: Vec<Item> = oracle_factorize(n as u64).iter().map(|&(p, e)| (p as i32, e as i32)).collect();
                match modes(&|| want.clone().into_iter(), k) {
                    Ok((w, _, _)) if w == rec => {}
                    _ => view = format!("oracle-mismatch:{}", view),
                }
            }
            (raw, view)
        }
    }
}

/// `live N1 N2 n1 n2 n3`: two sieves and three iterators alive at the same time, advanced in turn
fn live(a_lim: usize, b_lim: usize, n1: i32, n2: i32, n3: i32) -> (String, String) {
    let a = Sieve::new(a_lim);
    let b = Sieve::new(b_lim);
    let mut its = [a.factorize(n1), b.factorize(n2), a.factorize(n3)];
    let mut got: [Vec<Item>; 3] = [Vec::new(), Vec::new(), Vec::new()];
    let mut done = [false; 3];
    let mut steps = 0;
    // values the iterators return are fed back into the accessors of BOTH tables between the `next` calls
    let mut fb: Option<String> = None;
    while done.iter().any(|d| !d) && steps < RUNAWAY {
        for j in 0..3 {
            if !done[j] {
                match its[j].next() {
                    Some(x) => {
                        got[j].push(x);
                        for (t, lim) in [(&a, a_lim), (&b, b_lim)] {
                            if x.0 >= 2 && (x.0 as usize) <= lim && fb.is_none() && !(t.is_prime(x.0) && t.min_prime(x.0) == x.0) {
                                fb = Some(format!("bad({}:is_prime={},min_prime={})", x.0, t.is_prime(x.0), t.min_prime(x.0)));
                            }
                        }
                    }
                    None => done[j] = true,
                }
            }
        }
        steps += 1;
    }
    let facts = format!("a={} b={} c={}", show_fact(&got[0]), show_fact(&got[1]), show_fact(&got[2]));
    let (ra, va) = summary(&a, a_lim);
    let (rb, vb) = summary(&b, b_lim);
    drop(its);
    drop(a);
    let (rb2, vb2) = summary(&b, b_lim);
    (
        format!("{} A:{} B:{} B2:{}", facts, ra, rb, rb2),
        format!("{} A:{} B:{} B2:{} fb={}", facts, va, vb, vb2, fb.unwrap_or_else(|| "ok".to_string())),
    )
}

fn run_case(line: &str) -> String {
    let parts: Vec<&str> = line.split(';').map(|p| p.trim()).collect();
    let toks: Vec<&str> = parts[0].split_whitespace().collect();
    if toks.first() == Some(&"itm") {
        let (n_lim, k) = match (toks.get(1).and_then(|t| t.parse::<usize>().ok()), toks.get(2).and_then(|t| t.parse::<usize>().ok())) {
            (Some(a), Some(b)) => (a, b),
            _ => return "I bad-op | V bad-op".to_string(),
        };
        let mut ns: Vec<i32> = Vec::new();
        for p in &parts[1..] {
            match p.parse::<i64>() {
                Ok(v) => ns.push(v as i32),
                Err(_) => return "I bad-op | V bad-op".to_string(),
            }
        }
        let s = &match catch(|| Sieve::new(n_lim)) {
            Ok(s) => s,
            Err(e) => return out1(&e),
        };
        let rv: Vec<(String, String)> = ns.iter().map(|&n| modes_record(s, n_lim, k, n)).collect();
        let raws: Vec<&str> = rv.iter().map(|x| x.0.as_str()).collect();
        let views: Vec<&str> = rv.iter().map(|x| x.1.as_str()).collect();
        return out2(&raws.join(" / "), &views.join(" / "));
    }
    if toks.first() == Some(&"live") {
        let v: Vec<i64> = toks[1..].iter().filter_map(|t| t.parse().ok()).collect();
        if v.len() != 5 || toks.len() != 6 || v[0] < 0 || v[1] < 0 {
            return "I bad-op | V bad-op".to_string();
        }
        let in_dom = v[2] >= 1 && v[2] <= v[0] && v[3] >= 1 && v[3] <= v[1] && v[4] >= 1 && v[4] <= v[0];
        if !in_dom {
            return out1("out-of-domain");
        }
        return match catch(|| live(v[0] as usize, v[1] as usize, v[2] as i32, v[3] as i32, v[4] as i32)) {
            Ok((r, w)) => out2(&r, &w),
            Err(e) => out1(&e),
        };
    }
    if toks.len() < 2 {
        return "I bad-op | V bad-op".to_string();
    }
    let n_lim: usize = match toks[1].parse() {
        Ok(v) => v,
        Err(_) => return "I bad-op | V bad-op".to_string(),
    };
    // a fresh `Sieve::new` for every case (no harness-side cache: state kept between calls must be rlib's own)
    let s = &match catch(|| Sieve::new(n_lim)) {
        Ok(s) => s,
        Err(e) => return out1(&e),
    };
    match toks[0] {
        "new" => {
            let (raw, view) = summary(s, n_lim);
            out2(&raw, &view)
        }
        "tab" | "big" => match catch(|| observe(s, n_lim, toks[0] == "big")) {
            Ok(t) => out2(&t.raw, &t.view),
            Err(e) => out1(&e),
        },
        "mnp" => {
            let v: Vec<String> = (0..=n_lim)
                .map(|c| match catch(|| s.min_prime(c as i32)) {
                    Ok(x) => x.to_string(),
                    Err(e) => e,
                })
                .collect();
            // the property speaks about 2 <= n: entries 0 and 1 are masked in the view
            let mut w = v.clone();
            for x in w.iter_mut().take(2) {
                *x = "_".to_string();
            }
            out2(&format!("[{}]", v.join(",")), &format!("[{}]", w.join(",")))
        }
        "isp" => {
            let v: String = (0..=n_lim)
                .map(|c| match catch(|| s.is_prime(c as i32)) {
                    Ok(true) => '1',
                    Ok(false) => '0',
                    Err(_) => 'E',
                })
                .collect();
            out1(&v)
        }
        "primes" => {
            let v: Vec<String> = s.primes().iter().map(|p| p.to_string()).collect();
            out1(&format!("[{}]", v.join(",")))
        }
        "mp" | "ip" | "fact" => {
            let n: i64 = match toks.get(2).and_then(|t| t.parse().ok()) {
                Some(v) => v,
                None => return "I bad-op | V bad-op".to_string(),
            };
            let n = n as i32;
            match toks[0] {
                "mp" => out1(&match catch(|| s.min_prime(n)) {
                    Ok(x) => x.to_string(),
                    Err(e) => e,
                }),
                "ip" => out1(&match catch(|| s.is_prime(n)) {
                    Ok(x) => x.to_string(),
                    Err(e) => e,
                }),
                _ => {
                    let (raw, view) = factorize(s, n_lim, n);
                    out2(&raw, &view)
                }
            }
        }
        "factm" => {
            let ns: Vec<i32> = toks.get(2).map(|t| t.split(',').filter_map(|x| x.parse().ok()).collect()).unwrap_or_default();
            let rv: Vec<(String, String)> = ns.iter().map(|&n| factorize(s, n_lim, n)).collect();
            let raws: Vec<&str> = rv.iter().map(|x| x.0.as_str()).collect();
            let views: Vec<&str> = rv.iter().map(|x| x.1.as_str()).collect();
            out2(&raws.join("/"), &views.join("/"))
        }
        _ => "I bad-op | V bad-op".to_string(),
    }
}

fn is_prime_u(n: u64) -> bool {
    n >= 2 && min_fac(n) == n
}

/// numbers whose factorisation exercises the grouping loop: highly composite, prime powers, p*q near the limit,
/// primes near the limit, random
fn fact_samples(rng: &mut SplitMix64, lim: u64, count: usize, st: &mut Stats) -> Vec<u64> {
    let mut v: Vec<u64> = Vec::new();
    let small = [2u64, 3, 5, 7, 11, 13, 17, 19, 23];
    // prime powers
    for &p in &[2u64, 3, 5, 7, 11, 13, 31, 97, 101, 997, 3163] {
        let mut x = p;
        while x <= lim {
            v.push(x);
            st.bump("fact_prime_power");
            x *= p;
        }
    }
    // primorials / highly composite
    let mut x = 1u64;
    for &p in &small {
        if x * p > lim {
            break;
        }
        x *= p;
        v.push(x);
        st.bump("fact_primorial");
    }
    for &h in &[12u64, 60, 360, 2520, 5040, 55440, 720720, 1441440, 4324320, 8648640] {
        if h <= lim {
            v.push(h);
            st.bump("fact_highly_composite");
        }
    }
    // the limit and its neighbours
    for d in 0..6u64 {
        if lim > d {
            v.push(lim - d);
            st.bump("fact_at_limit");
        }
    }
    // p*q near the limit and p^2 near the limit
    let mut r = 1u64;
    while (r + 1) * (r + 1) <= lim {
        r += 1;
    }
    let mut p = r;
    let mut found = 0;
    while p >= 2 && found < 6 {
        if is_prime_u(p) {
            v.push(p * p);
            st.bump("fact_prime_square_near_limit");
            let mut q = lim / p;
            while q >= 2 && !is_prime_u(q) {
                q -= 1;
            }
            if q >= 2 {
                v.push(p * q);
                st.bump("fact_semiprime_near_limit");
            }
            found += 1;
        }
        p -= 1;
    }
    while v.len() < count {
        let x = match rng.below(4) {
            0 => 1 + rng.below(lim),
            1 => {
                // smooth number
                let mut x = 1u64;
                loop {
                    let p = *rng.pick(&small);
                    if x * p > lim || rng.chance(1, 12) {
                        break;
                    }
                    x *= p;
                }
                x
            }
            2 => {
                // semiprime
                let a = 2 + rng.below(r.max(3) - 1);
                let b = 2 + rng.below((lim / a).max(3) - 1);
                (a * b).min(lim)
            }
            _ => lim - rng.below(lim.min(5000)),
        };
        v.push(x.max(1));
        st.bump("fact_random");
    }
    v
}


fn primes_between(lo: u64, hi: u64) -> Vec<u64> {
    (lo..=hi).filter(|&x| is_prime_u(x)).collect()
}

/// arguments at which an `i32` intermediate one step beyond the data (p^(e+1), p*p, n*p) no longer fits although n does:
/// squares of primes q >= 1291 (q^3 >= 2^31) with small cofactors, the largest power of every small prime, multiples of
/// primes above 46340 (p^2 >= 2^31), semiprimes of two primes next to sqrt(lim), values next to the limit
fn overflow_edge_samples(rng: &mut SplitMix64, lim: u64, all_squares: bool, st: &mut Stats) -> Vec<u64> {
    let mut v: Vec<u64> = Vec::new();
    let mut r = 1u64;
    while (r + 1) * (r + 1) <= lim {
        r += 1;
    }
    if r >= 1291 {
        let qs = primes_between(1291, r);
        let pick: Vec<u64> = if all_squares {
            qs.clone()
        } else {
            let mut t: Vec<u64> = qs.iter().take(10).cloned().collect();
            t.extend(qs.iter().rev().take(10).cloned());
            for _ in 0..16 {
                t.push(*rng.pick(&qs));
            }
            t
        };
        for &q in &pick {
            v.push(q * q);
            st.bump("it_square_of_prime_ge_1291");
        }
        for m in 2..=7u64 {
            let qm: Vec<u64> = qs.iter().cloned().filter(|q| q * q * m <= lim).collect();
            if qm.is_empty() {
                continue;
            }
            let cnt = if all_squares { qm.len().min(40) } else { 3 };
            for t in 0..cnt {
                let q = if t == 0 { qm[0] } else if t == 1 { qm[qm.len() - 1] } else { *rng.pick(&qm) };
                v.push(q * q * m);
                st.bump("it_square_of_prime_ge_1291_times_m");
            }
        }
    }
    for p in primes_between(2, 230) {
        if p > lim {
            break;
        }
        let mut x = p;
        while x * p <= lim {
            x *= p;
        }
        v.push(x);
        st.bump("it_largest_power_of_small_prime");
        if x * 2 <= lim {
            v.push(x * 2);
        }
    }
    if lim > 46341 {
        let mut p = lim;
        let mut found = 0;
        while p > 46340 && found < 6 {
            if is_prime_u(p) {
                v.push(p);
                found += 1;
                st.bump("it_prime_next_to_limit");
            }
            p -= 1;
        }
        for &q in &[46337u64, 46349, 46351, 65521, 65537] {
            for m in 1..=3u64 {
                if q * m <= lim {
                    v.push(q * m);
                    st.bump("it_multiple_of_prime_near_46341");
                }
            }
        }
    }
    let near: Vec<u64> = primes_between(r.saturating_sub(60).max(2), r);
    for w in near.windows(2) {
        v.push(w[0] * w[1]);
        st.bump("it_semiprime_next_to_sqrt");
    }
    for d in 0..6u64 {
        if lim > d {
            v.push(lim - d);
        }
    }
    v
}

fn emit_itm(emit: &mut dyn FnMut(String), st: &mut Stats, n_lim: u64, k: usize, ns: &[u64], per_line: usize) {
    for chunk in ns.chunks(per_line) {
        let strs: Vec<String> = chunk.iter().map(|x| x.to_string()).collect();
        emit(format!("itm {} {} ; {}", n_lim, k, strs.join(" ; ")));
        st.bump("itm_lines");
        st.add("itm_records", chunk.len() as u64);
        st.add(&format!("itm_records_after_{}_next", k), chunk.len() as u64);
    }
}

fn gen(args: &Args, emit: &mut dyn FnMut(String), st: &mut Stats) {
    let thorough = args.tier == "thorough";
    // `--profile debug` (checks/C13.py: harness_args): the same stream, thinned out - an unoptimised build of the crate and of
    // the oracles is 10-20 times slower; what the debug build adds is debug_assert! / cfg(debug_assertions) code in the crate
    let dbg = args.extra.get("profile").map(|p| p == "debug").unwrap_or(false);
    if dbg {
        st.bump("debug_profile_thinned_stream");
    }
    let thorough_full = thorough && !dbg;
    let mut rng = SplitMix64::new(args.seed ^ 0xC13);
    // (0) state kept between constructions in one process (caches, globals) must not leak: a large table, then smaller
    //     prime / composite limits cut out of its range, repeats, and growth again
    for n in [120usize, 113, 113, 112, 7, 120, 121, 2, 3, 3, 97, 96, 0, 1, 127, 31, 128] {
        emit(format!("tab {}", n));
        st.bump("tab_history_probe");
    }
    for (a, b) in [(200usize, 199usize), (199, 199), (60, 59), (400, 13)] {
        emit(format!("primes {}", a));
        emit(format!("primes {}", b));
        emit(format!("fact {} {}", a, b));
        emit(format!("mnp {}", b));
        st.add("history_probe_mixed", 4);
    }
    // (1) every limit in [0, 3000]: all tables, all n <= N (hash + entry-by-entry oracle comparison).  Zig-zag order
    //     3000, 0, 2999, 1, …: every construction is preceded by a much larger or much smaller one
    let top: usize = if dbg { 600 } else { 3000 };
    for k in 0..=top / 2 {
        let pair = if k == top / 2 { vec![top / 2] } else { vec![top - k, k] };
        for n in pair {
            emit(format!("tab {}", n));
            st.bump("tab_every_limit");
            st.add("table_entries", 3 * (n as u64 + 1));
        }
    }
    // (1b) limits just above 2^17 = 2 * 65536 (the first composites whose cofactor or prime does not fit 16 bits:
    //      131074 = 2 * 65537) and next to the first prime square above it (367^2 = 134689)
    for n in [131071usize, 131074, 131075, 134688, 134689, 134690] {
        if dbg && n != 131074 {
            continue;
        }
        emit(format!("tab {}", n));
        st.bump("tab_above_2_17");
        st.add("table_entries", 3 * (n as u64 + 1));
    }
    {
        let mut v: Vec<u64> = vec![65536, 65537, 131072, 131073, 131074, 131076, 134689, 2 * 65539, 65521 * 2, 139999, 140000];
        v.extend(fact_samples(&mut rng, 140_000, 120, st));
        let strs: Vec<String> = v.iter().map(|x| x.to_string()).collect();
        emit(format!("factm 140000 {}", strs.join(",")));
        st.bump("factm_above_2_17");
    }
    // (2) whole tables as text for every N <= 300 and for limits adjacent to prime squares
    let mut full: Vec<usize> = (0..=300).collect();
    for p in 2..=54u64 {
        if is_prime_u(p) && p * p > 300 {
            for d in [-1i64, 0, 1] {
                full.push(((p * p) as i64 + d) as usize);
            }
        }
    }
    for n in full {
        emit(format!("mnp {}", n));
        emit(format!("isp {}", n));
        emit(format!("primes {}", n));
        st.add("full_tables", 3);
    }
    // (3) factorize: every n <= 3000 on the big table and on the tightest table (N = n)
    for n in 1..=(top as u64) {
        emit(format!("fact {} {}", top, n));
        emit(format!("fact {} {}", n, n));
        st.add("fact_exhaustive", 2);
    }
    // (4) single accessor calls incl. the boundary n = N and a small out-of-domain stream (n > N, n < 2)
    for _ in 0..400 {
        let nl = rng.below(3001);
        let n = match rng.below(4) {
            0 => nl,
            1 => nl + 1 + rng.below(3),
            2 => rng.below(2),
            _ => rng.below(nl + 1),
        };
        emit(format!("mp {} {}", nl, n));
        emit(format!("ip {} {}", nl, n));
        st.add(if n > nl { "accessor_out_of_range" } else { "accessor_in_range" }, 2);
    }
    for nl in [0u64, 1, 2, 10] {
        emit(format!("fact {} 0", nl));
        emit(format!("fact {} {}", nl, nl + 1));
        emit(format!("fact {} 1", nl));
        st.add("fact_out_of_domain_or_edge", 3);
    }
    // (5) sampled factorisations on larger tables
    let limits: Vec<u64> = if thorough_full { vec![100_000, 1_000_000, 10_000_000] } else if thorough { vec![100_000, 1_000_000] } else { vec![100_000] };
    for lim in limits {
        let per_line = 500;
        let lines = if thorough { 8 } else { 2 };
        for _ in 0..lines {
            let v = fact_samples(&mut rng, lim, per_line, st);
            let strs: Vec<String> = v.iter().map(|x| x.to_string()).collect();
            emit(format!("factm {} {}", lim, strs.join(",")));
            st.bump("factm_lines");
        }
    }
    // (6) larger limits
    let extra = if dbg { 2 } else if thorough { 150 } else { 6 };
    for _ in 0..extra {
        let n = 3001 + rng.below(if thorough { 300_000 } else { 60_000 });
        emit(format!("tab {}", n));
        st.bump("tab_random_limit");
        st.add("table_entries", 3 * (n + 1));
    }
    // (7) limits, densely: construction + summary + all three tables against the Eratosthenes oracle (`new N`).
    //     every limit up to 2^12 (thorough: 2^15), then a fixed stride up to 2^17 (quick 16, thorough 5: a run of that many
    //     consecutive bad limits anywhere below 2^17 cannot be missed), in zig-zag order (largest, smallest, …: every
    //     construction follows a much larger / much smaller one in the same process), then special limits
    {
        let dense_to: usize = if thorough_full { 1 << 15 } else { 1 << 12 };
        let stride: usize = if dbg { if thorough { 127 } else { 1021 } } else if thorough { 5 } else { 16 };
        let mut lims: Vec<usize> = (3001..=dense_to).collect();
        let mut x = dense_to + 1 + (rng.below(stride as u64) as usize);
        while x <= (1 << 17) {
            lims.push(x);
            x += stride;
        }
        st.add("new_every_limit", (dense_to - 3000) as u64);
        st.add("new_stride_limits", (lims.len() - (dense_to - 3000)) as u64);
        let (mut i, mut j) = (0usize, lims.len());
        while i < j {
            j -= 1;
            emit(format!("new {}", lims[j]));
            if i < j {
                emit(format!("new {}", lims[i]));
            }
            i += 1;
        }
        let mut special: Vec<usize> = vec![0, 1, 2, 3, 4, 63, 64, 65, 127, 128, 129, 255, 256, 257, 30029, 30030, 30031, 65520, 65521, 65522];
        for k in 9..=17u32 {
            for d in [-1i64, 0, 1] {
                special.push(((1i64 << k) + d) as usize);
            }
        }
        for p in primes_between(2, 362) {
            for d in [-1i64, 0, 1] {
                special.push(((p * p) as i64 + d) as usize);
            }
        }
        for _ in 0..(if dbg { 10 } else if thorough { 400 } else { 60 }) {
            // a prime limit, its neighbours, and a multiple of 64
            let mut q = 4096 + rng.below((1 << 17) - 4096);
            while !is_prime_u(q) {
                q -= 1;
            }
            special.push(q as usize);
            special.push(q as usize + 1);
            special.push((q as usize / 64) * 64);
        }
        for n in special {
            if dbg && n > 20_000 && !(n + 1).is_power_of_two() && !n.is_power_of_two() && !(n - 1).is_power_of_two() {
                continue;
            }
            emit(format!("new {}", n));
            st.bump("new_special_limit");
        }
    }
    // (8) every way of consuming `factorize(n)` (`itm N k ; n…`: k calls of next, then each provided Iterator method)
    {
        // (8a) exhaustive small scope: every n <= 640 after k = 0..3 calls of next, on one table and on tight tables
        let all: Vec<u64> = (1..=640).collect();
        for k in 0..=3usize {
            emit_itm(emit, st, 640, k, &all, 64);
        }
        for (c, chunk) in all.chunks(64).enumerate() {
            emit_itm(emit, st, *chunk.last().unwrap(), c % 3, chunk, 64);
        }
        // (8b) sampled arguments on 10^5 and just above 2^17
        for k in 0..=2usize {
            let v = fact_samples(&mut rng, 100_000, 128, st);
            emit_itm(emit, st, 100_000, k, &v, 64);
        }
        let mut v: Vec<u64> = vec![65536, 65537, 131072, 131073, 131074, 131076, 134689, 2 * 65539, 65521 * 2, 139999, 140000];
        v.extend(overflow_edge_samples(&mut rng, 140_000, false, st));
        emit_itm(emit, st, 140_000, 0, &v, 64);
        // out of the domain (n = 0, n > N): a short stream
        emit("itm 10 0 ; 0 ; 11 ; 6".to_string());
        emit("itm 10 2 ; 10 ; 12".to_string());
        st.add("itm_out_of_domain_lines", 2);
        // (8c) large arguments: limit 4*10^6 (debug build 2*10^6; thorough 10^7, also 10^6, every square of a prime >= 1291, and
        //      223^3 on 11.1M)
        let big: u64 = if dbg { 2_000_000 } else if thorough { 10_000_000 } else { 4_000_000 };
        let mut v = overflow_edge_samples(&mut rng, big, thorough_full, st);
        v.extend(fact_samples(&mut rng, big, if thorough_full { 600 } else { 100 }, st));
        if dbg {
            v.truncate(if thorough { 192 } else { 64 });
        }
        emit_itm(emit, st, big, 0, &v, 64);
        let w = overflow_edge_samples(&mut rng, big, false, st);
        if !dbg {
            emit_itm(emit, st, big, 1, &w[..w.len().min(64)], 64);
            emit_itm(emit, st, big, 2, &w[w.len().saturating_sub(64)..], 64);
        }
        if thorough_full {
            for k in 0..=2usize {
                let mut v = overflow_edge_samples(&mut rng, 1_000_000, false, st);
                v.extend(fact_samples(&mut rng, 1_000_000, 300, st));
                emit_itm(emit, st, 1_000_000, k, &v, 64);
            }
            let mut v: Vec<u64> = vec![223 * 223 * 223, 11_100_000, 2 * 2357 * 2357, 3331 * 3331, 3329 * 3331];
            v.extend(overflow_edge_samples(&mut rng, 11_100_000, false, st));
            emit_itm(emit, st, 11_100_000, 0, &v, 64);
        }
    }
    // (9) limits above 2^17 for `new` (the driver's cached table is the one of (8c) by now)
    {
        let mut v: Vec<u64> = if dbg {
            vec![(1 << 17) + 2]
        } else if thorough {
            vec![(1 << 20) - 1, 1 << 20, (1 << 20) + 1, 999_983, 1_000_000, 9_999_991, 10_000_000]
        } else {
            let mut q = 4_000_000u64;
            while !is_prime_u(q) {
                q -= 1;
            }
            vec![(1 << 20) - 1, 1 << 20, (1 << 20) + 1, 999_983, 1_000_000, q, 4_000_000]
        };
        for _ in 0..(if dbg { 1 } else if thorough { 120 } else { 8 }) {
            v.push((1 << 17) + rng.below((1 << 20) - (1 << 17)));
        }
        if thorough_full {
            for _ in 0..12 {
                v.push((1 << 20) + rng.below(9_000_000));
            }
        }
        for n in v {
            emit(format!("new {}", n));
            st.bump("new_limit_above_2_17");
        }
    }
    // (10) two sieves and three iterators alive at once, advanced in turn (state shared between objects must not leak)
    for t in 0..(if thorough { 400 } else { 60 }) {
        let a = if t % 20 == 7 { 131_073 + rng.below(3000) } else { 2 + rng.below(3000) };
        let b = match t % 4 {
            0 => a,
            1 => 2 + rng.below(a),
            _ => 2 + rng.below(3000),
        };
        let pickn = |rng: &mut SplitMix64, lim: u64| match rng.below(3) {
            0 => lim - rng.below(lim.min(4)),
            1 => {
                let mut x = 1u64;
                while x * 2 <= lim && !rng.chance(1, 9) {
                    x *= *rng.pick(&[2u64, 2, 3, 5]);
                    if x > lim {
                        x /= 5;
                    }
                }
                x.clamp(1, lim)
            }
            _ => 1 + rng.below(lim),
        };
        let (n1, n2, n3) = (pickn(&mut rng, a), pickn(&mut rng, b), pickn(&mut rng, a));
        emit(format!("live {} {} {} {} {}", a, b, n1, n2, n3));
        st.bump("live_two_sieves_three_iterators");
    }
    if thorough_full {
        for n in [999_999u64, 1_000_000] {
            emit(format!("tab {}", n));
            st.bump("tab_1e6_vs_model");
            st.add("table_entries", 3 * (n + 1));
        }
        emit("big 10000000".to_string());
        st.bump("big_1e7_vs_segmented_eratosthenes");
        st.add("table_entries", 3 * 10_000_001);
    }
}

fn main() {
    // oracle self-test: the two oracles agree with each other on a window (cheap; guards the harness itself)
    let sg = Segmented::new(5000);
    let w = sg.segment(0, 5000);
    for c in 2..5000u64 {
        assert_eq!(w[c as usize], min_fac(c), "oracle self-test");
    }
    assert_eq!(oracle_factorize(360), vec![(2, 3), (3, 2), (5, 1)]);
    cli(gen, run_case);
}
