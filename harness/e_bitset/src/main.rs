//! Correspondence harness for engine `bitset` (property C12): drives rlib_bitset::Bitset<N> and BitsIter.
//!
//! Case line: `<N> <K> ; op ; op ; ...` — K registers `Bitset::<N>::new()`; see `lean/Driver/Bitset.lean`
//! for the op list.  At the end every register is observed through the public API only: `test` on all
//! indices, `count`, `iter_bits().collect()`, `Display`, `Debug`, and `==` on all pairs.  An independent
//! `Vec<bool>` mirror of every register is maintained next to the real bitsets; `o=ok` at the end of the
//! answer says that all observations equal the mirror's.
//!
//! Each case runs on a worker thread under a watchdog (2 s of CPU time on one case): an iterator that never returns makes the answer
//! `hang` instead of blocking the check (later cases of that process are answered `INVALID skipped-after-hang`
//! and the process exits with code 3).
#[path = "../../common/mod.rs"]
mod common;
use common::*;
use rlib_bitset::Bitset;
use std::sync::mpsc;
use std::time::Duration;

const NS: [usize; 4] = [1, 2, 3, 10];

// ------------------------------------------------------------------------------------------------
// parsing
// ------------------------------------------------------------------------------------------------

#[derive(Clone, Debug)]
enum Op {
    New(usize),
    From(usize, u64),
    Set(usize, usize),
    Remove(usize, usize),
    Flip(usize, usize),
    Clear(usize),
    And(usize, usize, usize),
    Or(usize, usize, usize),
    Xor(usize, usize, usize),
    AndA(usize, usize),
    OrA(usize, usize),
    XorA(usize, usize),
    Not(usize, usize),
    Clone(usize, usize),
    Test(usize, usize),
    Load(usize, Vec<u64>),
}

fn reg(s: &str, k: usize) -> Option<usize> {
    if s.is_empty() || !s.bytes().all(|c| c.is_ascii_digit()) {
        return None;
    }
    let r = s.parse::<usize>().ok()?;
    if r < k {
        Some(r)
    } else {
        None
    }
}
fn pos(s: &str) -> Option<usize> {
    if s.is_empty() || !s.bytes().all(|c| c.is_ascii_digit()) {
        return None;
    }
    s.parse::<u64>().ok().map(|x| x as usize)
}
fn hex(s: &str) -> Option<u64> {
    if s.is_empty() || !s.bytes().all(|c| c.is_ascii_hexdigit()) {
        return None;
    }
    u64::from_str_radix(s, 16).ok()
}

fn parse_op(t: &[&str], k: usize) -> Option<Op> {
    Some(match t {
        ["new", d] => Op::New(reg(d, k)?),
        ["from", d, v] => Op::From(reg(d, k)?, hex(v)?),
        ["set", d, x] => Op::Set(reg(d, k)?, pos(x)?),
        ["remove", d, x] => Op::Remove(reg(d, k)?, pos(x)?),
        ["flip", d, x] => Op::Flip(reg(d, k)?, pos(x)?),
        ["clear", d] => Op::Clear(reg(d, k)?),
        ["and", d, a, b] => Op::And(reg(d, k)?, reg(a, k)?, reg(b, k)?),
        ["or", d, a, b] => Op::Or(reg(d, k)?, reg(a, k)?, reg(b, k)?),
        ["xor", d, a, b] => Op::Xor(reg(d, k)?, reg(a, k)?, reg(b, k)?),
        ["anda", d, s] => Op::AndA(reg(d, k)?, reg(s, k)?),
        ["ora", d, s] => Op::OrA(reg(d, k)?, reg(s, k)?),
        ["xora", d, s] => Op::XorA(reg(d, k)?, reg(s, k)?),
        ["not", d, s] => Op::Not(reg(d, k)?, reg(s, k)?),
        ["clone", d, s] => Op::Clone(reg(d, k)?, reg(s, k)?),
        ["test", r, x] => Op::Test(reg(r, k)?, pos(x)?),
        ["load", d, ws] => {
            let mut v = Vec::new();
            for w in ws.split(',') {
                v.push(hex(w)?);
            }
            Op::Load(reg(d, k)?, v)
        }
        _ => return None,
    })
}

// ------------------------------------------------------------------------------------------------
// running one history on the real crate + the Vec<bool> mirror
// ------------------------------------------------------------------------------------------------

fn pack_hex(bs: &[bool]) -> String {
    let mut s = String::with_capacity(bs.len() / 4 + 1);
    for c in bs.chunks(4) {
        let mut v = 0u32;
        for (i, &b) in c.iter().enumerate() {
            if b {
                v |= 1 << i;
            }
        }
        s.push(std::char::from_digit(v, 16).unwrap());
    }
    s
}

fn bits01(bs: &[bool]) -> String {
    bs.iter().map(|&b| if b { '1' } else { '0' }).collect()
}

/// `[a,b,c]`, or `^<hex of the member set>` when the list is strictly ascending and below `n`
/// (a strictly ascending list is determined by its set of elements, so nothing is lost).
fn show_iter(it: &[usize], n: usize) -> String {
    let asc = it.windows(2).all(|w| w[0] < w[1]) && it.iter().all(|&x| x < n);
    if asc {
        let mut m = vec![false; n];
        for &x in it {
            m[x] = true;
        }
        format!("^{}", pack_hex(&m))
    } else {
        format!("[{}]", it.iter().map(|x| x.to_string()).collect::<Vec<_>>().join(","))
    }
}

/// One iterator probe: the iterator after `k` calls of `next`, used through the provided `Iterator` methods.
#[derive(PartialEq)]
struct Probe {
    k: usize,
    count: usize,                                  // adv(k).count()
    last: Option<usize>,                           // adv(k).last()
    rest: Vec<usize>,                              // adv(k).collect()
    nths: Vec<(usize, Option<usize>, usize)>,      // j, adv(k).nth(j), then by_ref().count()
    peek: Option<usize>,                           // adv(k).peekable().peek()
    peek_count: usize,                             //   ... then .count()
    skip_count: usize,                             // iter_bits().skip(k).count()
    hint_ok: bool,                                 // size_hint brackets the number of remaining elements
    hint: (usize, Option<usize>),
}

fn dedup_keep_order(v: Vec<usize>) -> Vec<usize> {
    let mut out: Vec<usize> = Vec::new();
    for x in v {
        if !out.contains(&x) {
            out.push(x);
        }
    }
    out
}

/// prefix lengths probed for a set with `l` members: 0, 1, 2, l-1 (those <= l)
fn probe_ks(l: usize) -> Vec<usize> {
    dedup_keep_order(vec![0, 1, 2, l.saturating_sub(1)].into_iter().filter(|&k| k <= l).collect())
}
/// `nth` arguments probed with `rem` elements remaining
fn probe_js(rem: usize) -> Vec<usize> {
    dedup_keep_order(vec![0, 1, rem.saturating_sub(1), rem])
}

fn opt(x: Option<usize>) -> String {
    match x {
        Some(v) => v.to_string(),
        None => "-".to_string(),
    }
}

fn show_probe(p: &Probe, n: usize) -> String {
    format!(
        "k={}:c={}:l={}:r={}:n={}:p={}>{}:s={}:h={}",
        p.k,
        p.count,
        opt(p.last),
        show_iter(&p.rest, n),
        p.nths.iter().map(|(j, x, a)| format!("{}>{}>{}", j, opt(*x), a)).collect::<Vec<_>>().join("/"),
        opt(p.peek),
        p.peek_count,
        p.skip_count,
        if p.hint_ok { "ok".to_string() } else { format!("bad({},{:?})", p.hint.0, p.hint.1) }
    )
}

/// The probes on the real iterator.
fn probes_impl<const N: usize>(b: &Bitset<N>, l: usize) -> Vec<Probe> {
    let adv = |k: usize| {
        let mut it = b.iter_bits();
        for _ in 0..k {
            it.next();
        }
        it
    };
    probe_ks(l)
        .into_iter()
        .map(|k| {
            let rest: Vec<usize> = adv(k).collect();
            let rem = rest.len();
            let nths = probe_js(rem)
                .into_iter()
                .map(|j| {
                    let mut it = adv(k);
                    let x = it.nth(j);
                    let after = it.by_ref().count();
                    (j, x, after)
                })
                .collect();
            let mut pk = adv(k).peekable();
            let peek = pk.peek().copied();
            let peek_count = pk.count();
            let hint = adv(k).size_hint();
            Probe {
                k,
                count: adv(k).count(),
                last: adv(k).last(),
                nths,
                peek,
                peek_count,
                skip_count: b.iter_bits().skip(k).count(),
                hint_ok: hint.0 <= rem && hint.1.map_or(true, |h| rem <= h),
                hint,
                rest,
            }
        })
        .collect()
}

/// The same observables computed from the mirror's member list (independent oracle).
fn probes_oracle(members: &[usize]) -> Vec<Probe> {
    probe_ks(members.len())
        .into_iter()
        .map(|k| {
            let rest: Vec<usize> = members[k..].to_vec();
            let rem = rest.len();
            Probe {
                k,
                count: rem,
                last: rest.last().copied(),
                nths: probe_js(rem).into_iter().map(|j| (j, rest.get(j).copied(), rem.saturating_sub(j + 1))).collect(),
                peek: rest.first().copied(),
                peek_count: rem,
                skip_count: rem,
                hint_ok: true,
                hint: (0, None),
                rest,
            }
        })
        .collect()
}

struct RegObs {
    tests: Vec<bool>,
    count: usize,
    iter: Vec<usize>,
    disp: String,
    dbg: String,
    probes: Vec<Probe>,
}

fn show_reg(o: &RegObs, n: usize) -> String {
    format!(
        "t={},c={},i={},d={},g={},it={}",
        pack_hex(&o.tests),
        o.count,
        show_iter(&o.iter, n),
        o.disp,
        if o.dbg == o.disp { "same".to_string() } else { o.dbg.clone() },
        o.probes.iter().map(|p| show_probe(p, n)).collect::<Vec<_>>().join("+")
    )
}

fn run_history<const N: usize>(k: usize, ops: &[Op]) -> String {
    let bits = 64 * N;
    let mut regs: Vec<Bitset<N>> = (0..k).map(|_| Bitset::<N>::new()).collect();
    let mut mir: Vec<Vec<bool>> = vec![vec![false; bits]; k]; // independent oracle
    let mut log: Vec<bool> = Vec::new();
    let mut mlog: Vec<bool> = Vec::new();
    for op in ops {
        match op.clone() {
            Op::New(d) => {
                regs[d] = Bitset::<N>::new();
                mir[d] = vec![false; bits];
            }
            Op::From(d, v) => {
                regs[d] = Bitset::<N>::from_u64(v);
                mir[d] = (0..bits).map(|i| i < 64 && (v >> i) & 1 == 1).collect();
            }
            Op::Set(d, x) => {
                regs[d].set(x);
                mir[d][x] = true;
            }
            Op::Remove(d, x) => {
                regs[d].remove(x);
                mir[d][x] = false;
            }
            Op::Flip(d, x) => {
                regs[d].flip(x);
                mir[d][x] = !mir[d][x];
            }
            Op::Clear(d) => {
                regs[d].clear();
                mir[d] = vec![false; bits];
            }
            Op::And(d, a, b) => {
                let r = &regs[a] & &regs[b];
                regs[d] = r;
                mir[d] = (0..bits).map(|i| mir[a][i] && mir[b][i]).collect();
            }
            Op::Or(d, a, b) => {
                let r = &regs[a] | &regs[b];
                regs[d] = r;
                mir[d] = (0..bits).map(|i| mir[a][i] || mir[b][i]).collect();
            }
            Op::Xor(d, a, b) => {
                let r = &regs[a] ^ &regs[b];
                regs[d] = r;
                mir[d] = (0..bits).map(|i| mir[a][i] != mir[b][i]).collect();
            }
            Op::AndA(d, s) => {
                let t = regs[s].clone();
                regs[d] &= &t;
                mir[d] = (0..bits).map(|i| mir[d][i] && mir[s][i]).collect();
            }
            Op::OrA(d, s) => {
                let t = regs[s].clone();
                regs[d] |= &t;
                mir[d] = (0..bits).map(|i| mir[d][i] || mir[s][i]).collect();
            }
            Op::XorA(d, s) => {
                let t = regs[s].clone();
                regs[d] ^= &t;
                mir[d] = (0..bits).map(|i| mir[d][i] != mir[s][i]).collect();
            }
            Op::Not(d, s) => {
                let t = regs[s].clone();
                regs[d] = !t;
                mir[d] = (0..bits).map(|i| !mir[s][i]).collect();
            }
            Op::Clone(d, s) => {
                regs[d] = regs[s].clone();
                mir[d] = mir[s].clone();
            }
            Op::Test(r, x) => {
                log.push(regs[r].test(x));
                mlog.push(mir[r][x]);
            }
            Op::Load(d, ws) => {
                regs[d] = Bitset::<N>::new();
                mir[d] = vec![false; bits];
                for (j, w) in ws.iter().enumerate() {
                    for i in 0..64 {
                        if (w >> i) & 1 == 1 {
                            regs[d].set(64 * j + i);
                            mir[d][64 * j + i] = true;
                        }
                    }
                }
            }
        }
    }
    // observe
    let mut out: Vec<String> = Vec::new();
    let mut oracle_ok = true;
    for r in 0..k {
        let b = &regs[r];
        let iter: Vec<usize> = b.iter_bits().collect();
        let o = RegObs {
            tests: (0..bits).map(|i| b.test(i)).collect(),
            count: b.count(),
            probes: probes_impl(b, iter.len()),
            iter,
            disp: format!("{}", b),
            dbg: format!("{:?}", b),
        };
        let m = &mir[r];
        let members: Vec<usize> = (0..bits).filter(|&i| m[i]).collect();
        let e = RegObs {
            tests: m.clone(),
            count: m.iter().filter(|&&x| x).count(),
            probes: probes_oracle(&members),
            iter: members,
            disp: bits01(m),
            dbg: bits01(m),
        };
        // (the oracle's `hint` field is a placeholder: compare everything but it)
        let probes_eq = o.probes.len() == e.probes.len()
            && o.probes.iter().zip(e.probes.iter()).all(|(a, b)| {
                a.k == b.k && a.count == b.count && a.last == b.last && a.rest == b.rest && a.nths == b.nths
                    && a.peek == b.peek && a.peek_count == b.peek_count && a.skip_count == b.skip_count && a.hint_ok
            });
        if o.tests != e.tests || o.count != e.count || o.iter != e.iter || o.disp != e.disp || o.dbg != e.dbg || !probes_eq {
            oracle_ok = false;
        }
        out.push(show_reg(&o, bits));
    }
    let mut eqs: Vec<String> = Vec::new();
    for a in 0..k {
        let row: Vec<bool> = (0..k).map(|b| regs[a] == regs[b]).collect();
        let erow: Vec<bool> = (0..k).map(|b| mir[a] == mir[b]).collect();
        if row != erow {
            oracle_ok = false;
        }
        eqs.push(bits01(&row));
    }
    if log != mlog {
        oracle_ok = false;
    }
    format!(
        "{} eq={} log={} o={}",
        out.join(" "),
        eqs.join("/"),
        if log.is_empty() { "-".to_string() } else { bits01(&log) },
        if oracle_ok { "ok" } else { "MISMATCH" }
    )
}

fn run_line(line: &str) -> String {
    const INVALID: &str = "I INVALID";
    let mut parts = line.split(';').map(|p| p.trim());
    let hdr: Vec<&str> = parts.next().unwrap_or("").split_whitespace().collect();
    if hdr.len() != 2 {
        return INVALID.to_string();
    }
    let (n, k) = match (pos(hdr[0]), pos(hdr[1])) {
        (Some(n), Some(k)) => (n, k),
        _ => return INVALID.to_string(),
    };
    if k == 0 || k > 16 {
        return INVALID.to_string();
    }
    let mut ops = Vec::new();
    for p in parts {
        if p.is_empty() {
            continue;
        }
        let toks: Vec<&str> = p.split_whitespace().collect();
        match parse_op(&toks, k) {
            Some(op) => ops.push(op),
            None => return INVALID.to_string(),
        }
    }
    let r = match n {
        1 => catch(|| run_history::<1>(k, &ops)),
        2 => catch(|| run_history::<2>(k, &ops)),
        3 => catch(|| run_history::<3>(k, &ops)),
        10 => catch(|| run_history::<10>(k, &ops)),
        _ => return INVALID.to_string(),
    };
    match r {
        Ok(s) => format!("I {}", s),
        Err(e) => format!("I {}", e),
    }
}

// ------------------------------------------------------------------------------------------------
// watchdog
// ------------------------------------------------------------------------------------------------

struct Worker {
    tx: mpsc::Sender<String>,
    rx: mpsc::Receiver<String>,
}

fn spawn_worker() -> Worker {
    let (tx, wrx) = mpsc::channel::<String>();
    let (wtx, rx) = mpsc::channel::<String>();
    std::thread::Builder::new()
        .stack_size(64 << 20)
        .spawn(move || {
            while let Ok(line) = wrx.recv() {
                let r = run_line(&line);
                if wtx.send(r).is_err() {
                    break;
                }
            }
        })
        .unwrap();
    Worker { tx, rx }
}

// ------------------------------------------------------------------------------------------------
// generators
// ------------------------------------------------------------------------------------------------

fn words_hex(ws: &[u64]) -> String {
    ws.iter().map(|w| format!("{:x}", w)).collect::<Vec<_>>().join(",")
}

fn from_bits(n: usize, f: impl Fn(usize) -> bool) -> Vec<u64> {
    let mut ws = vec![0u64; n];
    for i in 0..64 * n {
        if f(i) {
            ws[i / 64] |= 1u64 << (i % 64);
        }
    }
    ws
}

/// positions at and around word boundaries, all `< 64 n`, deduplicated, ascending
fn boundary_positions(n: usize) -> Vec<usize> {
    let b = 64 * n;
    let mut v: Vec<usize> = vec![0, 1, 31, 32, 33, 62, 63, b - 1, b - 2, b - 64];
    for k in 1..n {
        v.extend_from_slice(&[64 * k - 1, 64 * k, 64 * k + 1]);
    }
    v.retain(|&x| x < b);
    v.sort();
    v.dedup();
    if n == 10 {
        // keep the list short: the first two and the last two word boundaries plus one in the middle
        v.retain(|&x| x < 130 || x > 64 * 9 - 3 || (x >= 64 * 5 - 1 && x <= 64 * 5 + 1));
    }
    v
}

/// 40 structured sets per capacity.
fn pool(n: usize, rng: &mut SplitMix64) -> Vec<Vec<u64>> {
    let b = 64 * n;
    let mut p: Vec<Vec<u64>> = Vec::new();
    let push = |p: &mut Vec<Vec<u64>>, w: Vec<u64>| {
        if !p.contains(&w) {
            p.push(w);
        }
    };
    push(&mut p, vec![0; n]);
    push(&mut p, vec![u64::MAX; n]);
    for &x in &[0usize, 63, 64, 65, b - 1, b - 64, 127, 128] {
        if x < b {
            push(&mut p, from_bits(n, |i| i == x));
        }
    }
    push(&mut p, vec![0x5555_5555_5555_5555; n]);
    push(&mut p, vec![0xAAAA_AAAA_AAAA_AAAA; n]);
    push(&mut p, vec![0x0000_0000_FFFF_FFFF; n]);
    push(&mut p, vec![0xFFFF_FFFF_0000_0000; n]);
    push(&mut p, vec![1u64 << 63; n]);
    push(&mut p, vec![1; n]);
    push(&mut p, vec![(1u64 << 63) | 1; n]);
    push(&mut p, from_bits(n, |i| i < 64));
    push(&mut p, from_bits(n, |i| i >= b - 64));
    push(&mut p, from_bits(n, |i| (i / 64) % 2 == 0));
    push(&mut p, from_bits(n, |i| (i / 64) % 2 == 1));
    for &kk in &[1usize, 63, 65, b - 1, b / 2] {
        push(&mut p, from_bits(n, |i| i < kk));
        push(&mut p, from_bits(n, |i| i >= kk));
    }
    push(&mut p, from_bits(n, |i| i != 63));
    push(&mut p, from_bits(n, |i| i != b - 1));
    push(&mut p, from_bits(n, |i| i != 0));
    push(&mut p, from_bits(n, |i| i % 64 == 63 || i % 64 == 0 || i % 7 == 3));
    p.truncate(34);
    // random: dense, sparse, half — until 40 distinct sets
    let mut kind = 0;
    while p.len() < 40 {
        let w: Vec<u64> = (0..n)
            .map(|_| match kind % 3 {
                0 => rng.next_u64() | rng.next_u64() | rng.next_u64(),
                1 => rng.next_u64() & rng.next_u64() & rng.next_u64(),
                _ => rng.next_u64(),
            })
            .collect();
        kind += 1;
        push(&mut p, w);
    }
    p
}

fn rand_pos(rng: &mut SplitMix64, n: usize, bpos: &[usize], st: &mut Stats) -> usize {
    let b = 64 * n;
    match rng.below(10) {
        0..=3 => {
            st.bump("pos_boundary_list");
            *rng.pick(bpos)
        }
        4 | 5 => {
            // 64k-1, 64k, 64k+1 for a random word k
            st.bump("pos_word_edge");
            let k = rng.below(n as u64 + 1) as usize;
            let x = (64 * k + rng.below(3) as usize).saturating_sub(1);
            x.min(b - 1)
        }
        _ => {
            st.bump("pos_uniform");
            rng.below(b as u64) as usize
        }
    }
}

fn rand_word(rng: &mut SplitMix64) -> u64 {
    match rng.below(10) {
        0 => 0,
        1 => u64::MAX,
        2 => 1u64 << 63,
        3 => 1,
        4 => 1u64 << rng.below(64),
        5 => !(1u64 << rng.below(64)),
        6 => rng.next_u64() & rng.next_u64() & rng.next_u64(),
        7 => rng.next_u64() | rng.next_u64(),
        _ => rng.next_u64(),
    }
}

fn random_history(rng: &mut SplitMix64, n: usize, pools: &[Vec<u64>], bpos: &[usize], max_len: u64, st: &mut Stats) -> String {
    let k = 1 + rng.below(4) as usize;
    let len = 1 + rng.below(max_len) as usize;
    let mut s = format!("{} {}", n, k);
    let r = |rng: &mut SplitMix64| rng.below(k as u64) as usize;
    for _ in 0..len {
        let c = rng.below(100);
        let op = if c < 18 {
            st.bump("op_set");
            format!("set {} {}", r(rng), rand_pos(rng, n, bpos, st))
        } else if c < 30 {
            st.bump("op_remove");
            format!("remove {} {}", r(rng), rand_pos(rng, n, bpos, st))
        } else if c < 42 {
            st.bump("op_flip");
            format!("flip {} {}", r(rng), rand_pos(rng, n, bpos, st))
        } else if c < 50 {
            st.bump("op_test");
            format!("test {} {}", r(rng), rand_pos(rng, n, bpos, st))
        } else if c < 53 {
            st.bump("op_clear");
            format!("clear {}", r(rng))
        } else if c < 55 {
            st.bump("op_new");
            format!("new {}", r(rng))
        } else if c < 60 {
            st.bump("op_from_u64");
            format!("from {} {:x}", r(rng), rand_word(rng))
        } else if c < 64 {
            st.bump("op_and");
            format!("and {} {} {}", r(rng), r(rng), r(rng))
        } else if c < 68 {
            st.bump("op_or");
            format!("or {} {} {}", r(rng), r(rng), r(rng))
        } else if c < 72 {
            st.bump("op_xor");
            format!("xor {} {} {}", r(rng), r(rng), r(rng))
        } else if c < 76 {
            st.bump("op_and_assign");
            format!("anda {} {}", r(rng), r(rng))
        } else if c < 80 {
            st.bump("op_or_assign");
            format!("ora {} {}", r(rng), r(rng))
        } else if c < 84 {
            st.bump("op_xor_assign");
            format!("xora {} {}", r(rng), r(rng))
        } else if c < 90 {
            st.bump("op_not");
            format!("not {} {}", r(rng), r(rng))
        } else if c < 94 {
            st.bump("op_clone");
            format!("clone {} {}", r(rng), r(rng))
        } else {
            st.bump("op_load_pool");
            {
                let p: &Vec<u64> = rng.pick(pools);
                format!("load {} {}", r(rng), words_hex(p))
            }
        };
        s.push_str(" ; ");
        s.push_str(&op);
    }
    s
}

fn gen(args: &Args, emit: &mut dyn FnMut(String), st: &mut Stats) {
    let thorough = args.tier == "thorough";
    let mut rng = SplitMix64::new(args.seed ^ 0xC12_0000);
    let pools: Vec<Vec<Vec<u64>>> = NS.iter().map(|&n| pool(n, &mut rng)).collect();
    let bposs: Vec<Vec<usize>> = NS.iter().map(|&n| boundary_positions(n)).collect();

    // (A) point operations: every pool set x every boundary position x {set, remove, flip}
    for (ni, &n) in NS.iter().enumerate() {
        let step = if thorough { 1 } else { 3 };
        for p in pools[ni].iter().step_by(step) {
            for &x in &bposs[ni] {
                for op in ["set", "remove", "flip"] {
                    emit(format!("{} 1 ; load 0 {} ; {} 0 {} ; test 0 {}", n, words_hex(p), op, x, x));
                    st.bump("A_point_pool_x_boundary");
                }
            }
        }
    }
    // (B) all ordered pairs of pool sets through the six binary forms
    for (ni, &n) in NS.iter().enumerate() {
        // quick tier: all 1600 pairs for N = 1, a 14 x 14 (N = 2, 3) or 10 x 10 (N = 10) sub-grid otherwise
        let stride = if thorough || n == 1 { 1 } else if n == 10 { 4 } else { 3 };
        let sel: Vec<&Vec<u64>> = pools[ni].iter().step_by(stride).collect();
        for a in &sel {
            for b in &sel {
                emit(format!(
                    "{} 8 ; load 0 {} ; load 1 {} ; and 2 0 1 ; or 3 0 1 ; xor 4 0 1 ; clone 5 0 ; anda 5 1 ; clone 6 0 ; ora 6 1 ; clone 7 0 ; xora 7 1",
                    n,
                    words_hex(a),
                    words_hex(b)
                ));
                st.bump(&format!("B_pairs_N{}", n));
            }
        }
    }
    // (C) unary forms on every pool set
    for (ni, &n) in NS.iter().enumerate() {
        for p in &pools[ni] {
            emit(format!("{} 4 ; load 0 {} ; not 1 0 ; not 2 1 ; clone 3 0 ; clear 3", n, words_hex(p)));
            emit(format!("{} 3 ; load 0 {} ; xora 0 0 ; load 1 {} ; anda 1 1 ; load 2 {} ; ora 2 2", n, words_hex(p), words_hex(p), words_hex(p)));
            st.add("C_unary_pool", 2);
        }
    }
    // (D) from_u64 on special words
    for &n in &NS {
        let mut ws: Vec<u64> = vec![0, 1, 2, u64::MAX, 1 << 63, (1 << 63) - 1, 1 << 32, (1 << 32) - 1, 0x8000_0000_0000_0001, 0x5555_5555_5555_5555];
        for i in 0..64 {
            ws.push(1u64 << i);
        }
        for _ in 0..(if thorough { 200 } else { 20 }) {
            ws.push(rand_word(&mut rng));
        }
        for w in ws {
            emit(format!("{} 2 ; from 0 {:x} ; not 1 0", n, w));
            st.bump("D_from_u64");
        }
    }
    // (E) iterator focus: every single-bit set; pairs of bits (all pairs for N=1 in thorough, boundary pairs otherwise)
    for (ni, &n) in NS.iter().enumerate() {
        for x in 0..64 * n {
            emit(format!("{} 1 ; set 0 {}", n, x));
            st.bump("E_single_bit");
        }
        if thorough && n == 1 {
            for x in 0..64 {
                for y in (x + 1)..64 {
                    emit(format!("1 1 ; set 0 {} ; set 0 {}", y, x));
                    st.bump("E_bit_pairs_all_N1");
                }
            }
        }
        let bp = &bposs[ni];
        for &x in bp {
            for &y in bp {
                if x < y {
                    emit(format!("{} 2 ; set 0 {} ; set 0 {} ; flip 1 {} ; flip 1 {} ; not 1 1", n, y, x, x, y));
                    st.bump("E_bit_pairs_boundary");
                }
            }
        }
    }
    // (F) random histories
    let nf = if thorough { 250_000 } else { 1_200 };
    for i in 0..nf {
        // N=10 lines are long: one in six
        let ni = match i % 6 {
            0 | 1 => 0,
            2 | 3 => 1,
            4 => 2,
            _ => {
                if i % 12 == 5 {
                    3
                } else {
                    2
                }
            }
        };
        let n = NS[ni];
        st.bump(&format!("F_random_N{}", n));
        let max_len = if i % 10 == 0 { 40 } else { 14 };
        emit(random_history(&mut rng, n, &pools[ni], &bposs[ni], max_len, st));
    }
    // (G) outside the stated domain: positions >= 64 N (the property says nothing; model and code must still agree: panic:index)
    for &n in &NS {
        let b = 64 * n;
        for &x in &[b, b + 1, b + 63, b + 64, 2 * b, 1 << 32, (1usize << 63), usize::MAX, usize::MAX - 63] {
            for op in ["set", "remove", "flip", "test"] {
                emit(format!("{} 1 ; set 0 0 ; {} 0 {}", n, op, x));
                st.bump("G_out_of_domain");
            }
        }
    }
}

static HUNG: std::sync::atomic::AtomicBool = std::sync::atomic::AtomicBool::new(false);

/// CPU seconds (user + system) this process has used so far; `None` if /proc is unavailable.
fn process_cpu_seconds() -> Option<f64> {
    let s = std::fs::read_to_string("/proc/self/stat").ok()?;
    let after = &s[s.rfind(')')? + 1..];
    let f: Vec<&str> = after.split_whitespace().collect();
    // after the command name: state is field 3, utime field 14, stime field 15 (1-based in the whole line)
    let utime: f64 = f.get(11)?.parse().ok()?;
    let stime: f64 = f.get(12)?.parse().ok()?;
    Some((utime + stime) / 100.0)
}

fn main() {
    use std::sync::atomic::Ordering;
    use std::time::Instant;
    let mut worker: Option<Worker> = Some(spawn_worker());
    cli(gen, move |line| {
        if HUNG.load(Ordering::SeqCst) {
            return "I INVALID skipped-after-hang".to_string();
        }
        let w = worker.as_ref().unwrap();
        w.tx.send(line.to_string()).unwrap();
        // A case needs well under 10 ms of CPU.  It is declared hung when this process (the main thread only
        // waits, so this is the worker) has burnt 2 s of CPU on it — being descheduled on a loaded machine does
        // not count — or, as a backstop (and when /proc is unavailable), after 120 s of wall-clock time.
        let cpu0 = process_cpu_seconds();
        let t0 = Instant::now();
        loop {
            match w.rx.recv_timeout(Duration::from_millis(500)) {
                Ok(r) => return r,
                Err(_) => {
                    let burnt = match (cpu0, process_cpu_seconds()) {
                        (Some(a), Some(b)) => b - a,
                        _ => 0.0,
                    };
                    if burnt >= 2.0 || t0.elapsed() >= Duration::from_secs(120) {
                        HUNG.store(true, Ordering::SeqCst);
                        // the stuck thread is abandoned; the process ends after the last line
                        std::mem::forget(worker.take());
                        return "I hang".to_string();
                    }
                }
            }
        }
    });
    if HUNG.load(Ordering::SeqCst) {
        // make the hang visible to `check` even if the line itself were overlooked
        eprintln!("a case used 2 s of CPU without returning (answered `hang`); later cases of this process were skipped");
        std::process::exit(3);
    }
}
