//! Correspondence harness for engine `bitset` (property C12): drives rlib_bitset::Bitset<N> and BitsIter.
//!
//! Case line: `<N> <K> ; op ; op ; ...` — K registers `Bitset::<N>::new()`; see `lean/Driver/Bitset.lean`
//! for the op list.  At the end every register is observed through the public API only: `test` on all
//! indices, `count`, `iter_bits().collect()`, `Display`, `Debug`, the iterator probes (every provided `Iterator`
//! method on a partially consumed `BitsIter`), and `==` / `!=` on all pairs; `obs r` makes the same observation of
//! one register in the middle of the history.  An independent `Vec<bool>` mirror of every register is maintained
//! next to the real bitsets; `o=ok` at the end of the answer says that all observations equal the mirror's, and the
//! `x=` field of every register observation reports the harness-side checks of the other trait entry points
//! (`BitsIter::new` on the raw words, `ToString`, `{:#?}`, `Debug` inside `Option`, `Clone`/`clone_from`/`Default`,
//! the operators with the SAME object on both sides, `!!b`; wave 5: provided iterator methods with usize arguments >= 2^32, and
//! Display / Debug into failing `fmt::Write` sinks followed by normal renderings on the same thread).
//!
//! Capacities: the const generic `N` is instantiated for every entry of `NS` (1, 2, 3, 10 and the 64-word boundary
//! family 63, 64, 65, 128, 129, and the 256-word / 512-word boundary family 256, 257, 512, 513); this list IS the
//! instantiation list of the check.
//!
//! Each case runs on a worker thread under a watchdog (2 s of CPU time on one case): an iterator that never returns makes the answer
//! `hang` instead of blocking the check (later cases of that process are answered `INVALID skipped-after-hang`
//! and the process exits with code 3).
#[path = "../../common/mod.rs"]
mod common;
use common::*;
use rlib_bitset::Bitset;
use std::sync::mpsc;
use std::time::Duration;

use rlib_bitset::bits_iter::BitsIter;

const NS: [usize; 13] = [1, 2, 3, 10, 63, 64, 65, 128, 129, 256, 257, 512, 513];
/// capacities with the full small-scope streams
const NS_SMALL: [usize; 4] = [1, 2, 3, 10];
/// capacities at and beyond the 64-word (4096-bit) boundary: reduced, mostly sparse streams
const NS_BIG: [usize; 5] = [63, 64, 65, 128, 129];
/// capacities at and beyond the 256-word (16384-bit) and 512-word (32768-bit) boundaries: a handful of cases each, sparse in the quick tier
const NS_HUGE: [usize; 4] = [256, 257, 512, 513];

// ------------------------------------------------------------------------------------------------
// parsing
// ------------------------------------------------------------------------------------------------

#[derive(Clone, Debug)]
enum Op {
    New(usize),
    From(usize, u64),
    Set(usize, usize),
    Remove(usize, usize),
    Flip(usize, usize),
    Clear(usize),
    And(usize, usize, usize),
    Or(usize, usize, usize),
    Xor(usize, usize, usize),
    AndA(usize, usize),
    OrA(usize, usize),
    XorA(usize, usize),
    Not(usize, usize),
    Clone(usize, usize),
    CloneFrom(usize, usize),
    Default(usize),
    Obs(usize),
    Test(usize, usize),
    Load(usize, Vec<u64>),
}

fn reg(s: &str, k: usize) -> Option<usize> {
    if s.is_empty() || !s.bytes().all(|c| c.is_ascii_digit()) {
        return None;
    }
    let r = s.parse::<usize>().ok()?;
    if r < k {
        Some(r)
    } else {
        None
    }
}
fn pos(s: &str) -> Option<usize> {
    if s.is_empty() || !s.bytes().all(|c| c.is_ascii_digit()) {
        return None;
    }
    s.parse::<u64>().ok().map(|x| x as usize)
}
fn hex(s: &str) -> Option<u64> {
    if s.is_empty() || !s.bytes().all(|c| c.is_ascii_hexdigit()) {
        return None;
    }
    u64::from_str_radix(s, 16).ok()
}

fn parse_op(t: &[&str], k: usize) -> Option<Op> {
    Some(match t {
        ["new", d] => Op::New(reg(d, k)?),
        ["from", d, v] => Op::From(reg(d, k)?, hex(v)?),
        ["set", d, x] => Op::Set(reg(d, k)?, pos(x)?),
        ["remove", d, x] => Op::Remove(reg(d, k)?, pos(x)?),
        ["flip", d, x] => Op::Flip(reg(d, k)?, pos(x)?),
        ["clear", d] => Op::Clear(reg(d, k)?),
        ["and", d, a, b] => Op::And(reg(d, k)?, reg(a, k)?, reg(b, k)?),
        ["or", d, a, b] => Op::Or(reg(d, k)?, reg(a, k)?, reg(b, k)?),
        ["xor", d, a, b] => Op::Xor(reg(d, k)?, reg(a, k)?, reg(b, k)?),
        ["anda", d, s] => Op::AndA(reg(d, k)?, reg(s, k)?),
        ["ora", d, s] => Op::OrA(reg(d, k)?, reg(s, k)?),
        ["xora", d, s] => Op::XorA(reg(d, k)?, reg(s, k)?),
        ["not", d, s] => Op::Not(reg(d, k)?, reg(s, k)?),
        ["clone", d, s] => Op::Clone(reg(d, k)?, reg(s, k)?),
        ["clonefrom", d, s] => Op::CloneFrom(reg(d, k)?, reg(s, k)?),
        ["default", d] => Op::Default(reg(d, k)?),
        ["obs", r] => Op::Obs(reg(r, k)?),
        ["test", r, x] => Op::Test(reg(r, k)?, pos(x)?),
        ["load", d, ws] => {
            let mut v = Vec::new();
            for w in ws.split(',') {
                v.push(hex(w)?);
            }
            Op::Load(reg(d, k)?, v)
        }
        _ => return None,
    })
}

// ------------------------------------------------------------------------------------------------
// running one history on the real crate + the Vec<bool> mirror
// ------------------------------------------------------------------------------------------------

fn pack_hex(bs: &[bool]) -> String {
    let mut s = String::with_capacity(bs.len() / 4 + 1);
    for c in bs.chunks(4) {
        let mut v = 0u32;
        for (i, &b) in c.iter().enumerate() {
            if b {
                v |= 1 << i;
            }
        }
        s.push(std::char::from_digit(v, 16).unwrap());
    }
    s
}

fn bits01(bs: &[bool]) -> String {
    bs.iter().map(|&b| if b { '1' } else { '0' }).collect()
}

/// `[a,b,c]`, or `^<hex of the member set>` when the list is strictly ascending and below `n`
/// (a strictly ascending list is determined by its set of elements, so nothing is lost).
fn show_iter(it: &[usize], n: usize) -> String {
    let asc = it.windows(2).all(|w| w[0] < w[1]) && it.iter().all(|&x| x < n);
    if asc {
        let mut m = vec![false; n];
        for &x in it {
            m[x] = true;
        }
        format!("^{}", pack_hex(&m))
    } else {
        format!("[{}]", it.iter().map(|x| x.to_string()).collect::<Vec<_>>().join(","))
    }
}

/// One iterator probe: the iterator after `k` calls of `next`, used through the provided `Iterator` methods.
#[derive(PartialEq)]
struct Probe {
    k: usize,
    count: usize,                                  // adv(k).count()
    last: Option<usize>,                           // adv(k).last()
    rest: Vec<usize>,                              // adv(k).collect()
    nths: Vec<(usize, Option<usize>, usize)>,      // j, adv(k).nth(j), then by_ref().count()
    peek: Option<usize>,                           // adv(k).peekable().peek()
    peek_count: usize,                             //   ... then .count()
    skip_count: usize,                             // iter_bits().skip(k).count()
    hint_ok: bool,                                 // size_hint brackets the number of remaining elements
    hint: (usize, Option<usize>),
    provided: String,                              // every other provided method, see `provided_impl`
}

fn dedup_keep_order(v: Vec<usize>) -> Vec<usize> {
    let mut out: Vec<usize> = Vec::new();
    for x in v {
        if !out.contains(&x) {
            out.push(x);
        }
    }
    out
}

/// prefix lengths probed for a set with `l` members: 0, 1, 2, l/2, l-1, l (just exhausted), l+1 (`next` already answered `None` once)
fn probe_ks(l: usize) -> Vec<usize> {
    dedup_keep_order(vec![0, 1, 2, l / 2, l.saturating_sub(1), l, l + 1])
}
/// the probes on which every other provided method is called as well (`provided_impl`)
fn provided_ks(l: usize) -> Vec<usize> {
    vec![0, 1, l / 2, l]
}
/// `nth` arguments probed with `rem` elements remaining
fn probe_js(rem: usize) -> Vec<usize> {
    dedup_keep_order(vec![0, 1, rem.saturating_sub(1), rem])
}

fn opt(x: Option<usize>) -> String {
    match x {
        Some(v) => v.to_string(),
        None => "-".to_string(),
    }
}
fn b01(b: bool) -> &'static str {
    if b {
        "1"
    } else {
        "0"
    }
}
fn ord(o: std::cmp::Ordering) -> &'static str {
    match o {
        std::cmp::Ordering::Less => "L",
        std::cmp::Ordering::Equal => "E",
        std::cmp::Ordering::Greater => "G",
    }
}

fn show_probe(p: &Probe, n: usize, full: &[usize]) -> String {
    let sfx = p.rest[..] == full[p.k.min(full.len())..];
    format!(
        "k={}:c={}:l={}:r={}:n={}:p={}>{}:s={}:h={}{}",
        p.k,
        p.count,
        opt(p.last),
        if sfx { "sfx".to_string() } else { show_iter(&p.rest, n) },
        p.nths.iter().map(|(j, x, a)| format!("{}>{}>{}", j, opt(*x), a)).collect::<Vec<_>>().join("/"),
        opt(p.peek),
        p.peek_count,
        p.skip_count,
        if p.hint_ok { "ok".to_string() } else { format!("bad({},{:?})", p.hint.0, p.hint.1) },
        p.provided
    )
}

/// a fresh `BitsIter` advanced by `k` calls of `next` (calls after the end included)
fn adv<const N: usize>(b: &Bitset<N>, k: usize) -> BitsIter<'_, N> {
    let mut it = b.iter_bits();
    for _ in 0..k {
        it.next();
    }
    it
}

fn hash_step(a: u64, x: usize) -> u64 {
    a.wrapping_mul(31).wrapping_add(x as u64 + 1)
}

/// Every consuming / short-circuiting provided method of `Iterator` on the REAL iterator after `k` calls of `next`
/// (`rest` = what `collect` gave for the same state; it only supplies the pivot of the short-circuiting probes).
fn provided_impl<const N: usize>(b: &Bitset<N>, k: usize, rest: &[usize]) -> String {
    let rem = rest.len();
    let t = if rem > 0 { rest[rem / 2] } else { 0 };
    let f = adv(b, k).fold(7u64, hash_step);
    let mut fe = 7u64;
    adv(b, k).for_each(|x| fe = hash_step(fe, x));
    let sm: usize = adv(b, k).sum();
    let pr = if rem <= 4 { adv(b, k).product::<usize>().to_string() } else { "-".to_string() };
    let mn = adv(b, k).min();
    let mx = adv(b, k).max();
    let xk = adv(b, k).max_by_key(|x| x % 64);
    let nk = adv(b, k).min_by_key(|x| x % 64);
    let xb = adv(b, k).max_by(|a, b| (a % 7).cmp(&(b % 7)));
    let nb = adv(b, k).min_by(|a, b| b.cmp(a));
    let mut it = adv(b, k);
    let ps = it.position(|x| x >= t);
    let ps_left = it.count();
    let mut it = adv(b, k);
    let fd = it.find(|&x| x % 64 == 63);
    let fd_left = it.count();
    let mut it = adv(b, k);
    let fm = it.find_map(|x| if x % 2 == 1 { Some(x * 2) } else { None });
    let fm_left = it.count();
    let mut it = adv(b, k);
    let an = it.any(|x| x >= t);
    let an_left = it.count();
    let mut it = adv(b, k);
    let al = it.all(|x| x < t);
    let al_left = it.count();
    let mut it = adv(b, k);
    let tf = it.try_fold(0usize, |a, x| if x >= t { None } else { Some(a + 1) });
    let tf_left = it.count();
    let rd = adv(b, k).reduce(|a, b| a.wrapping_mul(3).wrapping_add(b));
    let cp = format!(
        "{}{}{}{}{}{}{}{}",
        ord(adv(b, k).cmp(adv(b, k + 1))),
        adv(b, k).partial_cmp(adv(b, k + 1)).map_or("?", ord),
        b01(adv(b, k).eq(adv(b, k + 1))),
        b01(adv(b, k).ne(adv(b, k + 1))),
        b01(adv(b, k).lt(adv(b, k + 1))),
        b01(adv(b, k).le(adv(b, k + 1))),
        b01(adv(b, k).gt(adv(b, k + 1))),
        b01(adv(b, k).ge(adv(b, k + 1)))
    );
    let sb_count = adv(b, k).step_by(3).count();
    let sb_last = adv(b, k).step_by(3).last();
    let tk = adv(b, k).take(2).last();
    let sw = adv(b, k).skip_while(|&x| x < t).next();
    let ch = adv(b, k).chain(b.iter_bits()).count();
    let zp = adv(b, k).zip(b.iter_bits()).last();
    let en = adv(b, k).enumerate().last();
    let mut ext: Vec<usize> = vec![usize::MAX];
    ext.extend(adv(b, k));
    let (ev, od): (Vec<usize>, Vec<usize>) = adv(b, k).partition(|x| x % 2 == 0);
    let is = adv(b, k).is_sorted();
    format!(
        ":f={}:fe={}:sm={}:pr={}:mn={}:mx={}:xk={}:nk={}:xb={}:nb={}:ps={}>{}:fd={}>{}:fm={}>{}:an={}>{}:al={}>{}:tf={}>{}:rd={}:cp={}:sb={}>{}:tk={}:sw={}:ch={}:zp={}:en={}:ex={}>{}:pt={}&{}:is={}",
        f, fe, sm, pr, opt(mn), opt(mx), opt(xk), opt(nk), opt(xb), opt(nb),
        opt(ps), ps_left, opt(fd), fd_left, opt(fm), fm_left, b01(an), an_left, b01(al), al_left, opt(tf), tf_left,
        opt(rd), cp, sb_count, opt(sb_last), opt(tk), opt(sw), ch,
        zp.map_or("-".to_string(), |(a, b)| format!("{}&{}", a, b)),
        en.map_or("-".to_string(), |(i, x)| format!("{}&{}", i, x)),
        ext.len(), opt(ext.last().copied()), ev.len(), od.len(), b01(is)
    )
}

/// The same string from plain slices of the mirror's member list (independent oracle: loops and indexing only).
fn provided_oracle(full: &[usize], rest: &[usize]) -> String {
    let rem = rest.len();
    let t = if rem > 0 { rest[rem / 2] } else { 0 };
    let mut f = 7u64;
    let mut sm = 0usize;
    let mut prod = 1usize;
    for &x in rest {
        f = hash_step(f, x);
        sm += x;
        if rem <= 4 {
            prod *= x;
        }
    }
    let pr = if rem <= 4 { prod.to_string() } else { "-".to_string() };
    let mn = rest.first().copied(); // the list is ascending
    let mx = rest.last().copied();
    // last element with the maximal key / first element with the minimal key
    let last_max = |key: &dyn Fn(usize) -> usize| {
        let mut best: Option<usize> = None;
        for &x in rest {
            if best.map_or(true, |a| key(x) >= key(a)) {
                best = Some(x);
            }
        }
        best
    };
    let first_min = |key: &dyn Fn(usize) -> usize| {
        let mut best: Option<usize> = None;
        for &x in rest {
            if best.map_or(true, |a| key(x) < key(a)) {
                best = Some(x);
            }
        }
        best
    };
    // index of the first element satisfying p, and how many elements follow it
    let first_idx = |p: &dyn Fn(usize) -> bool| {
        for (i, &x) in rest.iter().enumerate() {
            if p(x) {
                return (Some(i), rem - i - 1);
            }
        }
        (None, 0)
    };
    let (ge_i, ge_left) = first_idx(&|x| x >= t);
    let (b63_i, b63_left) = first_idx(&|x| x % 64 == 63);
    let (odd_i, odd_left) = first_idx(&|x| x % 2 == 1);
    let rd = if rem == 0 {
        None
    } else {
        let mut a = rest[0];
        for &x in &rest[1..] {
            a = a.wrapping_mul(3).wrapping_add(x);
        }
        Some(a)
    };
    // lexicographic comparison with the list one element further
    let other = if rem > 0 { &rest[1..] } else { rest };
    let mut c = std::cmp::Ordering::Equal;
    let mut i = 0;
    loop {
        match (rest.get(i), other.get(i)) {
            (None, None) => break,
            (None, Some(_)) => {
                c = std::cmp::Ordering::Less;
                break;
            }
            (Some(_), None) => {
                c = std::cmp::Ordering::Greater;
                break;
            }
            (Some(a), Some(b)) => {
                if a != b {
                    c = a.cmp(b);
                    break;
                }
            }
        }
        i += 1;
    }
    use std::cmp::Ordering::*;
    let cp = format!("{}{}{}{}{}{}{}{}", ord(c), ord(c), b01(c == Equal), b01(c != Equal), b01(c == Less), b01(c != Greater), b01(c == Greater), b01(c != Less));
    let third: Vec<usize> = (0..rem).filter(|i| i % 3 == 0).map(|i| rest[i]).collect();
    let tk = if rem == 0 { None } else { Some(rest[rem.min(2) - 1]) };
    let zp = if rem == 0 { "-".to_string() } else { format!("{}&{}", rest[rem - 1], full[rem - 1]) };
    let en = if rem == 0 { "-".to_string() } else { format!("{}&{}", rem - 1, rest[rem - 1]) };
    let ev = rest.iter().filter(|&&x| x % 2 == 0).count();
    format!(
        ":f={}:fe={}:sm={}:pr={}:mn={}:mx={}:xk={}:nk={}:xb={}:nb={}:ps={}>{}:fd={}>{}:fm={}>{}:an={}>{}:al={}>{}:tf={}>{}:rd={}:cp={}:sb={}>{}:tk={}:sw={}:ch={}:zp={}:en={}:ex={}>{}:pt={}&{}:is={}",
        f, f, sm, pr, opt(mn), opt(mx), opt(last_max(&|x| x % 64)), opt(first_min(&|x| x % 64)), opt(last_max(&|x| x % 7)), opt(mx),
        opt(ge_i), ge_left, opt(b63_i.map(|i| rest[i])), b63_left, opt(odd_i.map(|i| rest[i] * 2)), odd_left,
        b01(ge_i.is_some()), ge_left, b01(ge_i.is_none()), ge_left, if ge_i.is_some() { "-".to_string() } else { rem.to_string() }, ge_left,
        opt(rd), cp, third.len(), opt(third.last().copied()), opt(tk), opt(ge_i.map(|i| rest[i])), rem + full.len(),
        zp, en, rem + 1, if rem == 0 { usize::MAX } else { rest[rem - 1] }, ev, rem - ev, "1"
    )
}

/// The probes on the real iterator.
fn probes_impl<const N: usize>(b: &Bitset<N>, l: usize) -> Vec<Probe> {
    probe_ks(l)
        .into_iter()
        .map(|k| {
            let rest: Vec<usize> = adv(b, k).collect();
            let rem = rest.len();
            let nths = probe_js(rem)
                .into_iter()
                .map(|j| {
                    let mut it = adv(b, k);
                    let x = it.nth(j);
                    let after = it.by_ref().count();
                    (j, x, after)
                })
                .collect();
            let mut pk = adv(b, k).peekable();
            let peek = pk.peek().copied();
            let peek_count = pk.count();
            let hint = adv(b, k).size_hint();
            Probe {
                k,
                count: adv(b, k).count(),
                last: adv(b, k).last(),
                nths,
                peek,
                peek_count,
                skip_count: b.iter_bits().skip(k).count(),
                hint_ok: hint.0 <= rem && hint.1.map_or(true, |h| rem <= h),
                hint,
                provided: if provided_ks(l).contains(&k) { provided_impl(b, k, &rest) } else { String::new() },
                rest,
            }
        })
        .collect()
}

/// The same observables computed from the mirror's member list (independent oracle).
fn probes_oracle(members: &[usize]) -> Vec<Probe> {
    probe_ks(members.len())
        .into_iter()
        .map(|k| {
            let rest: Vec<usize> = members[k.min(members.len())..].to_vec();
            let rem = rest.len();
            Probe {
                k,
                count: rem,
                last: rest.last().copied(),
                nths: probe_js(rem).into_iter().map(|j| (j, rest.get(j).copied(), rem.saturating_sub(j + 1))).collect(),
                peek: rest.first().copied(),
                peek_count: rem,
                skip_count: rem,
                hint_ok: true,
                hint: (0, None),
                provided: if provided_ks(members.len()).contains(&k) { provided_oracle(members, &rest) } else { String::new() },
                rest,
            }
        })
        .collect()
}

struct RegObs {
    tests: Vec<bool>,
    count: usize,
    iter: Vec<usize>,
    disp: String,
    dbg: String,
    probes: Vec<Probe>,
    extra: String,
}

fn show_reg(o: &RegObs, n: usize) -> String {
    format!(
        "t={},c={},i={},d={},g={},x={},it={}",
        pack_hex(&o.tests),
        o.count,
        show_iter(&o.iter, n),
        o.disp,
        if o.dbg == o.disp { "same".to_string() } else { o.dbg.clone() },
        o.extra,
        o.probes.iter().map(|p| show_probe(p, n, &o.iter)).collect::<Vec<_>>().join("+")
    )
}

fn bits_of<const N: usize>(b: &Bitset<N>) -> Vec<bool> {
    (0..64 * N).map(|i| b.test(i)).collect()
}

/// A `fmt::Write` sink that accepts `cap` bytes and then fails (and keeps failing): a fixed-size buffer.
struct Limited {
    buf: String,
    cap: usize,
    failed: bool,
}

impl std::fmt::Write for Limited {
    fn write_str(&mut self, s: &str) -> std::fmt::Result {
        if self.failed {
            return Err(std::fmt::Error);
        }
        let room = self.cap - self.buf.len();
        if s.len() <= room {
            self.buf.push_str(s);
            Ok(())
        } else {
            self.buf.push_str(&s[..room]); // renderings are ASCII
            self.failed = true;
            Err(std::fmt::Error)
        }
    }
}

/// Display / Debug / `{:#?}` into sinks of capacity 0, 1, half, 64N-1 (must fail, what was accepted is a prefix of the
/// rendering) and 64N (must succeed with the whole rendering).
fn failing_sinks_ok<const N: usize>(b: &Bitset<N>, m: &[bool]) -> bool {
    use std::fmt::Write;
    let want = bits01(m);
    let total = 64 * N;
    let mut ok = true;
    for (ci, &cap) in [0usize, 1, total / 2, total - 1, total].iter().enumerate() {
        for mode in 0..3 {
            // the reference rendering allocates per bit: N <= 3 tries every sink size with one mode each (all modes for the tiny sinks at N = 1);
            // larger capacities try one (size, mode) per observation, rotating with the number of members
            let sel = m.iter().filter(|&&x| x).count() + N;
            let wanted = if N <= 3 { (ci + mode) % 3 == 0 || (N == 1 && cap <= 1) } else { ci == sel % 5 && mode == (sel / 5) % 3 };
            if !wanted {
                continue;
            }
            let mut sink = Limited { buf: String::new(), cap, failed: false };
            let r = match mode {
                0 => write!(sink, "{}", b),
                1 => write!(sink, "{:?}", b),
                _ => write!(sink, "{:#?}", b),
            };
            ok &= r.is_err() == (cap < total) && sink.buf.len() == cap && want.starts_with(&sink.buf);
        }
    }
    ok
}

/// `nth`, `skip`, `step_by`, `take` with usize arguments 2^32, 2^32 + j, 2^40, 2^63, usize::MAX on an iterator advanced by k = 0, 1, l/2, l
/// calls of `next`: such an argument exceeds every possible length, so `nth` / `skip` give nothing and exhaust the iterator, `step_by` gives
/// the first remaining member only, `take` gives everything that is left.
fn huge_args_ok<const N: usize>(b: &Bitset<N>, members: &[usize]) -> bool {
    let l = members.len();
    let mut ok = true;
    let big = l > 64;
    for k in dedup_keep_order(if big { vec![0, l / 2] } else { vec![0, 1, l / 2, l] }) {
        let rest = &members[k.min(l)..];
        let rem = rest.len();
        let base = 1usize << 32;
        let hs = if big {
            vec![base, base + 1, usize::MAX]
        } else {
            vec![base, base + 1, base + rem.saturating_sub(1), base + rem, 5 * base + 2, 1usize << 40, 1usize << 63, usize::MAX]
        };
        for h in dedup_keep_order(hs) {
            let mut it = adv(b, k);
            ok &= it.nth(h).is_none() && it.next().is_none();
            let mut it = adv(b, k);
            ok &= it.by_ref().nth(h).is_none() && it.count() == 0;
            ok &= adv(b, k).skip(h).next().is_none() && adv(b, k).skip(h).count() == 0;
            ok &= adv(b, k).step_by(h).collect::<Vec<usize>>() == rest[..rem.min(1)];
            if !big {
                ok &= adv(b, k).take(h).collect::<Vec<usize>>() == rest;
                ok &= adv(b, k).skip(1).step_by(h).last() == rest.get(1).copied();
            }
        }
    }
    ok
}

/// Harness-side checks of the other trait entry points of `Bitset` / `BitsIter` against the mirror `m`
/// (`ok`, or the names of the checks that failed).  Every result is read back through `test` on all indices.
fn extra_checks<const N: usize>(b: &Bitset<N>, m: &[bool], disp: &str, dbg: &str) -> String {
    let mut bad: Vec<&str> = Vec::new();
    let members: Vec<usize> = (0..64 * N).filter(|&i| m[i]).collect();
    // BitsIter::new is public: iterate the raw words directly
    let mut words = [0u64; N];
    for &i in &members {
        words[i / 64] |= 1u64 << (i % 64);
    }
    if BitsIter::new(&words).collect::<Vec<usize>>() != members {
        bad.push("BitsIter::new");
    }
    if b.to_string() != bits01(m) {
        bad.push("to_string");
    }
    if format!("{:#?}", b) != dbg {
        bad.push("alt-debug");
    }
    if format!("{:?}", Some(b)) != format!("Some({})", dbg) || format!("{}", &b) != disp {
        bad.push("nested-fmt");
    }
    let c = b.clone();
    if bits_of(&c) != m || !(c == *b) || c != *b {
        bad.push("clone");
    }
    // clone_from into a fresh and into a used (all-ones / own complement) destination
    let mut fresh = Bitset::<N>::new();
    fresh.clone_from(b);
    let mut used = !b.clone();
    used.clone_from(b);
    if bits_of(&fresh) != m || bits_of(&used) != m || fresh != used {
        bad.push("clone_from");
    }
    let d = Bitset::<N>::default();
    if bits_of(&d).iter().any(|&x| x) || d != Bitset::<N>::new() || d.count() != 0 {
        bad.push("default");
    }
    // the same object on both sides of the reference operators
    if bits_of(&(b & b)) != m {
        bad.push("self&");
    }
    if bits_of(&(b | b)) != m {
        bad.push("self|");
    }
    if bits_of(&(b ^ b)).iter().any(|&x| x) {
        bad.push("self^");
    }
    // assigning forms with an equal (cloned) right-hand side
    let mut a = b.clone();
    a &= b;
    let mut o = b.clone();
    o |= b;
    let mut x = b.clone();
    x ^= b;
    if bits_of(&a) != m || bits_of(&o) != m || bits_of(&x).iter().any(|&v| v) {
        bad.push("assign-equal");
    }
    let nn = !!b.clone();
    if bits_of(&nn) != m || bits_of(&!b.clone()).iter().zip(m).any(|(p, q)| p == q) {
        bad.push("not");
    }
    if b.iter_bits().count() != b.count() {
        bad.push("count-vs-iter");
    }
    // wave 5: provided iterator methods with arguments far beyond u32 (every BitsIter is shorter than 2^32)
    if !huge_args_ok(b, &members) {
        bad.push("huge-arg");
    }
    // wave 5: rendering into sinks that fail, then normal renderings of this and of other bitsets on the same thread
    if !failing_sinks_ok(b, m) {
        bad.push("failing-sink");
    }
    // (N >= 10: the same bitset and a fresh one alternate with the number of members - the reference rendering allocates per bit)
    let alt = N <= 3 || (members.len() + N) % 2 == 0;
    if alt && format!("{}", b) != bits01(m) {
        bad.push("render-after-failed-sink");
    }
    let compl: Vec<bool> = m.iter().map(|&x| !x).collect();
    let zeros = "0".repeat(64 * N);
    if (N <= 3 && format!("{:?}", !b.clone()) != bits01(&compl)) || ((N <= 3 || !alt) && format!("{}", Bitset::<N>::new()) != zeros)
        || format!("{}", Bitset::<1>::new()) != "0".repeat(64) || format!("{:?}", Bitset::<3>::from_u64(1)) != format!("1{}", "0".repeat(191))
    {
        bad.push("render-other-after-failed-sink");
    }
    if bad.is_empty() {
        "ok".to_string()
    } else {
        format!("bad({})", bad.join("/"))
    }
}

/// Observe one register through the public API; returns the printed record and whether everything equals the mirror's.
fn observe_reg<const N: usize>(b: &Bitset<N>, m: &[bool]) -> (String, bool) {
    let bits = 64 * N;
    let iter: Vec<usize> = b.iter_bits().collect();
    let disp = format!("{}", b);
    let dbg = format!("{:?}", b);
    let o = RegObs {
        tests: (0..bits).map(|i| b.test(i)).collect(),
        count: b.count(),
        probes: probes_impl(b, iter.len()),
        iter,
        extra: extra_checks(b, m, &disp, &dbg),
        disp,
        dbg,
    };
    let members: Vec<usize> = (0..bits).filter(|&i| m[i]).collect();
    let e = RegObs {
        tests: m.to_vec(),
        count: m.iter().filter(|&&x| x).count(),
        probes: probes_oracle(&members),
        iter: members,
        disp: bits01(m),
        dbg: bits01(m),
        extra: "ok".to_string(),
    };
    // (the oracle's `hint` field is a placeholder: compare everything but it)
    let probes_eq = o.probes.len() == e.probes.len()
        && o.probes.iter().zip(e.probes.iter()).all(|(a, b)| {
            a.k == b.k && a.count == b.count && a.last == b.last && a.rest == b.rest && a.nths == b.nths
                && a.peek == b.peek && a.peek_count == b.peek_count && a.skip_count == b.skip_count && a.hint_ok
                && a.provided == b.provided
        });
    let ok = o.tests == e.tests && o.count == e.count && o.iter == e.iter && o.disp == e.disp && o.dbg == e.dbg && o.extra == e.extra && probes_eq;
    (show_reg(&o, bits), ok)
}

/// two distinct elements of a slice, mutably and shared
fn pair_mut<T>(v: &mut [T], d: usize, s: usize) -> (&mut T, &T) {
    assert!(d != s);
    if d < s {
        let (lo, hi) = v.split_at_mut(s);
        (&mut lo[d], &hi[0])
    } else {
        let (lo, hi) = v.split_at_mut(d);
        (&mut hi[0], &lo[s])
    }
}

fn run_history<const N: usize>(k: usize, ops: &[Op]) -> String {
    let bits = 64 * N;
    let mut regs: Vec<Bitset<N>> = (0..k).map(|_| Bitset::<N>::new()).collect();
    let mut mir: Vec<Vec<bool>> = vec![vec![false; bits]; k]; // independent oracle
    let mut log: Vec<bool> = Vec::new();
    let mut mlog: Vec<bool> = Vec::new();
    let mut olog: Vec<String> = Vec::new();
    let mut oracle_ok = true;
    for op in ops {
        match op.clone() {
            Op::New(d) => {
                regs[d] = Bitset::<N>::new();
                mir[d] = vec![false; bits];
            }
            Op::Default(d) => {
                regs[d] = Default::default();
                mir[d] = vec![false; bits];
            }
            Op::From(d, v) => {
                regs[d] = Bitset::<N>::from_u64(v);
                mir[d] = (0..bits).map(|i| i < 64 && (v >> i) & 1 == 1).collect();
            }
            Op::Set(d, x) => {
                regs[d].set(x);
                mir[d][x] = true;
            }
            Op::Remove(d, x) => {
                regs[d].remove(x);
                mir[d][x] = false;
            }
            Op::Flip(d, x) => {
                regs[d].flip(x);
                mir[d][x] = !mir[d][x];
            }
            Op::Clear(d) => {
                regs[d].clear();
                mir[d] = vec![false; bits];
            }
            Op::And(d, a, b) => {
                // a == b: the SAME object on both sides
                let r = &regs[a] & &regs[b];
                regs[d] = r;
                mir[d] = (0..bits).map(|i| mir[a][i] && mir[b][i]).collect();
            }
            Op::Or(d, a, b) => {
                let r = &regs[a] | &regs[b];
                regs[d] = r;
                mir[d] = (0..bits).map(|i| mir[a][i] || mir[b][i]).collect();
            }
            Op::Xor(d, a, b) => {
                let r = &regs[a] ^ &regs[b];
                regs[d] = r;
                mir[d] = (0..bits).map(|i| mir[a][i] != mir[b][i]).collect();
            }
            Op::AndA(d, s) => {
                if d == s {
                    let t = regs[s].clone();
                    regs[d] &= &t;
                } else {
                    let (x, y) = pair_mut(&mut regs, d, s); // the live register itself, not a copy
                    *x &= y;
                }
                mir[d] = (0..bits).map(|i| mir[d][i] && mir[s][i]).collect();
            }
            Op::OrA(d, s) => {
                if d == s {
                    let t = regs[s].clone();
                    regs[d] |= &t;
                } else {
                    let (x, y) = pair_mut(&mut regs, d, s);
                    *x |= y;
                }
                mir[d] = (0..bits).map(|i| mir[d][i] || mir[s][i]).collect();
            }
            Op::XorA(d, s) => {
                if d == s {
                    let t = regs[s].clone();
                    regs[d] ^= &t;
                } else {
                    let (x, y) = pair_mut(&mut regs, d, s);
                    *x ^= y;
                }
                mir[d] = (0..bits).map(|i| mir[d][i] != mir[s][i]).collect();
            }
            Op::Not(d, s) => {
                let t = regs[s].clone();
                regs[d] = !t;
                mir[d] = (0..bits).map(|i| !mir[s][i]).collect();
            }
            Op::Clone(d, s) => {
                regs[d] = regs[s].clone();
                mir[d] = mir[s].clone();
            }
            Op::CloneFrom(d, s) => {
                // Clone::clone_from into the live (used) destination
                if d == s {
                    let t = regs[s].clone();
                    regs[d].clone_from(&t);
                } else {
                    let (x, y) = pair_mut(&mut regs, d, s);
                    x.clone_from(y);
                }
                mir[d] = mir[s].clone();
            }
            Op::Test(r, x) => {
                log.push(regs[r].test(x));
                mlog.push(mir[r][x]);
            }
            Op::Obs(r) => {
                let (s, ok) = observe_reg(&regs[r], &mir[r]);
                oracle_ok &= ok;
                olog.push(s);
            }
            Op::Load(d, ws) => {
                regs[d] = Bitset::<N>::new();
                mir[d] = vec![false; bits];
                for (j, w) in ws.iter().enumerate() {
                    for i in 0..64 {
                        if (w >> i) & 1 == 1 {
                            regs[d].set(64 * j + i);
                            mir[d][64 * j + i] = true;
                        }
                    }
                }
            }
        }
    }
    // observe
    let mut out: Vec<String> = Vec::new();
    for r in 0..k {
        let (s, ok) = observe_reg(&regs[r], &mir[r]);
        oracle_ok &= ok;
        out.push(s);
    }
    let mut eqs: Vec<String> = Vec::new();
    let mut nes: Vec<String> = Vec::new();
    for a in 0..k {
        let row: Vec<bool> = (0..k).map(|b| regs[a] == regs[b]).collect();
        let nrow: Vec<bool> = (0..k).map(|b| regs[a] != regs[b]).collect();
        let erow: Vec<bool> = (0..k).map(|b| mir[a] == mir[b]).collect();
        if row != erow || nrow.iter().zip(erow.iter()).any(|(x, y)| x == y) {
            oracle_ok = false;
        }
        eqs.push(bits01(&row));
        nes.push(bits01(&nrow));
    }
    if log != mlog {
        oracle_ok = false;
    }
    format!(
        "{} eq={} ne={} log={} obs={} o={}",
        out.join(" "),
        eqs.join("/"),
        nes.join("/"),
        if log.is_empty() { "-".to_string() } else { bits01(&log) },
        if olog.is_empty() { "-".to_string() } else { olog.join("#") },
        if oracle_ok { "ok" } else { "MISMATCH" }
    )
}

fn run_line(line: &str) -> String {
    const INVALID: &str = "I INVALID";
    let mut parts = line.split(';').map(|p| p.trim());
    let hdr: Vec<&str> = parts.next().unwrap_or("").split_whitespace().collect();
    if hdr.len() != 2 {
        return INVALID.to_string();
    }
    let (n, k) = match (pos(hdr[0]), pos(hdr[1])) {
        (Some(n), Some(k)) => (n, k),
        _ => return INVALID.to_string(),
    };
    if k == 0 || k > 16 {
        return INVALID.to_string();
    }
    let mut ops = Vec::new();
    for p in parts {
        if p.is_empty() {
            continue;
        }
        let toks: Vec<&str> = p.split_whitespace().collect();
        match parse_op(&toks, k) {
            Some(op) => ops.push(op),
            None => return INVALID.to_string(),
        }
    }
    // one instantiation of the const generic per entry of `NS`
    let r = match n {
        1 => catch(|| run_history::<1>(k, &ops)),
        2 => catch(|| run_history::<2>(k, &ops)),
        3 => catch(|| run_history::<3>(k, &ops)),
        10 => catch(|| run_history::<10>(k, &ops)),
        63 => catch(|| run_history::<63>(k, &ops)),
        64 => catch(|| run_history::<64>(k, &ops)),
        65 => catch(|| run_history::<65>(k, &ops)),
        128 => catch(|| run_history::<128>(k, &ops)),
        129 => catch(|| run_history::<129>(k, &ops)),
        256 => catch(|| run_history::<256>(k, &ops)),
        257 => catch(|| run_history::<257>(k, &ops)),
        512 => catch(|| run_history::<512>(k, &ops)),
        513 => catch(|| run_history::<513>(k, &ops)),
        _ => return INVALID.to_string(),
    };
    match r {
        Ok(s) => format!("I {}", s),
        Err(e) => format!("I {}", e),
    }
}

// ------------------------------------------------------------------------------------------------
// watchdog
// ------------------------------------------------------------------------------------------------

struct Worker {
    tx: mpsc::Sender<String>,
    rx: mpsc::Receiver<String>,
}

fn spawn_worker() -> Worker {
    let (tx, wrx) = mpsc::channel::<String>();
    let (wtx, rx) = mpsc::channel::<String>();
    std::thread::Builder::new()
        .stack_size(64 << 20)
        .spawn(move || {
            while let Ok(line) = wrx.recv() {
                let r = run_line(&line);
                if wtx.send(r).is_err() {
                    break;
                }
            }
        })
        .unwrap();
    Worker { tx, rx }
}

// ------------------------------------------------------------------------------------------------
// generators
// ------------------------------------------------------------------------------------------------

fn words_hex(ws: &[u64]) -> String {
    ws.iter().map(|w| format!("{:x}", w)).collect::<Vec<_>>().join(",")
}

fn from_bits(n: usize, f: impl Fn(usize) -> bool) -> Vec<u64> {
    let mut ws = vec![0u64; n];
    for i in 0..64 * n {
        if f(i) {
            ws[i / 64] |= 1u64 << (i % 64);
        }
    }
    ws
}

/// positions at and around word boundaries, all `< 64 n`, deduplicated, ascending
fn boundary_positions(n: usize) -> Vec<usize> {
    let b = 64 * n;
    let mut v: Vec<usize> = vec![0, 1, 31, 32, 33, 62, 63, b - 1, b - 2, b - 64];
    for k in 1..n {
        v.extend_from_slice(&[64 * k - 1, 64 * k, 64 * k + 1]);
    }
    v.retain(|&x| x < b);
    v.sort();
    v.dedup();
    if n == 10 {
        // keep the list short: the first two and the last two word boundaries plus one in the middle
        v.retain(|&x| x < 130 || x > 64 * 9 - 3 || (x >= 64 * 5 - 1 && x <= 64 * 5 + 1));
    }
    v
}

/// 40 structured sets per capacity.
fn pool(n: usize, rng: &mut SplitMix64) -> Vec<Vec<u64>> {
    let b = 64 * n;
    let mut p: Vec<Vec<u64>> = Vec::new();
    let push = |p: &mut Vec<Vec<u64>>, w: Vec<u64>| {
        if !p.contains(&w) {
            p.push(w);
        }
    };
    push(&mut p, vec![0; n]);
    push(&mut p, vec![u64::MAX; n]);
    for &x in &[0usize, 63, 64, 65, b - 1, b - 64, 127, 128] {
        if x < b {
            push(&mut p, from_bits(n, |i| i == x));
        }
    }
    push(&mut p, vec![0x5555_5555_5555_5555; n]);
    push(&mut p, vec![0xAAAA_AAAA_AAAA_AAAA; n]);
    push(&mut p, vec![0x0000_0000_FFFF_FFFF; n]);
    push(&mut p, vec![0xFFFF_FFFF_0000_0000; n]);
    push(&mut p, vec![1u64 << 63; n]);
    push(&mut p, vec![1; n]);
    push(&mut p, vec![(1u64 << 63) | 1; n]);
    push(&mut p, from_bits(n, |i| i < 64));
    push(&mut p, from_bits(n, |i| i >= b - 64));
    push(&mut p, from_bits(n, |i| (i / 64) % 2 == 0));
    push(&mut p, from_bits(n, |i| (i / 64) % 2 == 1));
    for &kk in &[1usize, 63, 65, b - 1, b / 2] {
        push(&mut p, from_bits(n, |i| i < kk));
        push(&mut p, from_bits(n, |i| i >= kk));
    }
    push(&mut p, from_bits(n, |i| i != 63));
    push(&mut p, from_bits(n, |i| i != b - 1));
    push(&mut p, from_bits(n, |i| i != 0));
    push(&mut p, from_bits(n, |i| i % 64 == 63 || i % 64 == 0 || i % 7 == 3));
    p.truncate(34);
    // random: dense, sparse, half — until 40 distinct sets
    let mut kind = 0;
    while p.len() < 40 {
        let w: Vec<u64> = (0..n)
            .map(|_| match kind % 3 {
                0 => rng.next_u64() | rng.next_u64() | rng.next_u64(),
                1 => rng.next_u64() & rng.next_u64() & rng.next_u64(),
                _ => rng.next_u64(),
            })
            .collect();
        kind += 1;
        push(&mut p, w);
    }
    p
}

fn rand_pos(rng: &mut SplitMix64, n: usize, bpos: &[usize], st: &mut Stats) -> usize {
    let b = 64 * n;
    match rng.below(10) {
        0..=3 => {
            st.bump("pos_boundary_list");
            *rng.pick(bpos)
        }
        4 | 5 => {
            // 64k-1, 64k, 64k+1 for a random word k
            st.bump("pos_word_edge");
            let k = rng.below(n as u64 + 1) as usize;
            let x = (64 * k + rng.below(3) as usize).saturating_sub(1);
            x.min(b - 1)
        }
        _ => {
            st.bump("pos_uniform");
            rng.below(b as u64) as usize
        }
    }
}

fn rand_word(rng: &mut SplitMix64) -> u64 {
    match rng.below(10) {
        0 => 0,
        1 => u64::MAX,
        2 => 1u64 << 63,
        3 => 1,
        4 => 1u64 << rng.below(64),
        5 => !(1u64 << rng.below(64)),
        6 => rng.next_u64() & rng.next_u64() & rng.next_u64(),
        7 => rng.next_u64() | rng.next_u64(),
        _ => rng.next_u64(),
    }
}

fn random_history(rng: &mut SplitMix64, n: usize, pools: &[Vec<u64>], bpos: &[usize], max_len: u64, st: &mut Stats) -> String {
    let big = n >= 63;
    // (every register is observed at the end: fewer registers for the capacities where one observation is expensive)
    let k = 1 + rng.below(if n >= 256 { 2 } else if big { 3 } else { 4 }) as usize;
    let len = 1 + rng.below(max_len) as usize;
    let mut s = format!("{} {}", n, k);
    let r = |rng: &mut SplitMix64| rng.below(k as u64) as usize;
    let mut nobs = 0;
    for _ in 0..len {
        let c = rng.below(100);
        let op = if c < 17 {
            st.bump("op_set");
            format!("set {} {}", r(rng), rand_pos(rng, n, bpos, st))
        } else if c < 28 {
            st.bump("op_remove");
            format!("remove {} {}", r(rng), rand_pos(rng, n, bpos, st))
        } else if c < 39 {
            st.bump("op_flip");
            format!("flip {} {}", r(rng), rand_pos(rng, n, bpos, st))
        } else if c < 46 {
            st.bump("op_test");
            format!("test {} {}", r(rng), rand_pos(rng, n, bpos, st))
        } else if c < 48 {
            st.bump("op_clear");
            format!("clear {}", r(rng))
        } else if c < 50 {
            st.bump("op_new");
            format!("new {}", r(rng))
        } else if c < 52 {
            st.bump("op_default");
            format!("default {}", r(rng))
        } else if c < 57 {
            st.bump("op_from_u64");
            format!("from {} {:x}", r(rng), rand_word(rng))
        } else if c < 61 {
            st.bump("op_and");
            format!("and {} {} {}", r(rng), r(rng), r(rng))
        } else if c < 65 {
            st.bump("op_or");
            format!("or {} {} {}", r(rng), r(rng), r(rng))
        } else if c < 69 {
            st.bump("op_xor");
            format!("xor {} {} {}", r(rng), r(rng), r(rng))
        } else if c < 73 {
            st.bump("op_and_assign");
            format!("anda {} {}", r(rng), r(rng))
        } else if c < 77 {
            st.bump("op_or_assign");
            format!("ora {} {}", r(rng), r(rng))
        } else if c < 81 {
            st.bump("op_xor_assign");
            format!("xora {} {}", r(rng), r(rng))
        } else if c < 86 {
            // a complement is dense: rare for the big capacities (observation cost)
            if big && !rng.chance(1, if n >= 256 { 30 } else { 8 }) {
                st.bump("op_flip");
                format!("flip {} {}", r(rng), rand_pos(rng, n, bpos, st))
            } else {
                st.bump("op_not");
                format!("not {} {}", r(rng), r(rng))
            }
        } else if c < 89 {
            st.bump("op_clone");
            format!("clone {} {}", r(rng), r(rng))
        } else if c < 92 {
            st.bump("op_clone_from");
            format!("clonefrom {} {}", r(rng), r(rng))
        } else if c < 96 {
            // a mid-history observation (at most two per history: each prints a whole register record)
            if nobs < 2 {
                nobs += 1;
                st.bump("op_obs");
                format!("obs {}", r(rng))
            } else {
                st.bump("op_test");
                format!("test {} {}", r(rng), rand_pos(rng, n, bpos, st))
            }
        } else {
            st.bump("op_load_pool");
            {
                let p: &Vec<u64> = rng.pick(pools);
                format!("load {} {}", r(rng), words_hex(p))
            }
        };
        s.push_str(" ; ");
        s.push_str(&op);
    }
    s
}

/// Sets for the capacities at and beyond the 64-word boundary: (sparse sets, dense sets).
/// Sparse sets keep the observation cheap; every one of them has a member `i` whose counterparts `i ± 4096` are not members.
fn pool_big(n: usize, rng: &mut SplitMix64) -> (Vec<Vec<u64>>, Vec<Vec<u64>>) {
    let b = 64 * n;
    let mut sp: Vec<Vec<u64>> = Vec::new();
    sp.push(from_bits(n, |i| i == 0));
    sp.push(from_bits(n, |i| i == b - 1));
    sp.push(from_bits(n, |i| [63, 64, 4031, 4032, 4095, 4096, 4097, 4159, 4160, 8191, 8192, b - 64, b - 1].contains(&i)));
    sp.push((0..n).map(|_| 1u64 << rng.below(64)).collect()); // one random bit in every word
    sp.push({
        let mut w = vec![0u64; n];
        for _ in 0..40 {
            let x = rng.below(b as u64) as usize;
            w[x / 64] |= 1 << (x % 64);
        }
        w
    });
    sp.push(from_bits(n, |i| i / 64 == 63.min(n - 1))); // word 63 (the last word of the first 4096-bit block) full
    sp.push(from_bits(n, |i| i / 64 == n - 1)); // last word full
    sp.push(from_bits(n, |i| i / 64 == 0)); // first word full
    sp.push(from_bits(n, |i| i % 64 == 63 && (i / 64) % 16 == 15)); // bit 63 of every 16th word
    let mut de: Vec<Vec<u64>> = Vec::new();
    de.push(vec![u64::MAX; n]);
    de.push((0..n).map(|_| rng.next_u64()).collect());
    de.push(from_bits(n, |i| i < 4096.min(b / 2))); // the first block (half of the words for N <= 64) full
    de.push(vec![0x5555_5555_5555_5555; n]);
    (sp, de)
}

/// Sets for the capacities at and beyond the 256-word / 512-word boundaries: (sparse sets, dense sets).
/// The sparse sets have non-empty words whose counterparts 64, 128, 256, 512 words further on are empty (and the other way round), members on both
/// sides of bits 16384 and 32768, long runs of empty words before the only member, and whole chunks of 256 words empty.
fn pool_huge(n: usize, rng: &mut SplitMix64) -> (Vec<Vec<u64>>, Vec<Vec<u64>>) {
    let b = 64 * n;
    let mut sp: Vec<Vec<u64>> = Vec::new();
    sp.push(from_bits(n, |i| i == 5)); // 0: only word 0 is not empty
    sp.push(from_bits(n, |i| i == b - 1)); // 1: only the last bit
    sp.push(from_bits(n, |i| {
        [63, 64, 4095, 4096, 8191, 8192, 16319, 16320, 16383, 16384, 16385, 16447, 16448, 24576, 32703, 32704, 32767, 32768, 32769, b - 64, b - 1].contains(&i)
    })); // 2: members around every block boundary
    sp.push((0..n).map(|k| if k < 256 { 1u64 << rng.below(64) } else { 0 }).collect()); // 3: one random bit in every word of the first 256 words, nothing beyond
    sp.push({
        let mut w = vec![0u64; n];
        for _ in 0..40 {
            let x = rng.below(b as u64) as usize;
            w[x / 64] |= 1 << (x % 64);
        }
        w
    }); // 4: forty random members
    sp.push(from_bits(n, |i| i / 64 == 255.min(n - 1))); // 5: word 255 (the last word of the first 256-word chunk) full
    sp.push((0..n).map(|k| if k >= 256.min(n - 1) { 1u64 << rng.below(64) } else { 0 }).collect()); // 6: one random bit in every word from 256 on, the first chunk empty
    sp.push(from_bits(n, |i| i / 64 == n - 1)); // 7: last word full
    sp.push(from_bits(n, |i| i % 64 == 63 && (i / 64) % 64 == 63)); // 8: bit 63 of every 64th word
    let mut de: Vec<Vec<u64>> = Vec::new();
    de.push(vec![u64::MAX; n]);
    de.push((0..n).map(|_| rng.next_u64()).collect());
    de.push(from_bits(n, |i| i < 16384.min(b / 2))); // the first 256 words (half of the words for N = 256) full
    de.push(vec![0x5555_5555_5555_5555; n]);
    (sp, de)
}

fn boundary_positions_huge(n: usize) -> Vec<usize> {
    let b = 64 * n;
    let mut v: Vec<usize> = vec![0, 63, 4096, 16383, 16384, 16385, 16447, 32767, 32768, 32769, b - 65, b - 64, b - 1];
    v.retain(|&x| x < b);
    v.sort();
    v.dedup();
    v
}

fn boundary_positions_big(n: usize) -> Vec<usize> {
    let b = 64 * n;
    let mut v: Vec<usize> = vec![0, 63, 64, 4031, 4032, 4095, 4096, 4097, 8191, 8192, b - 65, b - 64, b - 1];
    v.retain(|&x| x < b);
    v.sort();
    v.dedup();
    v
}

fn gen(args: &Args, emit0: &mut dyn FnMut(String), st: &mut Stats) {
    let thorough = args.tier == "thorough";
    // the debug profile (debug assertions on, no optimisation) gets a reduced stream of the same families
    let debug = args.extra.get("profile").map_or(false, |p| p == "debug");
    let mut counter = 0u64;
    let mut emit_f = |s: String| {
        counter += 1;
        if debug {
            let big = s.split_whitespace().next().and_then(|t| t.parse::<usize>().ok()).map_or(false, |n| n >= 63);
            let keep = if thorough { counter % 40 == 0 } else if big { counter % 12 == 0 } else { counter % 14 == 0 };
            if !keep {
                return;
            }
        }
        emit0(s)
    };
    let emit: &mut dyn FnMut(String) = &mut emit_f;
    let mut rng = SplitMix64::new(args.seed ^ 0xC12_0000);
    let pools: Vec<Vec<Vec<u64>>> = NS_SMALL.iter().map(|&n| pool(n, &mut rng)).collect();
    let bposs: Vec<Vec<usize>> = NS_SMALL.iter().map(|&n| boundary_positions(n)).collect();

    // (A) point operations: every pool set x every boundary position x {set, remove, flip}
    for (ni, &n) in NS_SMALL.iter().enumerate() {
        let step = if thorough { 1 } else if n == 10 { 6 } else { 4 };
        for p in pools[ni].iter().skip(if thorough { 0 } else { (args.seed as usize) % step }).step_by(step) {
            // (quick tier, N = 10: every second boundary position - a dense 640-bit observation costs ~5 ms on the model side)
            for &x in bposs[ni].iter().step_by(if !thorough && n == 10 { 2 } else { 1 }) {
                for op in ["set", "remove", "flip"] {
                    emit(format!("{} 1 ; load 0 {} ; {} 0 {} ; test 0 {}", n, words_hex(p), op, x, x));
                    st.bump("A_point_pool_x_boundary");
                }
            }
        }
    }
    // (B) all ordered pairs of pool sets through the six binary forms
    for (ni, &n) in NS_SMALL.iter().enumerate() {
        // quick tier: a 20 x 20 (N = 1), 14 x 14 (N = 2), 10 x 10 (N = 3) or 6 x 6 (N = 10) sub-grid (rotating with the seed)
        let stride = if thorough { 1 } else if n == 1 { 2 } else if n == 2 { 3 } else if n == 3 { 4 } else { 7 };
        let off = if thorough { 0 } else { (args.seed as usize) % stride };
        let sel: Vec<&Vec<u64>> = pools[ni].iter().skip(off).step_by(stride).collect();
        for a in &sel {
            for b in &sel {
                emit(format!(
                    "{} 8 ; load 0 {} ; load 1 {} ; and 2 0 1 ; or 3 0 1 ; xor 4 0 1 ; clone 5 0 ; anda 5 1 ; clone 6 0 ; ora 6 1 ; clone 7 0 ; xora 7 1",
                    n,
                    words_hex(a),
                    words_hex(b)
                ));
                st.bump(&format!("B_pairs_N{}", n));
            }
        }
    }
    // (C) unary forms on every pool set; the same object on both sides of the operators; Default / clone_from
    for (ni, &n) in NS_SMALL.iter().enumerate() {
        for (pi, p) in pools[ni].iter().enumerate() {
            emit(format!("{} 4 ; load 0 {} ; not 1 0 ; not 2 1 ; clone 3 0 ; clear 3", n, words_hex(p)));
            emit(format!("{} 4 ; load 0 {} ; and 1 0 0 ; or 2 0 0 ; xor 3 0 0", n, words_hex(p)));
            st.add("C_unary_pool", 2);
            if thorough || pi % 2 == 0 {
                emit(format!("{} 3 ; load 0 {} ; xora 0 0 ; load 1 {} ; anda 1 1 ; load 2 {} ; ora 2 2", n, words_hex(p), words_hex(p), words_hex(p)));
                emit(format!("{} 4 ; load 0 {} ; not 1 0 ; clonefrom 1 0 ; clonefrom 2 0 ; load 3 {} ; default 3 ; xor 0 0 0", n, words_hex(p), words_hex(p)));
                st.add("C_unary_pool", 2);
            }
        }
    }
    // (D) from_u64 on special words
    for &n in &NS_SMALL {
        let mut ws: Vec<u64> = vec![0, 1, 2, u64::MAX, 1 << 63, (1 << 63) - 1, 1 << 32, (1 << 32) - 1, 0x8000_0000_0000_0001, 0x5555_5555_5555_5555];
        for i in 0..64 {
            ws.push(1u64 << i);
        }
        for _ in 0..(if thorough { 200 } else { 20 }) {
            ws.push(rand_word(&mut rng));
        }
        for (wi, w) in ws.into_iter().enumerate() {
            if !thorough && n == 10 && wi % 4 != 0 {
                continue;
            }
            emit(format!("{} 2 ; from 0 {:x} ; not 1 0", n, w));
            st.bump("D_from_u64");
        }
    }
    // (E) iterator focus: every single-bit set; pairs of bits (all pairs for N=1 in thorough, boundary pairs otherwise)
    for (ni, &n) in NS_SMALL.iter().enumerate() {
        for x in 0..64 * n {
            if !thorough && n == 10 && !(x < 130 || (x >= 318 && x <= 322) || x >= 64 * n - 130) {
                continue; // quick tier, N = 10: the first two and the last two words and one inner boundary
            }
            emit(format!("{} 1 ; set 0 {}", n, x));
            st.bump("E_single_bit");
        }
        if thorough && n == 1 {
            for x in 0..64 {
                for y in (x + 1)..64 {
                    emit(format!("1 1 ; set 0 {} ; set 0 {}", y, x));
                    st.bump("E_bit_pairs_all_N1");
                }
            }
        }
        let bp = &bposs[ni];
        for (xi, &x) in bp.iter().enumerate() {
            for (yi, &y) in bp.iter().enumerate() {
                if !thorough && n == 10 && !(yi == xi + 1 || (xi == 0 && yi + 1 == bp.len()) || (xi + yi) % 7 == 0) {
                    continue; // quick tier, N = 10: neighbours in the boundary list, the two ends, and a seventh of the rest
                }
                if x < y {
                    emit(format!("{} 2 ; set 0 {} ; set 0 {} ; flip 1 {} ; flip 1 {} ; not 1 1", n, y, x, x, y));
                    st.bump("E_bit_pairs_boundary");
                }
            }
        }
    }
    // (F) random histories
    let nf = if thorough { 100_000 } else { 1_200 };
    for i in 0..nf {
        // N=10 lines are long: one in six
        let ni = match i % 6 {
            0 | 1 => 0,
            2 | 3 => 1,
            4 => 2,
            _ => {
                if i % 12 == 5 {
                    3
                } else {
                    2
                }
            }
        };
        let n = NS_SMALL[ni];
        st.bump(&format!("F_random_N{}", n));
        let max_len = if i % 10 == 0 { 40 } else { 14 };
        emit(random_history(&mut rng, n, &pools[ni], &bposs[ni], max_len, st));
    }
    // (H) several live bitsets used interleaved, each observed in the middle of the history (before and after it and
    //     its neighbours change), copies taken mid-history with both copies used afterwards
    for (ni, &n) in NS_SMALL.iter().enumerate() {
        let pl = &pools[ni];
        let cnt = if thorough { 400 } else { 15 };
        for _ in 0..cnt {
            let a = rng.pick(pl);
            let b = rng.pick(pl);
            let x = rand_pos(&mut rng, n, &bposs[ni], st);
            let y = rand_pos(&mut rng, n, &bposs[ni], st);
            emit(format!(
                "{} 3 ; load 0 {} ; obs 0 ; load 1 {} ; obs 0 ; xora 0 1 ; obs 0 ; obs 1 ; clonefrom 2 0 ; flip 0 {} ; obs 2 ; set 2 {} ; default 1 ; obs 1 ; obs 0",
                n, words_hex(a), words_hex(b), x, y
            ));
            st.bump("H_live_objects_mid_observation");
        }
    }
    // (G) outside the stated domain: positions >= 64 N (the property says nothing; model and code must still agree: panic:index)
    for &n in &NS {
        let b = 64 * n;
        for &x in &[b, b + 1, b + 63, b + 64, 2 * b, 1 << 32, (1usize << 63), usize::MAX, usize::MAX - 63] {
            for op in ["set", "remove", "flip", "test"] {
                if n >= 63 && op != "set" && !thorough {
                    continue;
                }
                emit(format!("{} 1 ; set 0 0 ; {} 0 {}", n, op, x));
                st.bump("G_out_of_domain");
            }
        }
    }
    // (I) capacities at and beyond the 64-word boundary (63, 64, 65, 128, 129): the same families, reduced and mostly on
    //     sparse sets (an observation of a dense 8256-bit set costs ~0.1 s on the model side)
    for &n in &NS_BIG {
        let b = 64 * n;
        let (sp, de) = pool_big(n, &mut rng);
        let bp = boundary_positions_big(n);
        let tag = format!("I_N{}", n);
        // quick tier: the full reduced stream for 65 and 129 (one word past a block), a lighter one for 63, 64, 128
        let lite = !thorough && n != 65 && n != 129;
        // rendering / iteration / count of every set, its clone, its cleared copy
        for p in &sp {
            emit(format!("{} 2 ; load 0 {} ; clonefrom 1 0 ; clear 0", n, words_hex(p)));
            st.bump(&tag);
        }
        if thorough {
            for p in &de {
                emit(format!("{} 2 ; load 0 {} ; not 1 0", n, words_hex(p)));
                st.bump(&tag);
            }
            emit(format!("{} 2 ; not 0 0 ; remove 0 {} ; remove 0 4095 ; remove 0 0 ; not 1 0", n, b - 1));
            st.bump(&tag);
        } else {
            emit(format!("{} 1 ; load 0 {}", n, words_hex(&de[0])));
            emit(format!("{} 2 ; load 0 {} ; not 1 0", n, words_hex(&de[1])));
            st.add(&tag, 2);
        }
        emit(format!("{} 2 ; set 0 0 ; set 0 {} ; not 1 0", n, b - 1));
        st.bump(&tag);
        // point operations
        let sel: Vec<&Vec<u64>> = if thorough { sp.iter().chain(de.iter().take(1)).collect() } else if lite { vec![&sp[2]] } else { vec![&sp[2], &sp[3]] };
        for p in &sel {
            for &x in bp.iter().step_by(if thorough { 1 } else if lite { 3 } else { 2 }) {
                for op in ["set", "remove", "flip"] {
                    emit(format!("{} 1 ; load 0 {} ; {} 0 {} ; test 0 {}", n, words_hex(p), op, x, x));
                    st.bump(&tag);
                }
            }
        }
        // operators and equality on pairs
        let sel: Vec<&Vec<u64>> = if thorough { sp.iter().chain(de.iter().skip(1).take(2)).collect() } else { vec![&sp[2], &sp[3], &sp[5]] };
        for (i, a) in sel.iter().enumerate() {
            for (j, bb) in sel.iter().enumerate() {
                if !thorough && ((i + j) % 2 == 1 || (lite && i != j)) {
                    continue;
                }
                emit(format!(
                    "{} 8 ; load 0 {} ; load 1 {} ; and 2 0 1 ; or 3 0 1 ; xor 4 0 1 ; clone 5 0 ; anda 5 1 ; clone 6 0 ; ora 6 1 ; clone 7 0 ; xora 7 1",
                    n, words_hex(a), words_hex(bb)
                ));
                st.bump(&tag);
            }
        }
        emit(format!("{} 4 ; load 0 {} ; and 1 0 0 ; or 2 0 0 ; xor 3 0 0", n, words_hex(&sp[3])));
        emit(format!("{} 2 ; load 0 {} ; load 1 {} ; xora 0 0 ; anda 1 1", n, words_hex(&sp[4]), words_hex(&sp[2])));
        st.add(&tag, 2);
        // from_u64, single bits and bit pairs at the boundaries
        for w in [1u64, 1 << 63, u64::MAX] {
            emit(format!("{} 1 ; from 0 {:x}", n, w));
            st.bump(&tag);
        }
        for (i, &x) in bp.iter().enumerate() {
            if lite && i % 2 == 1 {
                continue;
            }
            emit(format!("{} 1 ; set 0 {}", n, x));
            st.bump(&tag);
            if let Some(&y) = bp.get(i + 1) {
                emit(format!("{} 1 ; set 0 {} ; set 0 {}", n, y, x));
                st.bump(&tag);
            }
        }
        // live objects with mid-history observations
        for _ in 0..(if thorough { 60 } else { 2 }) {
            let a = rng.pick(&sp);
            let bb = rng.pick(&sp);
            let x = *rng.pick(&bp);
            emit(format!(
                "{} 3 ; load 0 {} ; obs 0 ; load 1 {} ; xora 0 1 ; obs 0 ; clonefrom 2 0 ; flip 0 {} ; obs 2 ; default 1 ; obs 1",
                n, words_hex(a), words_hex(bb), x
            ));
            st.bump(&tag);
        }
        // random histories
        for i in 0..(if thorough { 400 } else if lite { 5 } else { 12 }) {
            let max_len = if i % 10 == 0 { 20 } else { 8 };
            emit(random_history(&mut rng, n, &sp, &bp, max_len, st));
            st.bump(&tag);
        }
    }
    // (J) capacities at and beyond the 256-word and 512-word boundaries (256, 257, 512, 513): rendering, iteration, count, operators and
    //     equality on a handful of cases each.  One observation of a sparse 32832-bit register costs ~0.05 s on the model side, of a dense
    //     one ~0.5 s: the quick tier stays sparse (one full set per capacity past a boundary) and puts the weight on 257 and 513.
    const BIN: &str = "and 2 0 1 ; or 3 0 1 ; xor 4 0 1";
    const ASSIGN: &str = "clone 2 0 ; anda 2 1 ; clone 3 0 ; ora 3 1 ; clone 4 0 ; xora 4 1";
    for &n in &NS_HUGE {
        let b = 64 * n;
        let (sp, de) = pool_huge(n, &mut rng);
        let bp = boundary_positions_huge(n);
        let tag = format!("J_N{}", n);
        let lite = !thorough && n != 257 && n != 513;
        let rot = args.seed as usize;
        // rendering / iteration / count of every set; of its clone_from copy and its cleared original
        for (i, p) in sp.iter().enumerate() {
            if lite && ![0, 1, 2, 5].contains(&i) {
                continue;
            }
            if thorough || i == 1 {
                emit(format!("{} 2 ; load 0 {} ; clonefrom 1 0 ; clear 0", n, words_hex(p)));
            } else {
                emit(format!("{} 1 ; load 0 {}", n, words_hex(p)));
            }
            st.bump(&tag);
        }
        if thorough {
            for p in &de {
                emit(format!("{} 2 ; load 0 {} ; not 1 0", n, words_hex(p)));
                st.bump(&tag);
            }
            emit(format!("{} 2 ; not 0 0 ; remove 0 {} ; remove 0 16383 ; remove 0 0 ; not 1 0", n, b - 1));
            emit(format!("{} 2 ; set 0 0 ; set 0 {} ; not 1 0", n, b - 1));
            st.add(&tag, 2);
        } else if !lite {
            // the full set: count and the iterator's length reach 64 N (16448 > 2^14, 32832 > 2^15)
            emit(format!("{} 1 ; load 0 {}", n, words_hex(&de[0])));
            st.bump(&tag);
        }
        // point operations at the block boundaries
        let sel: Vec<&Vec<u64>> = if thorough { vec![&sp[2], &sp[3], &sp[6], &de[0]] } else { vec![&sp[2]] };
        for p in &sel {
            let (step, off) = if thorough { (1, 0) } else if lite { (6, rot % 6) } else { (3, rot % 3) };
            for &x in bp.iter().skip(off).step_by(step) {
                for op in ["set", "remove", "flip"] {
                    emit(format!("{} 1 ; load 0 {} ; {} 0 {} ; test 0 {}", n, words_hex(p), op, x, x));
                    st.bump(&tag);
                }
            }
        }
        // operators on pairs (five registers per case: the binary forms and the assigning forms separately)
        if thorough {
            // (every sparse pair, and the random dense set against everything: a case with dense results costs ~1 s on the model side at N = 513)
            let sel: Vec<&Vec<u64>> = sp.iter().chain(de.iter().skip(1).take(1)).collect();
            for a in &sel {
                for bb in &sel {
                    emit(format!("{} 5 ; load 0 {} ; load 1 {} ; {}", n, words_hex(a), words_hex(bb), BIN));
                    emit(format!("{} 5 ; load 0 {} ; load 1 {} ; {}", n, words_hex(a), words_hex(bb), ASSIGN));
                    st.add(&tag, 2);
                }
            }
            emit(format!("{} 4 ; load 0 {} ; and 1 0 0 ; or 2 0 0 ; xor 3 0 0", n, words_hex(&sp[3])));
            emit(format!("{} 2 ; load 0 {} ; load 1 {} ; xora 0 0 ; anda 1 1", n, words_hex(&sp[4]), words_hex(&sp[2])));
            st.add(&tag, 2);
        } else {
            // operands that differ in the first chunk only / beyond it only / on both sides (rotating with the seed)
            let pairs = [(2usize, 3usize), (3, 6), (6, 2), (4, 8)];
            let (i, j) = pairs[rot % 4];
            emit(format!("{} 5 ; load 0 {} ; load 1 {} ; {}", n, words_hex(&sp[i]), words_hex(&sp[j]), BIN));
            st.bump(&tag);
            if !lite {
                let (i, j) = pairs[(rot + 1) % 4];
                emit(format!("{} 5 ; load 0 {} ; load 1 {} ; {}", n, words_hex(&sp[i]), words_hex(&sp[j]), ASSIGN));
                st.bump(&tag);
            }
        }
        // equality / inequality of sets that differ only beyond the first 256 (512) words
        emit(format!("{} 3 ; set 0 {} ; set 1 {} ; set 1 {}", n, 16384.min(b - 64), 16384.min(b - 64), b - 1));
        st.bump(&tag);
        if n > 512 {
            emit(format!("{} 2 ; set 0 100 ; set 1 100 ; set 1 32768", n));
            st.bump(&tag);
        }
        // from_u64, single bits and bit pairs at the boundaries
        for (wi, w) in [0x8000_0000_0000_0001u64, u64::MAX, 1].into_iter().enumerate() {
            if thorough || (!lite && wi == 0) {
                emit(format!("{} 1 ; from 0 {:x}", n, w));
                st.bump(&tag);
            }
        }
        for (i, &x) in bp.iter().enumerate() {
            if !thorough && (i + rot) % (if lite { 6 } else { 3 }) != 0 {
                continue;
            }
            emit(format!("{} 1 ; set 0 {}", n, x));
            st.bump(&tag);
            if let Some(&y) = bp.get(i + 1) {
                emit(format!("{} 1 ; set 0 {} ; set 0 {}", n, y, x));
                st.bump(&tag);
            }
        }
        // live objects with mid-history observations
        for _ in 0..(if thorough { 20 } else if lite { 0 } else { 1 }) {
            let a = rng.pick(&sp);
            let bb = rng.pick(&sp);
            let x = *rng.pick(&bp);
            emit(format!(
                "{} 2 ; load 0 {} ; obs 0 ; load 1 {} ; xora 0 1 ; obs 0 ; clonefrom 1 0 ; flip 0 {} ; obs 1 ; default 1",
                n, words_hex(a), words_hex(bb), x
            ));
            st.bump(&tag);
        }
        // random histories
        for i in 0..(if thorough { 80 } else if lite { 1 } else { 3 }) {
            let max_len = if i % 10 == 0 { 20 } else { 8 };
            emit(random_history(&mut rng, n, &sp, &bp, max_len, st));
            st.bump(&tag);
        }
    }
}

static HUNG: std::sync::atomic::AtomicBool = std::sync::atomic::AtomicBool::new(false);

/// CPU seconds (user + system) this process has used so far; `None` if /proc is unavailable.
fn process_cpu_seconds() -> Option<f64> {
    let s = std::fs::read_to_string("/proc/self/stat").ok()?;
    let after = &s[s.rfind(')')? + 1..];
    let f: Vec<&str> = after.split_whitespace().collect();
    // after the command name: state is field 3, utime field 14, stime field 15 (1-based in the whole line)
    let utime: f64 = f.get(11)?.parse().ok()?;
    let stime: f64 = f.get(12)?.parse().ok()?;
    Some((utime + stime) / 100.0)
}

fn main() {
    use std::sync::atomic::Ordering;
    use std::time::Instant;
    let mut worker: Option<Worker> = Some(spawn_worker());
    cli(gen, move |line| {
        if HUNG.load(Ordering::SeqCst) {
            return "I INVALID skipped-after-hang".to_string();
        }
        let w = worker.as_ref().unwrap();
        w.tx.send(line.to_string()).unwrap();
        // A case needs well under 10 ms of CPU.  It is declared hung when this process (the main thread only
        // waits, so this is the worker) has burnt 2 s of CPU on it — being descheduled on a loaded machine does
        // not count — or, as a backstop (and when /proc is unavailable), after 120 s of wall-clock time.
        let cpu0 = process_cpu_seconds();
        let t0 = Instant::now();
        loop {
            match w.rx.recv_timeout(Duration::from_millis(500)) {
                Ok(r) => return r,
                Err(_) => {
                    let burnt = match (cpu0, process_cpu_seconds()) {
                        (Some(a), Some(b)) => b - a,
                        _ => 0.0,
                    };
                    if burnt >= 2.0 || t0.elapsed() >= Duration::from_secs(120) {
                        HUNG.store(true, Ordering::SeqCst);
                        // the stuck thread is abandoned; the process ends after the last line
                        std::mem::forget(worker.take());
                        return "I hang".to_string();
                    }
                }
            }
        }
    });
    if HUNG.load(Ordering::SeqCst) {
        // make the hang visible to `check` even if the line itself were overlooked
        eprintln!("a case used 2 s of CPU without returning (answered `hang`); later cases of this process were skipped");
        std::process::exit(3);
    }
}
