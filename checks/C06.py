"""C06 — Modular<M> is Z/M with canonical representatives and true inverses (engine `mint`)."""
ID = "C06"
ENGINE = "mint"
CRATE = "e_mint"
DRIVER = "drv_mint"
DRIVER_MODULE = "Driver.Mint"
PROPS = "RlibModel.Props.C06"
PROPS_SRC = "RlibModel.Props.C06Src"     # second tie: `src_*` theorems about the definitions regenerated from the source text
PROFILES = ["release", "debug"]     # debug: debug_assert! / cfg(debug_assertions) paths; runs a lighter version of every stream
SHRINK_SEP = ";"                    # `chain` histories are shrunk by deleting steps (any subsequence is a valid case)
RULE = ("cases: for every modulus 2..=64 every operand pair x {+,-,*,/,==, assigning forms}, every residue x {neg, inv, Display/Debug}, "
        "every residue x an exponent window + boundary exponents (2^32, 2^63, u64::MAX, ...), a window of constructor arguments; for "
        "998244353, 10^9+7, 2^31-1, 2^31-19, 2^31-2, 2^31-3, 65536, 15015, 2^30, 46341, 46340, 46337: all pairs of ~20 boundary residues (0,1,M-1,M-2,M/2,2^16,46341,...), "
        "boundary constructor arguments (i64::MIN/MAX, +-M, 2^31, 2^32, multiples of M next to i64::MAX), Writable bytes / Readable value, "
        "then random residues, random i64 constructor arguments and random u64 exponents; a small separate stream for moduli outside the "
        "domain (1, 2^31, 2^31+1, 2^32-1) where the spec says `any` and nothing is compared (results are only shown). inv and / are pinned "
        "(S = ok) only for operands coprime to M; for other operands S and both views say `any`, model = implementation is still compared on raw. "
        "every pair line evaluates + - * / == and += -= *= /=; every io line writes through a real Writer, reads the token and the written bytes through a real Reader. "
        "wave 3: 40 large moduli (added: every square-root threshold of a narrowed / floating-point product - 181..183 i16, 255..257, 4096..4098 f32, "
        "32767..32769, 2^24, 2^24+1, 94906266..94906268 f64, 2^29, ceil(2^31/sqrt 2), (2^31+1)/3, floor(2^32/3), Fibonacci F46, 2^31-5); in the quick tier the "
        "boundary cross products are full for the core values (0..3, M-3..M-1, M/2, 46340, 46341, 2^16) and every value with itself, and a rotating half (pairs) / third "
        "(base x exponent) of the rest - a different part for every modulus; thorough: everything. New case kinds: `cst M` (ZERO, ONE, md(), ZERO == new(0), ONE == new(1)); "
        "`chain M v0 ; op ; ...` one accumulator with every result fed back: + - * / by value, assigning, reversed (new(v) - acc, new(v) / acc), the same object on both "
        "sides (acc * acc, acc *= acc, acc + acc, acc - acc, acc / acc), neg, inv, pow, Clone::clone, clone_from into a fresh and into a used destination, Copy through "
        "arrays / tuples / Box, Vec clone / clone_from / == / != (also of Option), Writer -> Reader round trip, new(inner()), ZERO, ONE, == and != both ways folded back into the "
        "value; 6 (small moduli) / 60 (large) random histories of 4..24 steps per modulus and four of 1500 steps; shrunk by deleting steps; inverses only of values "
        "coprime to M (the generator follows the value), otherwise the whole case is `S any`; `ios M t1..tk` k tokens (boundary constructor arguments, -0, -00, 007, "
        "leading zeros, random i64; four sequences of 5000) in ONE Reader separated by varying white space, read with read_vec, and alternating Modular / i64 / tuple "
        "reads, is_eof, the values written as a Vec through ONE Writer and read back; `thr <case>` the case on a freshly spawned thread. Interleaving stream extended: the same "
        "NON-canonical i64 (new / pair / io) under M1, M2, M2; un under M1, the same on a fresh thread under M2, then on the main thread; the same history under M1, M2, M2. "
        "Exponents added: 255..257, 65535..65537, 2^32 + small, 2^48+1, 2^53-1..2^53+1, 2^62, 2^63-1, 2^64-2^32, random k*2^s + small. Second build profile `debug` "
        "(debug_assert!, cfg(debug_assertions)) on a lighter version of every stream. "
        "wave 5: 24 more compiled-in moduli with special number-theoretic structure - Carmichael numbers (561, 1105, 1729, 2465, 294409, 56052361, 1299963601), "
        "the Fermat pseudoprime 341, strong pseudoprimes to {2} (2047, 3277, 4033), to {2,3} (1373653, 1530787) and ALL below 2^31 to {2,3,5} (25326001, 161304001, "
        "960946321, 1157839381; none below 2^31 passes {2,3,5,7}), prime squares / cubes (841, 2197, 2209, 46337^2, 1289^3, Wieferich 1093^2 and 3511^2) - each with pow for "
        "bases 2,3,5,7,11,13,17,19, 0, 1, M-1, M-2, (M+1)/2, every prime factor p of M, p+1, M/p, a random multiple of p, random residues, two non-canonical arguments x "
        "~50 structure exponents (M-2..M+1, 2(M-1), 3(M-1), (M-1)/2, (M-1)^2, phi(M) and lambda(M) +-1 and their multiples, the odd part of M-1 and its doublings, random "
        "k(M-1)+r and k*lambda+r up to 2^64, multiples of M-1 / phi / lambda next to u64::MAX; all of them for the small prime bases, a rotating third otherwise), inv of every base, "
        "quotients by the first 5 bases, constants, boundary constructor arguments and 6 random histories whose pow steps draw from these exponents. "
        "non-trivial = distinct in-domain case with at least one argument of magnitude > 1")
ASSUMPTIONS = [
    "the Lean model of rlib_mint is hand-written; it is tied to the code by running both on the same cases",
    "Modular<M> needs M at compile time: the correspondence covers the compiled-in list of 127 in-domain moduli (2..=64, 40 large ones and 24 with special number-theoretic structure; the theorems cover all 2 <= M < 2^31)",
    "wave 3: in a `chain` case the harness itself compares the ways of copying a value (Clone::clone, clone_from, Copy, containers) and the two directions of == / != with each other and prints a "
    "*-MISMATCH / EQ-INCONSISTENT token in place of the value (the model has ONE step `ident` for all of them); the value of every step, inverses and quotients included, is pinned by the "
    "spec side (specInv: Bezout recursion over unbounded integers, proved equal to the i32 loop for coprime operands - theorems inv_value, step_spec, chain_spec), not by a harness oracle",
    "`thr` cases are answered by the driver exactly like the case they wrap (thread-local state is not part of the model: any dependence on it is a violation)",
    "the generator follows the value of a history in u128 arithmetic only to keep inverses in the domain; a wrong generator value can only turn a case into `S any`, never into a verdict",
    "harness built with overflow-checks=true so a wrapped intermediate shows up as panic:overflow instead of a silent wrong value",
    "the decimal token <-> i64 step of Readable/Writable is rlib_io's (properties C08/C09); here the token's value is taken as given",
]
MANIFEST = {
    "level": "proof",
    "text": ("Lean 4 theorems for every modulus 2 <= M < 2^31: new/add/sub/neg/mul return the canonical representative of the true integer "
             "result and none of the u32/i32/i64 overflow checks of the modelled code fires; pow equals a^d mod M for every exponent (the loop is "
             "defined by well-founded recursion, so it terminates); the i32 extended-Euclid loop of inv never overflows, terminates and returns "
             "r in [0,M) with r*a = gcd(a,M) (mod M); (x/y)*y = x whenever gcd(y,M)=1; equality of representatives is congruence; for coprime operands inv and / are pinned as "
             "values (the unique canonical inverse, computed by an independent recursion); ZERO/ONE are the canonical 0 and 1; a history of any length that feeds results back "
             "(all operator spellings, the same object on both sides, copies, re-construction, == folded back) equals the same history over the integers reduced mod M. The hand-written "
             "model is tied to rlib_mint by a differential correspondence run on every check."),
    "note": ("Trusted: Lean kernel, axioms propext/Classical.choice/Quot.sound, the hand-written model (checked against the code on the generated "
             "cases only, for a finite compiled-in list of moduli), harness and driver plumbing. Decimal parsing/printing of the token is C08/C09."),
    "technique": "Lean 4 proof of a hand-written model + differential correspondence check against the Rust crate",
    "design_ref": "DESIGN.md §6 C06",
}


def harness_args(params, profile):
    return ["--profile", profile]


def nontrivial(case, rec):
    toks = case.split()
    try:
        return any(abs(int(t)) > 1 for t in toks[2:])
    except ValueError:
        return True


# ---- second tie: the model regenerated from the source text on every run (tools/rs2lean_typed.py) -----------------
ASSUMPTIONS.append(
    "second tie: new/add/sub/neg/mul/pow/inv/div of the hand-written model are proved equal (theorems src_*_eq_model) to the definitions "
    "that tools/rs2lean_typed.py regenerates from the text of rlib/mint/src/lib.rs on every run (Generated/MintSrc.lean: casts = wrap, "
    "+ - * / = checked); trusted there: the translator and its reading of the primitive u32/i32/i64/u64 operations, `derive`d Copy/Clone; "
    "not translated: Readable/Writable/Display/Debug/Show impls")
MANIFEST["technique"] += " + source-to-Lean translation of rlib/mint/src/lib.rs regenerated and proved equal to the model on every run"


def extract(repo):
    """Translate <repo>/rlib/mint/src/lib.rs into Generated/MintSrc.lean (written only when its text changes).  A construct
    outside the translator's subset is a broken correspondence; the generated file then has no definitions, so the src_*
    theorems stop compiling as well (never a stale file left in place)."""
    import os
    import sys
    verif = os.path.dirname(os.path.dirname(os.path.abspath(__file__)))
    tools = os.path.join(verif, "tools")
    if tools not in sys.path:
        sys.path.insert(0, tools)
    import rs2lean_typed
    rel = "rlib/mint/src/lib.rs"
    fns = ["new", "Add::add", "Sub::sub", "Neg::neg", "Mul::mul", "pow", "inv", "Div::div"]
    out = os.path.join(verif, "lean", "RlibModel", "Generated", "MintSrc.lean")
    info, problems = rs2lean_typed.run(os.path.join(repo, rel), out, "Rlib.MintSrc", rel, ID, "Modular", fns)
    params = {"translated_from": rel, "translated_functions": info.get("functions", []), "translated_loops": info.get("loops", []),
              "generated_file": "lean/RlibModel/Generated/MintSrc.lean", "generated_file_rewritten": info.get("rewritten", False)}
    return params, problems


def extra(ctx):
    """Plain-words verdict on the second tie when the src_* proofs did not build (the generic check only names the file)."""
    import rs2lean
    ok = bool(ctx["params"].get("translated_functions"))
    return rs2lean.tie_findings(["RlibModel/Generated/MintSrc.lean"], "RlibModel/Lemmas/MintSrc.lean", ok, "rlib/mint/src/lib.rs")
