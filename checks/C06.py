"""C06 — Modular<M> is Z/M with canonical representatives and true inverses (engine `mint`)."""
ID = "C06"
ENGINE = "mint"
CRATE = "e_mint"
DRIVER = "drv_mint"
DRIVER_MODULE = "Driver.Mint"
PROPS = "RlibModel.Props.C06"
PROPS_SRC = "RlibModel.Props.C06Src"     # second tie: `src_*` theorems about the definitions regenerated from the source text
PROFILES = ["release"]
SHRINK_SEP = None
RULE = ("cases: for every modulus 2..=64 every operand pair x {+,-,*,/,==, assigning forms}, every residue x {neg, inv, Display/Debug}, "
        "every residue x an exponent window + boundary exponents (2^32, 2^63, u64::MAX, ...), a window of constructor arguments; for "
        "998244353, 10^9+7, 2^31-1, 2^31-19, 2^31-2, 2^31-3, 65536, 15015, 2^30, 46341, 46340, 46337: all pairs of ~20 boundary residues (0,1,M-1,M-2,M/2,2^16,46341,...), "
        "boundary constructor arguments (i64::MIN/MAX, +-M, 2^31, 2^32, multiples of M next to i64::MAX), Writable bytes / Readable value, "
        "then random residues, random i64 constructor arguments and random u64 exponents; a small separate stream for moduli outside the "
        "domain (1, 2^31, 2^31+1, 2^32-1) where the spec says `any` and nothing is compared (results are only shown). inv and / are pinned "
        "(S = ok) only for operands coprime to M; for other operands S and both views say `any`, model = implementation is still compared on raw. "
        "every pair line evaluates + - * / == and += -= *= /=; every io line writes through a real Writer, reads the token and the written bytes through a real Reader. "
        "non-trivial = distinct in-domain case with at least one argument of magnitude > 1")
ASSUMPTIONS = [
    "the Lean model of rlib_mint is hand-written; it is tied to the code by running both on the same cases",
    "Modular<M> needs M at compile time: the correspondence covers the compiled-in list of 75 in-domain moduli (the theorems cover all 2 <= M < 2^31)",
    "harness built with overflow-checks=true so a wrapped intermediate shows up as panic:overflow instead of a silent wrong value",
    "the decimal token <-> i64 step of Readable/Writable is rlib_io's (properties C08/C09); here the token's value is taken as given",
]
MANIFEST = {
    "level": "proof",
    "text": ("Lean 4 theorems for every modulus 2 <= M < 2^31: new/add/sub/neg/mul return the canonical representative of the true integer "
             "result and none of the u32/i32/i64 overflow checks of the modelled code fires; pow equals a^d mod M for every exponent (the loop is "
             "defined by well-founded recursion, so it terminates); the i32 extended-Euclid loop of inv never overflows, terminates and returns "
             "r in [0,M) with r*a = gcd(a,M) (mod M); (x/y)*y = x whenever gcd(y,M)=1; equality of representatives is congruence. The hand-written "
             "model is tied to rlib_mint by a differential correspondence run on every check."),
    "note": ("Trusted: Lean kernel, axioms propext/Classical.choice/Quot.sound, the hand-written model (checked against the code on the generated "
             "cases only, for a finite compiled-in list of moduli), harness and driver plumbing. Decimal parsing/printing of the token is C08/C09."),
    "technique": "Lean 4 proof of a hand-written model + differential correspondence check against the Rust crate",
    "design_ref": "DESIGN.md §6 C06",
}


def nontrivial(case, rec):
    toks = case.split()
    try:
        return any(abs(int(t)) > 1 for t in toks[2:])
    except ValueError:
        return True


# ---- second tie: the model regenerated from the source text on every run (tools/rs2lean_typed.py) -----------------
ASSUMPTIONS.append(
    "second tie: new/add/sub/neg/mul/pow/inv/div of the hand-written model are proved equal (theorems src_*_eq_model) to the definitions "
    "that tools/rs2lean_typed.py regenerates from the text of rlib/mint/src/lib.rs on every run (Generated/MintSrc.lean: casts = wrap, "
    "+ - * / = checked); trusted there: the translator and its reading of the primitive u32/i32/i64/u64 operations, `derive`d Copy/Clone; "
    "not translated: Readable/Writable/Display/Debug/Show impls")
MANIFEST["technique"] += " + source-to-Lean translation of rlib/mint/src/lib.rs regenerated and proved equal to the model on every run"


def extract(repo):
    """Translate <repo>/rlib/mint/src/lib.rs into Generated/MintSrc.lean (written only when its text changes).  A construct
    outside the translator's subset is a broken correspondence; the generated file then has no definitions, so the src_*
    theorems stop compiling as well (never a stale file left in place)."""
    import os
    import sys
    verif = os.path.dirname(os.path.dirname(os.path.abspath(__file__)))
    tools = os.path.join(verif, "tools")
    if tools not in sys.path:
        sys.path.insert(0, tools)
    import rs2lean_typed
    rel = "rlib/mint/src/lib.rs"
    fns = ["new", "Add::add", "Sub::sub", "Neg::neg", "Mul::mul", "pow", "inv", "Div::div"]
    out = os.path.join(verif, "lean", "RlibModel", "Generated", "MintSrc.lean")
    info, problems = rs2lean_typed.run(os.path.join(repo, rel), out, "Rlib.MintSrc", rel, ID, "Modular", fns)
    params = {"translated_from": rel, "translated_functions": info.get("functions", []), "translated_loops": info.get("loops", []),
              "generated_file": "lean/RlibModel/Generated/MintSrc.lean", "generated_file_rewritten": info.get("rewritten", False)}
    return params, problems


def extra(ctx):
    """Plain-words verdict on the second tie when the src_* proofs did not build (the generic check only names the file)."""
    import rs2lean
    ok = bool(ctx["params"].get("translated_functions"))
    return rs2lean.tie_findings(["RlibModel/Generated/MintSrc.lean"], "RlibModel/Lemmas/MintSrc.lean", ok, "rlib/mint/src/lib.rs")
