"""C09 — Writer delivers exactly the formatted bytes in order; round-trips with Reader (engine `writer`)."""
import os
import re

ID = "C09"
ENGINE = "writer"
CRATE = "e_writer"
DRIVER = "drv_writer"
DRIVER_MODULE = "Driver.Writer"
PROPS = "RlibModel.Props.C09"
# bridge to the Reader model of C08 (imported and re-exported by Props/C09.lean, so its theorems are audited as C09 obligations)
EXTRA_LAKE_TARGETS = ["RlibModel.Props.C09Bridge"]
PROFILES = ["release", "debug"]     # Writer flushes after every write under debug_assertions
SHRINK_SEP = ";"
RULE = ("cases = write scripts (write of any of the 12 integer types / &str / String / Vec / tuple 2..8, write_char, flush, "
        "out!/outln!) run on the real Writer in a release and a debug build of the harness, with sinks that accept at most k bytes "
        "per call and report Interrupted every j-th call: (1) every boundary value (digit-count changes, powers of two, MIN, MAX) of "
        "every integer type alone, in vectors, tuples and outln!, 8-bit types exhaustively (16-bit too in the thorough tier); "
        "(2) fill level steered to every value in BUF-45..BUF (pre-fill string), then each of ~40 interesting writes (39-digit "
        "integers, sign + digits, strings of 0,1,2,38..46 bytes, exactly/one less/one more than the room left), (3) strings of "
        "BUF-1, BUF, BUF+1, 2BUF, 2BUF+1, 3BUF+7 bytes at fill levels 0,1,39,BUF-40,BUF-1,BUF; (4) random scripts of nested values; "
        "(5) round-trip scripts read back through the real Reader under chunked/interrupted delivery; (7) `r` lines: the same kind of "
        "script written by the real Writer and read back by the real Reader (leaf by leaf, or char / tuple reads of arity 2..8 / read_vec), "
        "the values read are printed and compared with the Reader MODEL run on the Writer MODEL's sink bytes under the same delivery "
        "schedule (drv_writer, IoRT.readBack). Compared: sink contents "
        "(length + FNV-1a hash; hex when short) after every flush and after drop, the harness's own format!-oracle, values read "
        "back; in the debug build additionally `ub`: after every operation the sink already holds everything written (flush-per-write). "
        "Dedicated blocks: (2b) the tail is delivered by Drop alone (no flush after the last write) under every sink kind (accepts all / "
        "partial / interrupting / both), (2c) a multi-byte piece ends exactly at fill level BUF and the next call is write_char (directly "
        "or as Vec/tuple/out! separator or outln! newline). The number of write_all calls is NOT compared (when bytes reach the sink before "
        "flush/drop is not promised): it is logged in coverage.flush_count_diagnostic only. non-trivial = distinct in-domain case whose "
        "final sink content is non-empty")
ASSUMPTIONS = [
    "the Lean model of rlib_io::Writer is hand-written; it is tied to the code by running both on the same scripts in both profiles",
    "std's Write::write_all is trusted to be its documented loop: the model's flush hands a whole slice to the sink; that this loop "
    "delivers the slice over every sink of the harness's family (at most k bytes per call, Interrupted every j-th call) is the "
    "stand-alone theorem write_all_delivers; the real write_all over these sinks is exercised by the harness",
    "sink contents are compared as (length, 64-bit FNV-1a) pairs, plus the bytes themselves when at most 32",
    "when bytes reach the sink before flush/drop is not constrained (write_all counts are a logged diagnostic only), except that the "
    "debug build is checked to hold nothing pending after each operation (`ub` view)",
    "BUF_SIZE is read from writer.rs on every run; the theorems hold for every BUF_SIZE >= 39 and that side condition is evaluated",
]
TRUSTED_EXTRA = ["std::io::Write::write_all"]
MANIFEST = {
    "level": "proof",
    "text": ("Lean 4 theorems about a model of rlib_io::Writer that mirrors reserve/write_bytes/flush/drop and every Writable instance: "
             "after any sequence of writes sink ++ pending = concatenation of the standard renderings, for both flush-per-write "
             "settings, every BUF_SIZE >= 39 and every fill level; flush/drop deliver it; no piece ever exceeds the buffer; the "
             "backward digit loop in a BASE_10_LEN buffer never underflows and equals Nat.toDigits 10 for every value of every width "
             "(signed MIN included); tokenising and parsing the produced text returns the values; and (bridge to the Reader model of C08) "
             "the sink bytes of the dropped writer, delivered to the Reader model under any chunking / Interrupted placement and any reader "
             "buffer size >= 1, are read back by read::<T>() per written integer / ASCII word (then is_eof() is true), by every grouping of the "
             "leaves into tuple reads, read_vec and char reads, write_char characters by read::<char>(), and outln! lines by "
             "read_line()/read_lines(); the composed computation is what drv_writer executes for `r` case lines (readback_driver)."),
    "note": ("Trusted: Lean kernel, axioms propext/Classical.choice/Quot.sound, the hand-written model (checked against the code on "
             "generated scripts in a release and a debug build), std's write_all, harness and driver plumbing, FNV comparison of long outputs."),
    "technique": "Lean 4 proof of a hand-written model + differential correspondence check against the Rust crate in two build profiles",
    "design_ref": "DESIGN.md §6 C09",
}


def extract(repo):
    """BUF_SIZE and the debug-flush discipline, read from writer.rs with anchored patterns."""
    params, problems = {}, []
    path = os.path.join(repo, "rlib", "io", "src", "writer.rs")
    try:
        src = open(path).read()
    except OSError as e:
        return params, [f"cannot read {path}: {e}"]
    m = re.search(r"^\s*const\s+BUF_SIZE\s*:\s*usize\s*=\s*([^;]+);", src, flags=re.M)
    buf = None
    if not m:
        problems.append("writer.rs: `const BUF_SIZE: usize = …;` not found")
    else:
        expr = m.group(1).strip().replace("_", "")
        m2 = re.fullmatch(r"(\d+)\s*<<\s*(\d+)", expr)
        if m2:
            buf = int(m2.group(1)) << int(m2.group(2))
        elif re.fullmatch(r"\d+", expr):
            buf = int(expr)
        elif re.fullmatch(r"(\d+)\s*\*\s*(\d+)", expr):
            a, b = re.fullmatch(r"(\d+)\s*\*\s*(\d+)", expr).groups()
            buf = int(a) * int(b)
        else:
            problems.append(f"writer.rs: BUF_SIZE expression not understood: {expr!r}")
    if buf is not None:
        params["writer_buf_size"] = buf
        if buf < 39:
            problems.append(f"side condition 39 <= BUF_SIZE fails (BUF_SIZE = {buf}): a 39-digit integer no longer fits the buffer")
        if buf < 64:
            problems.append(f"BUF_SIZE = {buf} < 64: the generators of this check assume at least 64")
    if not re.search(r"buf\s*:\s*\[\s*u8\s*;\s*Writer::BUF_SIZE\s*\]", src):
        problems.append("writer.rs: the buffer is no longer `[u8; Writer::BUF_SIZE]`")
    if len(re.findall(r"chunks\(\s*Writer::BUF_SIZE\s*\)", src)) != 2:
        problems.append("writer.rs: strings are no longer chunked by `Writer::BUF_SIZE` in both string instances")
    # flush-per-write under debug_assertions (`write`, `write_char`): a note only — the flushing policy is not part of the
    # property (bytes after flush/drop are); the debug build's "nothing pending after an operation" is compared as the `ub` view.
    n_dbg = len(re.findall(r"#\[cfg\(debug_assertions\)\]\s*self\.flush\(\);", src))
    params["debug_flush_sites"] = n_dbg
    params["debug_flush_sites_note"] = "2 expected (write, write_char); informational, not a side condition"
    # BASE_10_LEN: the macro loop modelled by `base10len` and its use for every integer type
    npath = os.path.join(repo, "rlib", "num_traits", "src", "lib.rs")
    try:
        nsrc = re.sub(r"\s+", " ", open(npath).read())
    except OSError as e:
        return params, problems + [f"cannot read {npath}: {e}"]
    loop = ("macro_rules! base_10_len { ($ut:ty) => {{ let mut value = <$ut>::MAX; let mut ans: usize = 0; "
            "while value != 0 { value /= 10; ans += 1; } ans }}; }")
    if loop not in nsrc:
        problems.append("num_traits/lib.rs: the `base_10_len!` macro is no longer the loop modelled by Decimal.base10len")
    if "fixed_size_integer!($it, $ut, base_10_len!($ut));" not in nsrc:
        problems.append("num_traits/lib.rs: BASE_10_LEN is no longer `base_10_len!($ut)` for every integer type")
    if "const BASE_10_LEN: usize = $len;" not in nsrc:
        problems.append("num_traits/lib.rs: `const BASE_10_LEN: usize = $len;` not found")
    wsrc = re.sub(r"\s+", " ", src)
    if "let mut buf = [0; <$t as FixedSizeInteger>::BASE_10_LEN];" not in wsrc:
        problems.append("writer.rs: the digit buffer is no longer `[0; <$t as FixedSizeInteger>::BASE_10_LEN]`")
    params["base_10_len_macro"] = "loop on <$ut>::MAX"
    return params, problems


def harness_args(params, profile):
    return ["--buf", str(params.get("writer_buf_size", 65536)), "--profile", profile]


_DROP = re.compile(r"drop=(\d+):")
_FL = re.compile(r" fl=(\d+) \|")


def extra(ctx):
    """Flush-count diagnostic, logged in the evidence and NEVER part of the verdict: a sample of the generated `w` lines is
    re-run with `fl=1` in the header, which makes harness and driver append their number of write_all calls to the raw part."""
    diag = {}
    for pipe in ctx["pipes"]:
        path = os.path.join(ctx["workdir"], f"cases.{pipe.profile}")
        lines = []
        try:
            with open(path) as f:
                for line in f:
                    if line.startswith("w ") and " dbg=*" not in line and len(line) < 4000:
                        lines.append(line.rstrip("\n").replace("w buf=", "w fl=1 buf=", 1))
        except OSError:
            continue
        n = 1500 if ctx["tier"] == "thorough" else 300
        step = max(1, len(lines) // n)
        sample = lines[::step][:n]
        d = {"sampled_cases": len(sample), "same_count": 0, "different_count": 0, "impl_write_all_calls": 0,
             "model_write_all_calls": 0, "examples_of_difference": []}
        try:
            res = pipe.eval_cases(sample, "fldiag") if sample else []
        except Exception as e:  # diagnostic only
            d["error"] = str(e)[:200]
            res = []
        for r in res:
            mi, mm = _FL.search(r["impl_line"] + " |"), _FL.search(r["model_line"])
            if not mi or not mm:
                continue
            a, b = int(mi.group(1)), int(mm.group(1))
            d["impl_write_all_calls"] += a
            d["model_write_all_calls"] += b
            if a == b:
                d["same_count"] += 1
            else:
                d["different_count"] += 1
                if len(d["examples_of_difference"]) < 3:
                    d["examples_of_difference"].append({"case": r["case"][:300], "impl_fl": a, "model_fl": b})
        diag[pipe.profile] = d
    ctx["coverage"]["flush_count_diagnostic"] = dict(diag, note="not compared: the flushing policy before flush/drop is not part of C09")
    return []


def nontrivial(case, rec):
    m = _DROP.search(rec["model_line"])
    return bool(m) and int(m.group(1)) > 0
