"""C09 — Writer delivers exactly the formatted bytes in order; round-trips with Reader (engine `writer`)."""
import os
import re

ID = "C09"
ENGINE = "writer"
CRATE = "e_writer"
DRIVER = "drv_writer"
DRIVER_MODULE = "Driver.Writer"
PROPS = "RlibModel.Props.C09"
# bridge to the Reader model of C08 (imported and re-exported by Props/C09.lean, so its theorems are audited as C09 obligations)
EXTRA_LAKE_TARGETS = ["RlibModel.Props.C09Bridge"]
PROFILES = ["release", "debug"]     # Writer flushes after every write under debug_assertions
SHRINK_SEP = ";"
RULE = ("cases = write scripts (write of any of the 12 integer types / &str / String / Vec / tuple 2..8, write_char, flush, "
        "out!/outln!) run on the real Writer in a release and a debug build of the harness, with sinks that accept at most k bytes "
        "per call and report Interrupted every j-th call: (1) every boundary value (digit-count changes, powers of two, MIN, MAX) of "
        "every integer type alone, in vectors, tuples and outln!, 8-bit types exhaustively (16-bit too in the thorough tier); "
        "(2) fill level steered to every value in BUF-45..BUF (pre-fill string), then each of ~40 interesting writes (39-digit "
        "integers, sign + digits, strings of 0,1,2,38..46 bytes, exactly/one less/one more than the room left), (3) strings of "
        "BUF-1, BUF, BUF+1, 2BUF, 2BUF+1, 3BUF+7 bytes at fill levels 0,1,39,BUF-40,BUF-1,BUF; (4) random scripts of nested values; "
        "(5) round-trip scripts read back through the real Reader under chunked/interrupted delivery; (7) `r` lines: the same kind of "
        "script written by the real Writer and read back by the real Reader (leaf by leaf, or char / tuple reads of arity 2..8 / read_vec), "
        "the values read are printed and compared with the Reader MODEL run on the Writer MODEL's sink bytes under the same delivery "
        "schedule (drv_writer, IoRT.readBack). Compared: sink contents "
        "(length + FNV-1a hash; hex when short) after every flush and after drop, the harness's own format!-oracle, values read "
        "back; in the debug build additionally `ub`: after every operation the sink already holds everything written (flush-per-write). "
        "Dedicated blocks: (2b) the tail is delivered by Drop alone (no flush after the last write) under every sink kind (accepts all / "
        "partial / interrupting / both), (2c) a multi-byte piece ends exactly at fill level BUF and the next call is write_char (directly "
        "or as Vec/tuple/out! separator or outln! newline). The number of write_all calls is NOT compared (when bytes reach the sink before "
        "flush/drop is not promised): it is logged in coverage.flush_count_diagnostic only. non-trivial = distinct in-domain case whose "
        "final sink content is non-empty. Wave 3: (5b) words containing every ASCII byte that is not whitespace — NUL, the other control "
        "characters, DEL — alone / first / middle / last in a word, as &str and String, in Vec, tuple, out!, outln!, and words of 123..65537 such "
        "bytes, written and read back (`w` lines rt=1: compared with the value written, leaf by leaf; `r` lines: the values read are printed "
        "and compared with the written values); strings of 1-/2-/3-/4-byte UTF-8 characters (every byte value a String can hold) at fill levels "
        "around BUF; (8) `m` lines — several live objects on one thread: up to 8 slots holding Writers (each over its own sink of any kind) and "
        "Readers (each over its own chunked/interrupting source), created, used INTERLEAVED, moved to another address, dropped and leaked "
        "(mem::forget) in any order; a writer is reached through its inherent API (W/C/F/O/L) or through the public trait method "
        "Writable::write(&v, &mut writer) called directly (T: no debug flush, so bytes are pending in the debug build too); (8a) writer A holds "
        "pending bytes (8 ways) while writer B writes (10 pieces, up to > BUF) x creation order x {flush both, B dropped first, A moved, both "
        "dropped at the end}; (8b) one writer, trait-method pieces of 38..41 bytes / big strings at every fill level BUF-d, then an inherent "
        "call; a leaked writer followed by a new one; (8c) one Writer and one Reader alive together (reader holds buffered unread input while "
        "the writer writes, writer holds pending bytes while the reader refills); (8d) random interleavings of 2..6 objects. Compared per `m` "
        "line: for every writer the sink contents after each of its flushes and after its drop, every value a reader returns, in history "
        "order; harness oracle fmt; in the debug build `ub`: after every inherent call the writer's sink holds everything written to it. "
        "(9) `c` lines: ASCII characters (all 128 codes, NUL / control / DEL / the whitespace characters) written with write_char, the writer "
        "dropped, every non-whitespace byte read back with read::<char>(), then is_eof(). Wave 5: (8e) `m` steps DU / DG — the object is dropped "
        "WHILE THE THREAD IS UNWINDING from a panic (nested catch_unwind around a closure that owns the writer and panics: DU; around a closure "
        "holding a scope guard whose destructor drops the writer during the unwinding: DG): pending bytes of 10 kinds (trait method = pending in "
        "both builds, inherent calls, at / over the fill boundary) x 5 sink kinds x {alone, after a flush, after a move, second writer alive, a "
        "whole new writer life right after, fill steered to BUF-d}; every third drop of the random interleavings (8d) is DU/DG. For the model and "
        "the specification DU and DG are the operation drop (the sink must hold everything written); same D= event, same fmt oracle")
ASSUMPTIONS = [
    "the Lean model of rlib_io::Writer is hand-written; it is tied to the code by running both on the same scripts in both profiles",
    "std's Write::write_all is trusted to be its documented loop: the model's flush hands a whole slice to the sink; that this loop "
    "delivers the slice over every sink of the harness's family (at most k bytes per call, Interrupted every j-th call) is the "
    "stand-alone theorem write_all_delivers; the real write_all over these sinks is exercised by the harness",
    "sink contents are compared as (length, 64-bit FNV-1a) pairs, plus the bytes themselves when at most 32",
    "when bytes reach the sink before flush/drop is not constrained (write_all counts are a logged diagnostic only), except that the "
    "debug build is checked to hold nothing pending after each operation (`ub` view)",
    "BUF is determined on every run, best effort: from writer.rs if a generic anchor matches, else observed on the real writer "
    "(first delivery when single characters are written); it only aims the boundary streams — by the theorems (every BUF >= 39, both "
    "profiles, every fill level) the delivered bytes do not depend on it. Structural source anchors are evidence notes only",
]
ASSUMPTIONS += [
    "`m` lines: the model gives every Writer / Reader its own buffer (nothing shared between objects, nothing survives an object); its "
    "specification side (per writer the concatenated standard formatting of the calls addressed to it, per reader C08's specification on "
    "its own input) is proved equal to the model side for every history of valid calls (multi_driver) and to depend on the calls addressed "
    "to that writer only (multi_isolated); that the real objects behave like that is the differential comparison. The harness's `fmt` field "
    "is an independent format!-based oracle",
    "`m` lines: moving an object (MV) is a move into a fresh heap allocation made while the old one is alive; a leaked writer's sink is not "
    "looked at (how much a writer has delivered before flush/drop is not promised)",
    "`c` lines and the read-back of words: the domain is ASCII (the Reader returns bytes as Latin-1 characters, so a non-ASCII String does not "
    "read back as itself — C08 residue); non-ASCII strings (pattern kinds 2 and 4) are compared on the write side only",
]
ASSUMPTIONS += [
    "`m` steps DU / DG: the driver maps them to the model's existing `drop` (no new model material: the property promises the same of a drop "
    "during unwinding as of any other drop); the harness realises them with a real panic!() inside a nested catch_unwind, so "
    "std::thread::panicking() is true in the destructor; the harness's sinks never fail, so no double panic can arise on unchanged code",
]
TRUSTED_EXTRA = ["std::io::Write::write_all"]
MANIFEST = {
    "level": "proof",
    "text": ("Lean 4 theorems about a model of rlib_io::Writer that mirrors reserve/write_bytes/flush/drop and every Writable instance: "
             "after any sequence of writes sink ++ pending = concatenation of the standard renderings, for both flush-per-write "
             "settings, every BUF_SIZE >= 39 and every fill level; flush/drop deliver it; no piece ever exceeds the buffer; the "
             "backward digit loop in a BASE_10_LEN buffer never underflows and equals Nat.toDigits 10 for every value of every width "
             "(signed MIN included); tokenising and parsing the produced text returns the values; and (bridge to the Reader model of C08) "
             "the sink bytes of the dropped writer, delivered to the Reader model under any chunking / Interrupted placement and any reader "
             "buffer size >= 1, are read back by read::<T>() per written integer / ASCII word (then is_eof() is true), by every grouping of the "
             "leaves into tuple reads, read_vec and char reads, write_char characters by read::<char>(), and outln! lines by "
             "read_line()/read_lines(); the composed computation is what drv_writer executes for `r` case lines (readback_driver)."),
    "note": ("Trusted: Lean kernel, axioms propext/Classical.choice/Quot.sound, the hand-written model (checked against the code on "
             "generated scripts in a release and a debug build), std's write_all, harness and driver plumbing, FNV comparison of long outputs."),
    "technique": "Lean 4 proof of a hand-written model + differential correspondence check against the Rust crate in two build profiles",
    "design_ref": "DESIGN.md §6 C09",
}


def _const_value(expr):
    """Evaluate the few literal forms a buffer-size constant is written in; None if not understood."""
    expr = expr.strip().replace("_", "")
    expr = re.sub(r"(?<=\d)(usize|u32|u64)\b", "", expr)
    m = re.fullmatch(r"(\d+)\s*<<\s*(\d+)", expr)
    if m:
        return int(m.group(1)) << int(m.group(2))
    if re.fullmatch(r"\d+", expr):
        return int(expr)
    m = re.fullmatch(r"(\d+)\s*\*\s*(\d+)", expr)
    if m:
        return int(m.group(1)) * int(m.group(2))
    return None


def _buf_from_source(src):
    """Best-effort, several generic anchors. Returns (value, anchor description) or (None, why)."""
    consts = {m.group(1): m.group(2) for m in re.finditer(r"^\s*(?:pub\s+)?const\s+(\w+)\s*:\s*usize\s*=\s*([^;]+);", src, flags=re.M)}
    # (a) the historical name
    if "BUF_SIZE" in consts and _const_value(consts["BUF_SIZE"]) is not None:
        return _const_value(consts["BUF_SIZE"]), "source: const BUF_SIZE"
    # (b) the length of the byte array field of `struct Writer`
    m = re.search(r"struct\s+Writer\b[^{]*\{(.*?)\n\}", src, flags=re.S)
    if m:
        for fm in re.finditer(r"\w+\s*:\s*\[\s*u8\s*;\s*([^\]]+)\]", m.group(1)):
            ln = fm.group(1).strip()
            v = _const_value(ln)
            if v is not None:
                return v, "source: literal length of Writer's byte-array field"
            name = ln.split("::")[-1].strip()
            if name in consts and _const_value(consts[name]) is not None:
                return _const_value(consts[name]), f"source: const {name} (length of Writer's byte-array field)"
    # (c) exactly one usize constant with a literal value in the file
    vals = {k: _const_value(v) for k, v in consts.items() if _const_value(v) is not None}
    if len(vals) == 1:
        k, v = next(iter(vals.items()))
        return v, f"source: const {k} (the only literal usize constant in writer.rs)"
    return None, "no source anchor matched"


def _buf_observed(repo):
    """Differential fallback: build the release harness against `repo` and ask it at which fill level the real writer delivers
    for the first time when fed single characters (`e_writer probe`)."""
    import json
    import subprocess
    import sys
    sys.path.insert(0, os.path.join(os.path.dirname(os.path.dirname(os.path.abspath(__file__))), "tools"))
    import veriflib as V
    crate_dir, _root = V.harness_dir(CRATE, repo)
    ok, out, _ = V.cargo_build(crate_dir, "release")
    if not ok:
        return None, "release harness does not build: " + out[-300:]
    try:
        r = subprocess.run([os.path.join(crate_dir, "target", "release", CRATE), "probe"], stdout=subprocess.PIPE,
                           stderr=subprocess.PIPE, text=True, timeout=600)
        d = json.loads(r.stdout.strip().split("\n")[-1])
    except Exception as e:  # noqa: BLE001
        return None, f"probe failed: {e}"
    v = d.get("first_delivery_len")
    if isinstance(v, int) and v > 1:
        return v, "observed: length of the first delivery to the sink when single characters are written (release build)"
    return None, f"probe inconclusive: {d}"


def extract(repo):
    """Best-effort: BUF (needed only to AIM the boundary streams — by the theorems the delivered bytes do not depend on it) from the
    source if an anchor matches, else observed differentially; structural anchors are notes, never broken entries. The side
    condition "no piece can overflow the buffer" (39 <= BUF) is evaluated on whichever BUF was determined and is, besides, checked
    differentially by the boundary streams (pieces of 38/39/40 bytes at every fill level within 45 of BUF, strings of BUF-1/BUF/BUF+1/3BUF+7)."""
    params, problems, notes = {}, [], []
    path = os.path.join(repo, "rlib", "io", "src", "writer.rs")
    try:
        src = open(path).read()
    except OSError as e:
        return params, [f"cannot read {path}: {e}"]
    buf, how = _buf_from_source(src)
    if buf is None:
        notes.append(f"BUF not found in the source ({how}); falling back to differential observation")
        buf, how = _buf_observed(repo)
    if buf is None:
        notes.append(f"BUF could not be observed either ({how}); boundary streams are aimed at the default 65536")
        buf, how = 65536, "default (neither source anchor nor observation)"
    params["writer_buf_size"] = buf
    params["buf_source"] = how
    if buf < 39:
        problems.append(f"side condition 39 <= BUF fails (BUF = {buf}, {how}): a 39-digit integer piece cannot fit the buffer")
    # ---- structural anchors: notes only (the model mirrors this structure; a different structure that delivers the same bytes
    # is fine for C09 and is judged by the differential run, not here)
    wsrc = re.sub(r"\s+", " ", src)
    if not re.search(r"\[\s*u8\s*;\s*Writer::BUF_SIZE\s*\]", src):
        notes.append("writer.rs: the buffer field is not written `[u8; Writer::BUF_SIZE]`")
    n_chunks = len(re.findall(r"\.chunks\(", src))
    if n_chunks != 2:
        notes.append(f"writer.rs: {n_chunks} `.chunks(` loops (the model mirrors one per string instance)")
    n_dbg = len(re.findall(r"#\[cfg\(debug_assertions\)\]\s*self\.flush\(\);", src))
    params["debug_flush_sites"] = n_dbg
    if n_dbg != 2:
        notes.append(f"writer.rs: {n_dbg} `#[cfg(debug_assertions)] self.flush();` sites (model: write, write_char)")
    if "let mut buf = [0; <$t as FixedSizeInteger>::BASE_10_LEN];" not in wsrc:
        notes.append("writer.rs: the digit buffer is not written `[0; <$t as FixedSizeInteger>::BASE_10_LEN]`")
    npath = os.path.join(repo, "rlib", "num_traits", "src", "lib.rs")
    try:
        nsrc = re.sub(r"\s+", " ", open(npath).read())
        loop = ("macro_rules! base_10_len { ($ut:ty) => {{ let mut value = <$ut>::MAX; let mut ans: usize = 0; "
                "while value != 0 { value /= 10; ans += 1; } ans }}; }")
        if loop not in nsrc:
            notes.append("num_traits/lib.rs: `base_10_len!` is not textually the loop modelled by Decimal.base10len")
        if "fixed_size_integer!($it, $ut, base_10_len!($ut));" not in nsrc:
            notes.append("num_traits/lib.rs: BASE_10_LEN is not textually `base_10_len!($ut)` for every integer type")
    except OSError as e:
        notes.append(f"cannot read {npath}: {e}")
    params["structure_notes"] = notes if notes else ["all structural anchors of the model match the source text"]
    return params, problems


def harness_args(params, profile):
    return ["--buf", str(params.get("writer_buf_size", 65536)), "--profile", profile]


_DROP = re.compile(r"drop=(\d+):")
_FL = re.compile(r" fl=(\d+) \|")


def extra(ctx):
    """Flush-count diagnostic, logged in the evidence and NEVER part of the verdict: a sample of the generated `w` lines is
    re-run with `fl=1` in the header, which makes harness and driver append their number of write_all calls to the raw part."""
    diag = {}
    for pipe in ctx["pipes"]:
        path = os.path.join(ctx["workdir"], f"cases.{pipe.profile}")
        lines = []
        try:
            with open(path) as f:
                for line in f:
                    if line.startswith("w ") and " dbg=*" not in line and len(line) < 4000:
                        lines.append(line.rstrip("\n").replace("w buf=", "w fl=1 buf=", 1))
        except OSError:
            continue
        n = 1500 if ctx["tier"] == "thorough" else 300
        step = max(1, len(lines) // n)
        sample = lines[::step][:n]
        d = {"sampled_cases": len(sample), "same_count": 0, "different_count": 0, "impl_write_all_calls": 0,
             "model_write_all_calls": 0, "examples_of_difference": []}
        try:
            res = pipe.eval_cases(sample, "fldiag") if sample else []
        except Exception as e:  # diagnostic only
            d["error"] = str(e)[:200]
            res = []
        for r in res:
            mi, mm = _FL.search(r["impl_line"] + " |"), _FL.search(r["model_line"])
            if not mi or not mm:
                continue
            a, b = int(mi.group(1)), int(mm.group(1))
            d["impl_write_all_calls"] += a
            d["model_write_all_calls"] += b
            if a == b:
                d["same_count"] += 1
            else:
                d["different_count"] += 1
                if len(d["examples_of_difference"]) < 3:
                    d["examples_of_difference"].append({"case": r["case"][:300], "impl_fl": a, "model_fl": b})
        diag[pipe.profile] = d
    # cross-check of the BUF the boundary streams were aimed at: what the real (release) writer shows
    for pipe in ctx["pipes"]:
        if pipe.profile != "release":
            continue
        try:
            import json
            import subprocess
            r = subprocess.run([pipe.bin, "probe"], stdout=subprocess.PIPE, stderr=subprocess.PIPE, text=True, timeout=600)
            obs = json.loads(r.stdout.strip().split("\n")[-1]).get("first_delivery_len")
        except Exception as e:  # noqa: BLE001  (diagnostic only)
            obs = f"probe failed: {e}"
        ep = ctx["coverage"].setdefault("extracted_params", {})
        ep["buf_observed"] = obs
        if isinstance(obs, int) and obs != ctx["params"].get("writer_buf_size"):
            ep.setdefault("structure_notes", []).append(
                f"the release writer first delivers at fill level {obs}, the boundary streams were aimed at {ctx['params'].get('writer_buf_size')}")
    ctx["coverage"]["flush_count_diagnostic"] = dict(diag, note="not compared: the flushing policy before flush/drop is not part of C09")
    return []


_MDROP = re.compile(r"\d:[DF]=(\d+):")


def nontrivial(case, rec):
    if case.startswith("m "):
        # several live objects: some writer shows a non-empty text
        return any(int(x) > 0 for x in _MDROP.findall(rec["model_line"]))
    m = _DROP.search(rec["model_line"])
    return bool(m) and int(m.group(1)) > 0


# ---- second tie: writer.rs regenerated from the source text on every run (tools/rs2lean_writer.py) ---------------------------
PROPS_SRC = "RlibModel.Props.C09Src"     # `src_*` theorems about the definitions regenerated from the source text
ASSUMPTIONS.append(
    "second tie: new/flush/reserve/write_bytes/write_char/Writer::write/Drop::drop, the &str and String chunk loops, the bodies of "
    "write_unsigned!/write_signed! (all twelve integer instances), Vec<T> and the seven write_tuple! expansions of the hand-written model "
    "are proved (theorems src_*_eq_model) to do what the definitions do that tools/rs2lean_writer.py regenerates from the text of "
    "rlib/io/src/writer.rs on every run (Generated/WriterSrc.lean: the struct is the tuple (buffer, end, sink), usize = Nat with checked + and -, "
    "the sink is an explicit oracle parameter whose write_all appends the whole slice — the contract the model assumes —, "
    "#[cfg(debug_assertions)] statements are guarded by a profile parameter dbg, a bound T: Writable is a dictionary parameter, loops run on "
    "fuel); stated through the abstraction pend = buf[..end] for every buffer content, every end <= buffer length, every sink, both profiles; "
    "hypotheses: the buffer length (and a raw piece) is below 2^63 (so end + len cannot overflow usize), buffer length = BUF_SIZE for the "
    "string chunk loops, an integer argument fits its type, enough fuel for the loops; trusted there: the translator, its reading of std in "
    "Generated/IoWritePrelude.lean (write_all contract, slices, copy_from_slice, chunks / enumerate iterators, % and / with overflow checks, "
    "unsigned_abs, BASE_10_LEN of rlib_num_traits taken as the model's base10len — the base_10_len! macro itself is compared as text only)")
MANIFEST["text"] += (" Several live objects: for every history that creates, uses interleaved, moves, drops and leaks any number of Writers and Readers "
                     "— a writer being reached through its inherent API or through Writable::write(&v, &mut w) directly — the model shows, per writer, exactly "
                     "the text of the calls addressed to it and, per reader, C08's specification on its own input (multi_driver, multi_isolated, call_inv); "
                     "a flush-per-write build holds nothing pending after any inherent call whatever was pending before (call_debug_flushed); ASCII characters "
                     "written with write_char come back from read::<char>() under the harness's delivery (readback_chars_driver).")
MANIFEST["technique"] += " + source-to-Lean translation of rlib/io/src/writer.rs regenerated and proved equal to the model on every run"
MANIFEST["text"] += (" Second tie: the functions of writer.rs (new, flush, reserve, write_bytes, write_char, write, drop, the &str/String chunk loops, the "
                     "write_unsigned!/write_signed! bodies, Vec<T>, tuples) are re-translated from the source text on every run and proved to refine the "
                     "model for all buffer states, sinks and both profiles.")
TRUSTED_EXTRA.append("tools/rs2lean_writer.py (+ the inherited rules of tools/rs2lean_reader.py) and lean/RlibModel/Generated/IoWritePrelude.lean "
                     "(reading of std::io::Write::write_all, slices, copy_from_slice, chunks, enumerate, integer % and /, unsigned_abs, BASE_10_LEN)")

WRITER_FNS = ["new", "flush", "reserve", "write_bytes", "write_char", "write", "drop", "str::write", "String::write", "write_unsigned!", "write_signed!",
              "Vec::write", "write_tuple!"]

_extract_buf = extract


def extract(repo):
    """BUF and the structural notes (above), then the translation of <repo>/rlib/io/src/writer.rs into Generated/WriterSrc.lean (written only
    when its text changes).  A construct outside the translator's subset makes the second tie unavailable (problem with the SUBSET prefix);
    the generated file then has no definitions, so the src_* theorems stop compiling as well (never a stale file left in place)."""
    import sys
    params, problems = _extract_buf(repo)
    verif = os.path.dirname(os.path.dirname(os.path.abspath(__file__)))
    tools = os.path.join(verif, "tools")
    if tools not in sys.path:
        sys.path.insert(0, tools)
    import rs2lean_writer
    rel = "rlib/io/src/writer.rs"
    out = os.path.join(verif, "lean", "RlibModel", "Generated", "WriterSrc.lean")
    info, p2 = rs2lean_writer.run(os.path.join(repo, rel), out, "Rlib.WriterSrc", rel, ID, "Writer", WRITER_FNS)
    params.update({"translated_from": rel, "translated_functions": info.get("functions", []), "translated_loops": info.get("loops", []),
                   "translated_instances": info.get("instances", {}),
                   "not_translated": info.get("not_translated", []) + [
                       "base_10_len! / fixed_size_integer! of rlib/num_traits/src/lib.rs (BASE_10_LEN is read as the model's Decimal.base10len; text anchor in structure_notes)",
                       "output_macro.rs (out! / outln!: the model's Op.out; differential tie only)"],
                   "generated_file": "lean/RlibModel/Generated/WriterSrc.lean", "generated_file_rewritten": info.get("rewritten", False)})
    return params, problems + p2
