"""C20 — `rec_lambda!` closures equal explicit recursion for every supported macro shape (engine `lambda`).

No pre-built harness: `extra(ctx)` generates a cargo workspace of Rust programs under ctx["workdir"] (outside /verif
and /repo) that path-depends on <repo>/rlib/lambda, compiles it, runs it, compares the `rec_lambda!` version of every
shape with a hand-written explicit recursion, and compares the wiring of the real expansion (-Zunpretty=expanded)
with what the Lean model of the token munchers (driver `drv_lambda`) predicts for the same shape.
"""
import importlib.util
import os
import subprocess
import time
from concurrent.futures import ThreadPoolExecutor

ID = "C20"
ENGINE = "lambda"
CRATE = None                      # no line-protocol harness; see extra()
DRIVER = "drv_lambda"
DRIVER_MODULE = "Driver.Lambda"
PROPS = "RlibModel.Props.C20"
PROFILES = []
SHRINK_SEP = None
RULE = ("cases = every invocation shape (captures 0..4 in every &/&mut pattern and order [quick: full cross product for 0..2 captures, plus "
        "every pattern of 3 and 4 captures with one argument count, both call syntaxes, ret/none alternating, one body], 1..4 arguments, with/without "
        "return type, recursive calls with/without trailing comma) x 4 body templates (arith-i64, vec-memo, mixed-types, ref-args-effects "
        "[arguments of reference type `&mut Vec`, `&[T]`, `&T`; closure called 3 times with fresh borrows in separate scopes, buffer read "
        "between calls; argument expressions of the recursive calls mutate resp. read a mutable capture: bump a counter via a helper fn, pop a stack]; each reads "
        "the shared captures, updates the mutable ones before and after the recursive calls, branches on argument 0 and calls itself "
        "0, 1 or 2 times), each called 3 times with seed-dependent literal arguments; one evaluation = one (shape, body) instance "
        "compiled, run and compared with the explicit recursion on return values, final captured state and a hash of the activation "
        "trace; non-trivial = instance with at least one captured variable (the capture wiring is exercised). In addition the wiring "
        "(parameter order of `_lambda_name_`, tail of every recursive call, closure call) of every instance's real expansion is "
        "compared with the Lean model's prediction. The thorough tier adds a sample beyond the stated bound: every pattern of 5 and 6 "
        "captures with 2 and 6 arguments (384 shapes, one body each). "
        "NAME RESOLUTION / HYGIENE instances (quick 122, thorough 1300; tools/c20_gen.py hygiene_instances): the identifier given to rec_lambda! as "
        "the recursion's name equals another name the same program uses under its ordinary meaning - a free fn the body calls (`tr`, `mix1`; for "
        "each such name also the shape whose inner fn has exactly the free fn's signature, so that a mis-resolved call still type-checks and shows "
        "as a difference in behaviour), an imported std fn (`min`), prelude functions/constructors/types/traits (`drop`, `Some`, `Ok`, `Box`, `Vec`, "
        "`String`, `Default`, `Into`, `Clone`; constructors also used as patterns), a type alias, a module, a const, a static, a tuple-struct "
        "constructor, std macros used around the closure (`format`, `vec`), `rec_lambda` itself, method names, locals of the enclosing fn (`f` = the "
        "variable bound to the closure, `out`) and of the body (`sh`, `x`, `a0v`), a raw identifier (`r#loop`), a loop label, each of its own captures "
        "(`c<j>`, shared and mutable, every position) and arguments (`a0`, last); NESTED rec_lambda! (a second recursive closure built, called twice "
        "with the first result fed back, and dropped inside the body before the outer recursive calls; same name as the outer one / another / a name "
        "clashing with a capture, argument, helper; one shape gives the two hidden fns the same signature); TWO LIVE closures in one scope used "
        "interleaved, sharing the shared captures, under the same or different names, with the other call syntax; a recursive call nested in an argument "
        "expression of another one, and a call site inside an ordinary closure of the body; HOSTILE SCOPE (the other direction): the macro invoked by "
        "absolute path `::rlib_lambda::rec_lambda!` inside a block that shadows the prelude (types, constructors, functions, traits), `std`/`core`/"
        "`alloc`/`rlib_lambda` as modules, 24 std macros and the crate's own macro names. In all instances a closure without a mutable capture is bound "
        "without `mut` (must be `Fn`), copied (must be `Copy`; both copies used) and called once through `&f`; one with a mutable capture once through `&mut f`. "
        "For every instance whose expansion is read, the hidden fn's REAL name goes into the Lean name-resolution model (driver line `names …`) "
        "together with the value names and `let`s of the body: generated and explicit resolution must agree; plain instances must expand to exactly "
        "one item (the hidden fn). "
        "LONG-RUNNING USE, BOTH BUILD PROFILES (wave 4; quick 18, thorough 25 instances; tools/c20_gen.py soak_instances, body template `exits-i64`, case tokens "
        "`soak=<kind>/<exit form>/<n>` and `profile=<debug|release>`): a cheap all-i64 body that LEAVES EARLY in every syntactic way - `ret` explicit `return v;` / "
        "`return;` (base case and after the first recursive call), `opt` / `res` the `?` operator on `Option<i64>` / `Result<i64,i64>` return types (base case and, "
        "data-dependent, after a recursive call), `brk` `break 'label v` out of a labelled block also from inside a nested loop, `lop` `break v` / `continue` in a "
        "`loop`, `unw` unwinding (the base case panics for a quarter of the inputs, the caller catches it with catch_unwind and goes on using the closure), `tail` "
        "no early exit (control) - used for a long time on ONE thread (every instance runs on a fresh thread with a 1 GiB stack, so it fails or passes on its own): "
        "`many` one closure called n = 2^21 + 2^18 times in a row (thorough 2^24; `unw` 2000 / 3400000; >= 1.5 early exits per call), accumulator checkpoints at every power "
        "of two; `deep` recursion depth 100000 (thorough also 2^20 + 2^17), one early exit per level, then depth 2 and n/2 + 1 through the other handle; `multi` THREE "
        "closures alive at once over captured variables of their own (nothing shared), three different exit forms, two of them with the same recursion name, called "
        "round-robin n times in total; shapes (0..4 captures, 1..4 arguments, return type or none, both call syntaxes) cycle. All of them are built and run in cargo's "
        "debug profile (debug assertions, overflow checks) AND in the release profile, the release workspace also containing every 8th (thorough: 4th) of the instances "
        "above; one evaluation = one (instance, profile) pair compared with the explicit recursion. A failing long-running instance is shrunk to the outer call the "
        "panic happened in / the first checkpoint that differs and re-confirmed in a crate of its own. The Lean history model (histG over the munchers' expansion vs "
        "histE, driver line `hist`) is run on the first 64 outer calls of every `many` instance with an i64-valued exit form: its checkpoints must be the first "
        "checkpoints the Rust program printed.")
ASSUMPTIONS = [
    "rustc's macro matcher (fragment parsers, follow sets, the `$dol` trick, hygiene), type checker and borrow checker are not modelled: "
    "that a shape compiles is established by compiling it, for the generated shapes only",
    "the Lean model of the three token munchers and of the local macro is hand-written from the macro source; it is tied to the code by "
    "comparing its predicted wiring with `cargo +nightly rustc -- -Zunpretty=expanded` of the generated programs on every run",
    "the oracle of the behavioural comparison is a hand-written explicit recursive fn generated next to each rec_lambda! instance "
    "(for nested / second live closures: explicit fns `ngo` / `go2` written the same way); it is the only oracle for the name-resolution instances",
    "name resolution: Rust's `macro_rules!` hygiene covers locals and labels only, so the property can hold only for programs that do not themselves "
    "use the (fixed) identifier of the hidden inner fn as a value, and whose nested inner closure does not call the OUTER recursion's macro - both "
    "fail on the unchanged rlib (docs/notes/C20.md, 'Findings on rlib'), are NOT generated, and are outside the hypotheses of names_resolve_as_written",
    "the Lean name-resolution model (resolveG/resolveCallG/resolveE: scopes = body lets, fn parameters, the block's hidden fn, enclosing scope; tokens of "
    "the local macro resolved at its definition) is a hand-written abstraction of rustc's resolver; it is tied to the code only through the hidden fn's "
    "name and the parameter list read from -Zunpretty=expanded",
    "long-running use: the oracle is the hand-written explicit recursion with the same body, run the same number of times on a thread of its own; the Lean "
    "history model (histG = histE for every history, history_eq_explicit; no state but the store, history_no_hidden_state) is tied to the programs only on the "
    "first 64 outer calls of the `many` instances with i64-valued exit forms (ret/brk/lop/tail - one interaction tree, the exits are `ret` nodes); `?` on "
    "Option/Result and unwinding are compared with the explicit recursion only. Budgets: state that needs more than 2^21 + 2^18 outer calls (thorough 2^24) or "
    "more than 100000 (thorough 2^20 + 2^17) nested activations on one thread to show is not reached; exits by UNWINDING are accumulated 2000 times in the quick "
    "tier only (a panic costs ~17 us), > 2^20 times in the thorough tier",
    "release profile = cargo's default release profile (opt-level 3, no debug assertions, no overflow checks); in the quick tier it covers the long-running "
    "instances and every 8th other instance, not all of them",
]
TRUSTED_EXTRA = ["tools/c20_gen.py (program generator, reader of compiler diagnostics and of the expanded source)",
                 "cargo +nightly -Zunpretty=expanded pretty printer"]
MANIFEST = {
    "level": "proof (partial)",
    "text": ("Lean 4 theorems about a rule-by-rule model of rec_lambda!/_rec_lambda_0_/_1_/_2_ and the local call macro on abstract token "
             "streams: for ANY number of captures in any &/&mut interleaving (incl. none), any number >= 1 of arguments, with/without return "
             "type, both call syntaxes, pairwise distinct names: the expansion never gets stuck and ends after |caps|+|args|+2 steps "
             "(expand_total); the two arms of the local call macro, run as matchers on the call's tokens, reach the same inner call for both call "
             "syntaxes and every arity (call_total; the evaluator goes through them); the inner fn's parameter list, the recursive call's tail and the closure's tail are the same list (shared "
             "reversed, then mutable reversed) containing every capture exactly once with its declared mutability (wiring_consistent); "
             "positional binding gives every captured name back to that very variable (rebinds_self); for every abstract body (interaction "
             "tree reading names, writing mutable captures, calling itself in either call syntax), fuel, arguments and store the generated closure and the explicit "
             "recursion return the same value and final store (generated_eq_explicit); every identifier of the body other than the hidden fn's "
             "fixed name denotes in the generated code what it denotes in the explicit recursion, independently of the recursion's name, which names "
             "a macro only (names_resolve_as_written), and the callee and appended names of a recursive call resolve to the hidden fn and its own parameters "
             "whatever the body declares, provided no argument/capture is called like the hidden fn (call_resolves). PARTIAL: rustc itself is not "
             "modelled; compilation and behaviour are checked on generated programs (thorough tier: all 496 shapes x 4 bodies + 384 larger shapes + 1300 "
             "name-resolution instances = 3668; quick tier: 160 shapes, 496 instances + 122 name-resolution instances = 618), and the model's wiring "
             "and name resolution are compared with the real expansion of every instance (hidden fn's name, parameters, items declared). "
             "Long-running use: for any number of live closures and any history of outer calls the generated closures and the explicit recursions give the "
             "same results and final store or stop at the same call with the same error (history_eq_explicit), a history's continuation depends on its past "
             "only through the store - no hidden state (history_no_hidden_state), and the recursion budget runs out at the same depth (same_depth); tested on "
             "18 (thorough 25) generated long-running programs with early-exit bodies (> 2^21 calls / depth 10^5 on one thread, three live closures), in the "
             "debug and in the release profile, the release profile also on a sample of the other instances."),
    "note": ("Proof (partial). Proved: the macro wiring for unboundedly many captures/arguments and generated = explicit recursion in a small "
             "semantics of frames and references. Tested, not proved (named residue): rustc's macro matcher, type checker, borrow checker - "
             "every generated shape is compiled and run against a hand-written recursion (<= 4 captures, <= 4 arguments). Trusted: Lean kernel, "
             "axioms propext/Classical.choice/Quot.sound, the hand-written model (compared with -Zunpretty=expanded on every run), generator and "
             "diagnostics reader tools/c20_gen.py."),
    "technique": "Lean 4 proof of a hand-written macro model + generated-program differential (compile, run, expansion wiring) against the Rust crate",
    "design_ref": "DESIGN.md §6 C20",
}

HERE = os.path.dirname(os.path.abspath(__file__))
VERIF = os.path.dirname(HERE)


def _gen():
    spec = importlib.util.spec_from_file_location("c20_gen", os.path.join(VERIF, "tools", "c20_gen.py"))
    mod = importlib.util.module_from_spec(spec)
    spec.loader.exec_module(mod)
    return mod


def _strip_rust_comments(src):
    import re
    src = re.sub(r"/\*.*?\*/", " ", src, flags=re.S)
    return re.sub(r"//[^\n]*", "", src)


def extract(repo):
    """Side conditions read from the macro source (comments stripped): the public macro `rec_lambda` has the 2 arms the
    model has, and there are three helper macros with 4, 3 and 1 arms (whatever they are called)."""
    import re
    problems = []
    params = {}
    path = os.path.join(repo, "rlib", "lambda", "src", "lib.rs")
    try:
        src = _strip_rust_comments(open(path).read())
    except OSError as e:
        return {}, [f"cannot read {path}: {e}"]
    arms = {}
    for m in re.finditer(r"^\s*macro_rules!\s*(\w+)\s*\{", src, flags=re.M):
        # arms of the macro itself = `=>` at brace depth 1 of the definition
        depth, i, n = 0, m.end() - 1, 0
        while i < len(src):
            c = src[i]
            if c in "{([":
                depth += 1
            elif c in "})]":
                depth -= 1
                if depth == 0:
                    break
            elif c == "=" and src[i:i + 2] == "=>" and depth == 1:
                n += 1
            i += 1
        arms[m.group(1)] = n
    params["macro_arms"] = arms
    if arms.get("rec_lambda") != 2:
        problems.append(f"macro rec_lambda has {arms.get('rec_lambda')} arms in rlib/lambda/src/lib.rs, the Lean model (Model/Lambda.lean `step`) has 2")
    helpers = sorted(n for k, n in arms.items() if k != "rec_lambda")
    if helpers != [1, 3, 4]:
        problems.append(f"helper macros have arm counts {helpers} (by name: {arms}), the Lean model (`step`) has munchers with 4, 3 and 1 arms")
    return params, problems


def _driver(lines):
    drv = os.path.join(VERIF, "lean", ".lake", "build", "bin", DRIVER)
    r = subprocess.run([drv], input="".join(x + "\n" for x in lines), stdout=subprocess.PIPE, stderr=subprocess.PIPE, text=True, timeout=600)
    out = r.stdout.split("\n")
    if r.returncode != 0 or len(out) < len(lines):
        raise RuntimeError(f"drv_lambda failed rc={r.returncode}: {r.stderr[-500:]}")
    return out[:len(lines)]


def _wiring_part(model_raw):
    """`fn(..)->T rec(..) clo(..)` part of a driver answer (drops ` steps=N call=K:(..)`)."""
    k = model_raw.find(" steps=")
    return model_raw if k < 0 else model_raw[:k]


def extra(ctx):
    import veriflib as V
    G = _gen()
    repo, tier, seed, workdir, cov = ctx["repo"], ctx["tier"], ctx["seed"], ctx["workdir"], ctx["coverage"]
    findings = []
    t0 = time.time()
    shapes = G.shapes_for_tier(tier)
    if tier == "thorough" and len(shapes) != 31 * 16:
        raise V.Machinery(f"thorough tier generated {len(shapes)} shapes instead of 496")
    instances = [(s, t) for s in shapes for t in range(G.TEMPLATES)]
    # quick: + every pattern of 3 and 4 captures with a reduced cross product; thorough: + 5 and 6 captures, up to 6 arguments
    beyond = G.beyond_shapes(len(shapes)) if tier == "thorough" else G.quick_wide_shapes(len(shapes))
    instances += [(s, s.sid % G.TEMPLATES) for s in beyond]
    # name resolution / hygiene: the recursion's name equals another name the program uses (free fn, prelude name, type, module,
    # const, capture, argument, local), nested rec_lambda!, two live closures used interleaved
    hygiene = G.hygiene_instances(len(shapes) + len(beyond), tier)
    instances += hygiene
    # long-running use (wave 4): early-exit bodies called > 2^21 times on one thread, deep recursion, three live closures; run in the
    # debug AND the release profile, together (release) with a sample of the instances above - see lr_flow below
    soak = G.soak_instances(len(shapes) + len(beyond) + len(hygiene), tier)
    sample = instances[::(4 if tier == "thorough" else 8)]
    by_sid = {s.sid: s for s in shapes + beyond + [s for s, _ in hygiene] + [s for s, _ in soak]}
    if len(by_sid) != len(shapes) + len(beyond) + len(hygiene) + len(soak):
        raise V.Machinery("shape numbers are not unique")
    nparts = 4 if tier == "thorough" else 2
    jobs = 4
    root = os.path.join(workdir, "c20ws")

    # ---- the Lean model's answer for every instance (the return type differs between templates) ----------------------
    lines = [s.descriptor(t) for s, t in instances + soak]
    answers = _driver(lines)
    model = {}
    for (s, t), line, ans in zip(instances + soak, lines, answers):
        pm = V.parse_model(ans)
        if pm is None or pm[2] == "any" or pm[1] != pm[2]:
            raise V.Machinery(f"drv_lambda: model and closed-form spec disagree (or shape out of domain) on `{line}`: {ans[:400]}")
        model[(s.sid, t)] = (pm[0], ans)
    cov["model_lines"] = len(answers)

    def case_of(sid, t):
        return by_sid[sid].case(t, seed)

    def confirm(sid, t):
        """Re-check one instance in a fresh single-instance crate: returns (compiles, G, E, first error)."""
        r2 = os.path.join(workdir, f"c20one_{sid}_{t}")
        s1 = by_sid[sid].with_sid(sid)
        G.write_workspace(r2, repo, [(s1, t)], 1, seed)
        ok, errs = G.cargo_build(r2, jobs)
        if not ok:
            return False, None, None, (errs[0][2] if errs else "?")
        problem, res = G.run_runner(r2)
        d = res.get((sid, t), {})
        return True, d.get("G"), d.get("E"), (problem or "")

    # ---- long-running use and the second build profile (two background flows, in parallel with the main workspace below) --------
    def lr_flow(release):
        """Workspace of its own: [release: a sample of the regular instances +] the long-running instances, built in one profile,
        run (the long instances in parallel processes), generated vs explicit compared. Returns a dict; never raises."""
        tag = "release" if release else "debug"
        out = {"findings": [], "compared": 0, "nontrivial": 0, "build_s": 0.0, "run_s": 0.0, "compile_failures": 0, "diffs": 0,
               "machinery": None, "lean_compared": 0, "long_running": 0, "hist": {}}
        try:
            _lr_flow(release, tag, out)
        except V.Machinery as e:
            out["machinery"] = e
        except Exception as e:                  # noqa: BLE001
            out["machinery"] = V.Machinery(f"long-running/{tag} flow: {type(e).__name__}: {e}")
        return out

    def _lr_case(s, t, tag):
        return f"{s.case(t, seed)} profile={tag}"

    def _lr_confirm(s, t, release, n=None):
        """one instance (a long-running one optionally with another length) in a crate of its own, same profile"""
        s1 = s.with_n(n) if n is not None else s
        r2 = os.path.join(workdir, f"c20lrone_{s.sid}_{t}_{n}_{int(release)}")
        G.write_workspace(r2, repo, [(s1, t)], 1, seed)
        okb, errs = G.cargo_build(r2, jobs, release)
        if not okb:
            return s1, False, None, None, (errs[0][2] if errs else "?")
        problem, r = G.run_runner(r2, release=release)
        d = r.get((s.sid, t), {})
        return s1, True, d.get("G"), d.get("E"), (problem or "")

    def _lr_flow(release, tag, out):
        import re
        insts = (list(sample) if release else []) + list(soak)
        np_lr = (4 if tier == "thorough" else 2) if release else 1
        root_lr = os.path.join(workdir, "c20lr_" + ("rel" if release else "dev"))
        live_lr, okb, failures = list(insts), False, []
        for rnd in range(3):
            lm = G.write_workspace(root_lr, repo, live_lr, np_lr, seed)
            tb = time.time()
            okb, errs = G.cargo_build(root_lr, jobs, release)
            out["build_s"] += time.time() - tb
            if okb:
                break
            bad = {}
            for part, line, msg, pkg, in_lambda in errs:
                loc = G.locate(lm, part, line)
                if loc is None:
                    if "could not compile" in msg or "aborting due to" in msg:
                        continue
                    if in_lambda:
                        return              # rlib_lambda itself does not compile: reported by the main flow
                    raise V.Machinery(f"long-running/{tag} workspace does not build and the error is neither inside a generated instance nor in rlib/lambda: " + msg[:800])
                sid, t, kind = loc
                if kind == "e":
                    raise V.Machinery(f"generator bug: the hand-written explicit version of `{_lr_case(by_sid[sid], t, tag)}` does not compile: {msg[:800]}")
                bad.setdefault((sid, t), msg)
            if not bad:
                raise V.Machinery(f"long-running/{tag} workspace does not build, no error located: " + "\n".join(e[2] for e in errs)[:800])
            failures += sorted(bad.items())
            live_lr = [(s, t) for s, t in live_lr if (s.sid, t) not in bad]
            if not live_lr:
                break
        out["compile_failures"] = len(failures)
        if failures:
            failures.sort(key=lambda x: (len(by_sid[x[0][0]].caps), by_sid[x[0][0]].nargs, x[0]))
            for (sid, t), msg in failures[:3]:
                s1, cok, _, _, err1 = _lr_confirm(by_sid[sid], t, release)
                if cok:
                    continue
                out["findings"].append({"class": "violation", "what": f"generated rec_lambda! program does not compile ({tag} profile)", "profile": tag,
                                        "case": _lr_case(s1, t, tag),
                                        "impl": "does not compile: " + " ".join(err1.split())[:600] + f" ; {len(failures)} of {len(insts)} instances of this flow fail to compile"
                                                + f" ; replay: python3 tools/c20_gen.py --replay '{_lr_case(s1, t, tag)}' --repo {repo}",
                                        "model": "compiles, result = explicit recursion ; " + model[(sid, t)][1][:300]})
                break
            else:
                out["findings"].append({"class": "broken", "kind": "correspondence",
                                        "what": f"{len(failures)} instances fail to compile in the long-running/{tag} workspace but none of the first 3 fails in a crate of its own",
                                        "detail": [_lr_case(by_sid[sid], t, tag) + " :: " + " ".join(msg.split())[:300] for (sid, t), msg in failures[:3]]})
        if not okb or not live_lr:
            if live_lr and not out["findings"]:
                out["findings"].append({"class": "broken", "kind": "correspondence", "what": f"the long-running/{tag} workspace still does not build after 3 rounds; nothing was run"})
            return
        # run: the runner numbers the instances part by part; every long-running instance is a task of its own (own process)
        order = [x for p_ in range(np_lr) for x in live_lr[p_::np_lr]]
        tasks, k0 = [], None
        for k, (s, t) in enumerate(order):
            if s.soak is not None:
                if k0 is not None:
                    tasks.append((k0, k))
                    k0 = None
                tasks.append((k, k + 1))
            elif k0 is None:
                k0 = k
        if k0 is not None:
            tasks.append((k0, len(order)))
        tr_ = time.time()
        stop = []                       # set by the first long-running instance that does not finish in time: the later ones are not started

        def run_task(lh):
            one_long = lh[1] == lh[0] + 1 and order[lh[0]][0].soak is not None
            if one_long and stop:
                return None, {}
            pr, r = G.run_runner(root_lr, release=release, lo=lh[0], hi=lh[1], timeout=(lr_timeout if one_long else 900))
            if any(d.get("G", "").startswith("crash(rc=-999") for d in r.values()):
                stop.append(lh)
            return pr, r

        with ThreadPoolExecutor(max_workers=4) as ex:
            parts = list(ex.map(run_task, tasks))
        out["run_s"] = time.time() - tr_
        res_lr = {}
        for problem, r in parts:
            if problem:
                raise V.Machinery(f"generated runner (long-running/{tag}): " + problem)
            for key, d in r.items():
                res_lr.setdefault(key, {}).update(d)
        diffs_lr, timeouts = [], []
        crashed_lr = sum(1 for d in res_lr.values() if d.get("G", "").startswith("crash("))
        for s, t in order:
            d = res_lr.get((s.sid, t))
            if not d or "G" not in d or "E" not in d:
                if crashed_lr or stop:
                    continue            # not reached: the run was given up after too many crashes / a long-running instance that did not finish
                raise V.Machinery(f"runner printed no result for `{_lr_case(s, t, tag)}`")
            if d["E"].startswith(("panic", "crash(")):
                raise V.Machinery(f"generator bug: the hand-written explicit version of `{_lr_case(s, t, tag)}` panicked/crashed ({d['E'][:160]})")
            if s.soak is not None and d["G"].startswith("crash(rc=-999"):
                timeouts.append((s, t))   # no verdict: running time is not part of the property
                continue
            out["compared"] += 1
            out["nontrivial"] += 1 if s.caps else 0
            if s.soak is not None:
                out["long_running"] += 1
                key = f"long-running:{s.soak[0]}/{s.soak[1]}"
                out["hist"][key] = out["hist"].get(key, 0) + 1
            if d["G"] != d["E"]:
                diffs_lr.append((s, t, d["G"], d["E"]))
        out["diffs"] = len(diffs_lr)
        diffs_lr.sort(key=lambda x: (x[0].soak is not None, len(x[0].caps), x[0].nargs, x[0].sid))
        for s, t, g, e in diffs_lr[:3]:
            # shrink a long-running instance: the outer call the panic happened in / the first checkpoint that differs / half the depth
            cands = []
            if s.soak is not None:
                n = s.soak[2]
                m = re.match(r"panic at outer call #(\d+)", g)
                if s.soak[0] != "deep":
                    if m and int(m.group(1)) + 1 < n:
                        cands.append(int(m.group(1)) + 1)
                    for cg, ce in zip(g.split(";"), e.split(";")):
                        if cg != ce:
                            if re.fullmatch(r"\d+:-?\d+", ce) and int(ce.split(":")[0]) < n:
                                cands.append(int(ce.split(":")[0]))
                            break
                else:
                    cands += [x for x in (n // 16, n // 4) if x >= 4]
            rep = None
            for n2 in cands[:2] + [None]:
                s1, cok, g2, e2, err1 = _lr_confirm(s, t, release, n2)
                if not cok:
                    raise V.Machinery(f"`{_lr_case(s1, t, tag)}` builds in the workspace but not in a crate of its own: {err1[:400]}")
                if e2 is None or e2.startswith(("panic", "crash(")):
                    continue
                if g2 != e2:
                    rep = (s1, g2, e2)
                    break
            if rep is None:
                V.log(f"difference on `{_lr_case(s, t, tag)}` not confirmed in a crate of its own")
                continue
            s1, g2, e2 = rep
            out["findings"].append({"class": "violation", "what": f"rec_lambda! closure differs from explicit recursion ({tag} profile"
                                                                  + (", long-running use" if s.soak is not None else "") + ")", "profile": tag,
                                    "case": _lr_case(s1, t, tag),
                                    "impl": f"generated: {g2[:500]} ; {len(diffs_lr)} of {out['compared']} instances of the {tag} flow differ"
                                            + f" ; replay: python3 tools/c20_gen.py --replay '{_lr_case(s1, t, tag)}' --repo {repo}",
                                    "model": f"explicit: {e2[:500]}"})
            break
        out["timeouts"] = len(timeouts)
        if timeouts:
            out["findings"].append({"class": "broken", "kind": "correspondence",
                                    "what": f"{len(timeouts)} long-running instance(s) of the {tag} flow did not finish within {lr_timeout} s with the generated closure (the explicit "
                                            "recursion of the same instance, run just before, takes well under a second); they and the long-running instances after them were not compared",
                                    "detail": [_lr_case(s, t, tag) for s, t in timeouts[:3]]})
        # the Lean history model (histG over the munchers' expansion / histE) on the first SOAK_LEAN_N outer calls of every `many`
        # instance whose exit form is i64-valued: the checkpoints it predicts must be the first checkpoints the Rust program printed
        hl = [(s, t) for s, t in order if s.soak is not None and s.soak[0] == "many" and s.soak[1] in G.SOAK_I64_FORMS
              and s.soak[2] >= G.SOAK_LEAN_N and "G" in res_lr.get((s.sid, t), {}) and res_lr[(s.sid, t)]["G"] == res_lr[(s.sid, t)].get("E")]
        hlines = [f"hist {s.descriptor(t)} init={','.join(G.cap_init(0, i) for i in range(len(s.caps))) or '-'} n={G.SOAK_LEAN_N}" for s, t in hl]
        bad_h = []
        for (s, t), line, ans in zip(hl, hlines, _driver(hlines) if hlines else []):
            pm = V.parse_model(ans)
            if pm is None or pm[2] == "any" or pm[1] != pm[2]:
                raise V.Machinery(f"drv_lambda: generated and explicit history of the Lean model disagree on `{line}`: {ans[:400]}")
            out["lean_compared"] += 1
            if not res_lr[(s.sid, t)]["G"].startswith(pm[0]):
                bad_h.append({"case": line + f" profile={tag}", "rust": res_lr[(s.sid, t)]["G"][:300], "lean": pm[0][:300]})
        if bad_h:
            out["findings"].append({"class": "broken", "kind": "correspondence",
                                    "what": f"the Lean history model (histG/histE on the exits-i64 body) and the Rust program differ on the first {G.SOAK_LEAN_N} "
                                            f"outer calls of {len(bad_h)} long-running instances although generated and explicit Rust agree (model of the body template out of date)",
                                    "detail": bad_h[:3]})

    lr_timeout = 900 if tier == "thorough" else 30
    lr_pool = ThreadPoolExecutor(max_workers=2)
    lr_futures = [lr_pool.submit(lr_flow, False), lr_pool.submit(lr_flow, True)]

    # ---- generate, compile (compilation success is part of the property) ---------------------------------------------
    live = list(instances)
    compile_failures = []
    build_s = 0.0
    ok = False
    for rnd in range(4):
        linemaps = G.write_workspace(root, repo, live, nparts, seed)
        tb = time.time()
        ok, errs = G.cargo_build(root, jobs)
        build_s += time.time() - tb
        if ok:
            break
        bad = {}
        crate_broken = None
        for part, line, msg, pkg, in_lambda in errs:
            loc = G.locate(linemaps, part, line)
            if loc is None:
                if "could not compile" in msg or "aborting due to" in msg:
                    continue
                if in_lambda:
                    # rlib_lambda itself does not compile, or an error inside the macros that cannot be attributed to one instance
                    crate_broken = crate_broken or msg
                    continue
                raise V.Machinery("generated workspace does not build and the error is neither inside a generated instance nor in rlib/lambda: " + msg[:800])
            sid, t, kind = loc
            if kind == "e":
                raise V.Machinery(f"generator bug: the hand-written explicit version of `{case_of(sid, t)}` does not compile: {msg[:800]}")
            bad.setdefault((sid, t), msg)
        if not bad and crate_broken:
            # "the generated closure compiles" fails for every shape: report the smallest one as the case
            s0, t0_ = min(live, key=lambda x: (len(x[0].caps), x[0].nargs, x[0].sid, x[1]))
            findings.append({"class": "violation", "what": "rlib_lambda does not compile: no rec_lambda! shape compiles",
                             "case": case_of(s0.sid, t0_),
                             "impl": "does not compile (error in rlib/lambda itself): " + " ".join(crate_broken.split())[:600]
                                     + f" ; replay: python3 tools/c20_gen.py --replay '{case_of(s0.sid, t0_)}' --repo {repo}",
                             "model": "compiles, result = explicit recursion ; " + model[(s0.sid, t0_)][1][:300]})
            compile_failures = [((s.sid, t), crate_broken) for s, t in live]
            live = []
            break
        if not bad:
            raise V.Machinery("generated workspace does not build, no error located: " + "\n".join(e[2] for e in errs)[:800])
        for k, msg in sorted(bad.items()):
            compile_failures.append((k, msg))
        live = [(s, t) for s, t in live if (s.sid, t) not in bad]
        if not live:
            break
    cov["cargo_build_generated_s"] = round(build_s, 2)
    cov["compile_failures"] = len(compile_failures)
    if compile_failures and not findings:
        # report the smallest failing shape, after confirming it in a crate of its own
        compile_failures.sort(key=lambda x: (len(by_sid[x[0][0]].caps), by_sid[x[0][0]].nargs, x[0]))
        for (sid, t), msg in compile_failures[:3]:
            cok, _, _, err1 = confirm(sid, t)
            if cok:
                V.log(f"compile failure of `{case_of(sid, t)}` not confirmed in a crate of its own")
                continue
            findings.append({"class": "violation", "what": "generated rec_lambda! shape does not compile",
                             "case": case_of(sid, t),
                             "impl": "does not compile: " + " ".join(err1.split())[:600]
                                     + f" ; {len(compile_failures)} of {len(instances)} instances fail to compile"
                                     + f" ; replay: python3 tools/c20_gen.py --replay '{case_of(sid, t)}' --repo {repo}",
                             "model": "compiles, result = explicit recursion ; " + model[(sid, t)][1][:300]})
            break
        if not findings:
            findings.append({"class": "broken", "kind": "correspondence",
                             "what": f"{len(compile_failures)} generated instances fail to compile inside the workspace but none of the first 3 fails in a crate of its own",
                             "detail": [case_of(sid, t) + " :: " + " ".join(msg.split())[:300] for (sid, t), msg in compile_failures[:3]]})
    if not ok and live and not findings:
        findings.append({"class": "broken", "kind": "correspondence",
                         "what": "the generated workspace still does not build after 4 rounds of removing failing instances; nothing was run"})

    # ---- run: generated vs explicit recursion ---------------------------------------------------------------------
    compared = 0
    nontrivial = 0
    res = {}
    diffs = []
    samples = []
    hist = {}
    if ok and live:
        problem, res = G.run_runner(root)
        if problem:
            raise V.Machinery("generated runner: " + problem)
        crashed = sum(1 for d in res.values() if d.get("G", "").startswith("crash("))
        cov["crashed_instances"] = crashed
        for s, t in live:
            d = res.get((s.sid, t))
            if not d or "G" not in d or "E" not in d:
                if crashed:
                    continue            # not reached: the run was given up after too many crashes
                raise V.Machinery(f"runner printed no result for `{case_of(s.sid, t)}`")
            if d["E"] == "panic" or d["E"].startswith("crash("):
                raise V.Machinery(f"generator bug: the hand-written explicit version of `{case_of(s.sid, t)}` panicked/crashed ({d['E'][:120]}); "
                                  "the templates must not panic, otherwise a panic on both sides would compare equal")
            compared += 1
            key = f"caps={len(s.caps)}"
            hist[key] = hist.get(key, 0) + 1
            hist[f"body={G.TEMPLATE_NAMES[t]}"] = hist.get(f"body={G.TEMPLATE_NAMES[t]}", 0) + 1
            for flag, on in (("hygiene:name-clash", s.hyg and s.nm != G.DEFAULT_NAME), ("hygiene:nested", s.nest is not None), ("hygiene:two-live", s.live2 is not None),
                             ("hygiene:hostile-scope", s.env is not None)):
                if on:
                    hist[flag] = hist.get(flag, 0) + 1
            if len(s.caps) >= 1:
                nontrivial += 1
            if d["G"] != d["E"]:
                diffs.append((s.sid, t, d["G"], d["E"]))
            elif len(samples) < 6 and compared in (1, 30, 100, 300, 700, 1400):
                samples.append({"case": case_of(s.sid, t), "impl": "generated: " + d["G"][:200], "model": "explicit: " + d["E"][:200]})
        diffs.sort(key=lambda x: (len(by_sid[x[0]].caps), by_sid[x[0]].nargs, x[0], x[1]))
        for sid, t, g, e in diffs[:3]:
            cok, g2, e2, err1 = confirm(sid, t)
            if cok and g2 == e2:
                V.log(f"difference on `{case_of(sid, t)}` not confirmed in a crate of its own")
                continue
            findings.append({"class": "violation", "what": "rec_lambda! closure differs from explicit recursion",
                             "case": case_of(sid, t),
                             "impl": f"generated: {(g2 or g)[:500]} ; {len(diffs)} of {compared} instances differ"
                                     + f" ; replay: python3 tools/c20_gen.py --replay '{case_of(sid, t)}' --repo {repo}",
                             "model": f"explicit: {(e2 or e)[:500]}"})
            break
    cov["behaviour_differences"] = len(diffs)
    if ok and live and compared != len(live) and not cov.get("crashed_instances"):
        raise V.Machinery(f"only {compared} of {len(live)} built instances were compared")

    # ---- the Lean semantic model (closureG over the munchers' expansion, evalE) run on the arith-i64 body ------------
    # same shapes, same initial captures, same three calls; compared with what the Rust program printed (minus trace hash)
    sem_compared = 0
    sem_mismatch = []
    if ok and live:
        # (not the hygiene instances: their body has a prologue and extra calls the Lean copy of the body does not have)
        sem = [(s, t) for s, t in live if t == 0 and not s.hyg and (s.sid, t) in res and not res[(s.sid, t)].get("G", "").startswith(("crash(", "panic"))]
        rl = []
        for s, t in sem:
            ins = G.call_inputs(0, seed, s)
            init = ",".join(G.cap_init(0, i) for i in range(len(s.caps))) or "-"
            rl.append(f"run {s.descriptor(0)} init={init} " + " ".join(",".join(row[:s.nargs]) for row in ins))
        for (s, t), line, ans in zip(sem, rl, _driver(rl) if rl else []):
            pm = V.parse_model(ans)
            if pm is None or pm[2] == "any" or pm[1] != pm[2]:
                raise V.Machinery(f"drv_lambda: generated and explicit evaluator of the Lean model disagree on `{line}`: {ans[:400]}")
            g = res[(s.sid, t)]["G"]
            g = g[:g.rfind("t=")]
            sem_compared += 1
            if g != pm[0] and g == res[(s.sid, t)]["E"][:len(g)]:
                sem_mismatch.append({"case": line, "rust": g[:300], "lean": pm[0][:300]})
    cov["semantic_model_runs_compared"] = sem_compared
    if sem_mismatch:
        findings.append({"class": "broken", "kind": "correspondence",
                         "what": f"the Lean evaluators (closureG/evalE on the arith-i64 body) and the Rust program differ on {len(sem_mismatch)} of "
                                 f"{sem_compared} instances although generated and explicit Rust agree (model of the body template out of date)",
                         "detail": sem_mismatch[:3]})

    # ---- the real expansion's wiring against the Lean model ---------------------------------------------------------
    exp_compared = 0
    exp_mismatch = []
    extra_items = []
    name_lines = []
    texp = time.time()
    if ok and live:
        with ThreadPoolExecutor(max_workers=3) as ex:
            outs = list(ex.map(lambda p: G.expanded_source(root, p), range(nparts)))
        for p, (rc, text, err) in enumerate(outs):
            if rc != 0:
                findings.append({"class": "broken", "what": f"cargo +nightly rustc -Zunpretty=expanded failed on generated part{p}",
                                 "detail": err[-600:]})
                continue
            blocks = G.split_expanded(text)
            for s, t in live[p::nparts]:
                if s.nest is not None or s.live2 is not None or s.env is not None:
                    continue            # two expansions / other items in one function: the reader handles one (the wiring is that of the plain shape)
                w, problem = G.wiring_of_expansion(blocks, s.sid, t)
                want = _wiring_part(model[(s.sid, t)][0])
                if problem:
                    exp_mismatch.append((s.sid, t, problem, want))
                    continue
                pat, rec_tails, rec_lens, _inner = w
                locs, uses = G.value_names(s, t)
                name_lines.append(((s.sid, t), f"names {_inner} {s.descriptor(t)} locals={','.join(locs)} uses={','.join(uses)}"))
                exp_compared += 1
                ncap = len(s.caps)
                if len(rec_tails) != 1 or any(n != s.nargs + ncap for n in rec_lens) or len(rec_lens) != G.rec_call_sites(s, t):
                    exp_mismatch.append((s.sid, t, f"recursive calls: tails {rec_tails}, argument counts {rec_lens}", want))
                    continue
                got = pat % rec_tails[0]
                if got != want:
                    exp_mismatch.append((s.sid, t, got, want))
                    continue
                # what the expansion introduces into the user's block: exactly one item, the hidden fn (Model: `emit`)
                items = G.expansion_items(blocks, s.sid, t)
                if not s.hyg and items != [("fn", _inner)]:
                    extra_items.append((s.sid, t, items))
        # self-test of the expansion reader: a textually mis-wired copy of a real expansion must be reported as such
        st_done = False
        for p, (rc, text, err) in enumerate(outs):
            if rc != 0 or st_done:
                continue
            blocks = G.split_expanded(text)
            for s, t in live[p::nparts]:
                if list(s.caps).count(True) >= 2 and s.nest is None and s.live2 is None and s.env is None:
                    blk = blocks.get(("g", s.sid, t), "")
                    m1, m2 = [f"&mut c{i}" for i in reversed(s.muts())][:2]
                    w0, _ = G.wiring_of_expansion({("g", s.sid, t): blk}, s.sid, t)
                    if not w0:
                        continue        # unreadable expansion: already reported above as a broken correspondence
                    k = blk.rfind(w0[3] + "(")
                    bad = blk[:k] + blk[k:].replace(m1, "\0").replace(m2, m1).replace("\0", m2)
                    w1, _ = G.wiring_of_expansion({("g", s.sid, t): bad}, s.sid, t)
                    if not w1 or w0[0] == w1[0] or w0[0].replace(m1, "\0").replace(m2, m1).replace("\0", m2).split(" clo(")[1] != w1[0].split(" clo(")[1]:
                        raise V.Machinery(f"self-test of the expansion reader failed on `{case_of(s.sid, t)}`: {w0} / {w1}")
                    cov["expansion_reader_selftest"] = "mis-wired copy detected"
                    st_done = True
                    break
    cov["expansion_s"] = round(time.time() - texp, 2)
    cov["expansions_compared"] = exp_compared
    cov["expansion_mismatches"] = len(exp_mismatch)
    if exp_mismatch:
        exp_mismatch.sort(key=lambda x: (len(by_sid[x[0]].caps), by_sid[x[0]].nargs, x[0], x[1]))
        findings.append({"class": "broken", "kind": "correspondence",
                         "what": f"wiring of the real expansion differs from the Lean model of the token munchers on {len(exp_mismatch)} of "
                                 f"{exp_compared} instances (Model/Lambda.lean no longer describes rlib/lambda/src/lib.rs)",
                         "detail": [{"case": case_of(sid, t), "expansion": got, "model": want} for sid, t, got, want in exp_mismatch[:5]]})
    # ---- name resolution: the Lean model (resolveG/resolveCallG vs resolveE) with the hidden fn's REAL name ------------------------
    name_clash = []
    if name_lines:
        for ((sid, t), line), ans in zip(name_lines, _driver([l for _, l in name_lines])):
            pm = V.parse_model(ans)
            if pm is None or pm[2] == "any":
                raise V.Machinery(f"drv_lambda: bad answer (or shape out of domain) on `{line}`: {ans[:400]}")
            if pm[1] != pm[2]:
                name_clash.append((sid, t, line.split()[1], pm[1], pm[2]))
    cov["name_resolution_lines"] = len(name_lines)
    cov["name_resolution_clashes"] = len(name_clash)
    if name_clash:
        name_clash.sort(key=lambda x: (len(by_sid[x[0]].caps), by_sid[x[0]].nargs, x[0], x[1]))
        findings.append({"class": "broken", "kind": "correspondence",
                         "what": f"name resolution: in {len(name_clash)} of {len(name_lines)} instances the inner fn of the real expansion has a name the program "
                                 "itself uses as a value; the Lean model (Props/C20 names_resolve_as_written / call_resolves need the hidden name to be "
                                 "distinct from them) predicts that the name is captured",
                         "detail": [{"case": case_of(sid, t), "hidden_fn_in_real_expansion": hid, "generated": g, "explicit": e}
                                    for sid, t, hid, g, e in name_clash[:5]]})
    cov["expansions_with_unexpected_items"] = len(extra_items)
    if extra_items:
        extra_items.sort(key=lambda x: (len(by_sid[x[0]].caps), by_sid[x[0]].nargs, x[0], x[1]))
        findings.append({"class": "broken", "kind": "correspondence",
                         "what": f"the real expansion of {len(extra_items)} plain instances declares items other than the one hidden fn the Lean model's "
                                 "`emit` describes (an item with a fixed name inside the user's block can capture a like-named name of the user's program)",
                         "detail": [{"case": case_of(sid, t), "items": [" ".join(x for x in it if x) for it in items]} for sid, t, items in extra_items[:5]]})
    if exp_compared and len(samples) < 8:
        s, t = live[0] if len(live) < 50 else live[49]
        samples.append({"case": case_of(s.sid, t), "impl": "expansion wiring = model wiring", "model": model[(s.sid, t)][1][:300]})

    # ---- results of the long-running / second-profile flows -----------------------------------------------------------------
    lr_out = [f.result() for f in lr_futures]
    lr_pool.shutdown()
    for tag, o in zip(("debug", "release"), lr_out):
        if o["machinery"] is not None:
            raise o["machinery"]
        findings += o["findings"]
        compared += o["compared"]
        nontrivial += o["nontrivial"]
        for k_, v_ in o["hist"].items():
            hist[k_ + "@" + tag] = v_
        cov[f"long_running_{tag}"] = {"instances_compared": o["compared"], "long_running_instances": o["long_running"], "cargo_build_s": round(o["build_s"], 2),
                                      "run_s": round(o["run_s"], 2), "compile_failures": o["compile_failures"], "behaviour_differences": o["diffs"], "not_finished_in_time": o.get("timeouts", 0),
                                      "lean_history_runs_compared": o["lean_compared"]}
    cov["long_running_instances"] = len(soak)
    cov["release_profile_sample"] = len(sample)
    cov["extra_evaluations"] = compared
    cov["extra_nontrivial"] = nontrivial
    cov["extra_samples"] = samples
    cov["shapes"] = len(shapes)
    cov["beyond_bound_shapes" if tier == "thorough" else "quick_wide_shapes_3_4_captures"] = len(beyond)
    cov["hygiene_instances"] = len(hygiene)
    cov["instances"] = len(instances)
    cov["generator_histogram_extra"] = hist
    cov["extra_s"] = round(time.time() - t0, 2)
    return findings
