"""C20 — `rec_lambda!` closures equal explicit recursion for every supported macro shape (engine `lambda`).

No pre-built harness: `extra(ctx)` generates a cargo workspace of Rust programs under ctx["workdir"] (outside /verif
and /repo) that path-depends on <repo>/rlib/lambda, compiles it, runs it, compares the `rec_lambda!` version of every
shape with a hand-written explicit recursion, and compares the wiring of the real expansion (-Zunpretty=expanded)
with what the Lean model of the token munchers (driver `drv_lambda`) predicts for the same shape.
"""
import importlib.util
import os
import subprocess
import time
from concurrent.futures import ThreadPoolExecutor

ID = "C20"
ENGINE = "lambda"
CRATE = None                      # no line-protocol harness; see extra()
DRIVER = "drv_lambda"
DRIVER_MODULE = "Driver.Lambda"
PROPS = "RlibModel.Props.C20"
PROFILES = []
SHRINK_SEP = None
RULE = ("cases = every invocation shape (captures 0..4 in every &/&mut pattern and order [quick: full cross product for 0..2 captures, plus "
        "every pattern of 3 and 4 captures with one argument count, both call syntaxes, ret/none alternating, one body], 1..4 arguments, with/without "
        "return type, recursive calls with/without trailing comma) x 4 body templates (arith-i64, vec-memo, mixed-types, ref-args-effects "
        "[arguments of reference type `&mut Vec`, `&[T]`, `&T`; closure called 3 times with fresh borrows in separate scopes, buffer read "
        "between calls; argument expressions of the recursive calls mutate resp. read a mutable capture: bump a counter via a helper fn, pop a stack]; each reads "
        "the shared captures, updates the mutable ones before and after the recursive calls, branches on argument 0 and calls itself "
        "0, 1 or 2 times), each called 3 times with seed-dependent literal arguments; one evaluation = one (shape, body) instance "
        "compiled, run and compared with the explicit recursion on return values, final captured state and a hash of the activation "
        "trace; non-trivial = instance with at least one captured variable (the capture wiring is exercised). In addition the wiring "
        "(parameter order of `_lambda_name_`, tail of every recursive call, closure call) of every instance's real expansion is "
        "compared with the Lean model's prediction. The thorough tier adds a sample beyond the stated bound: every pattern of 5 and 6 "
        "captures with 2 and 6 arguments (384 shapes, one body each). "
        "NAME RESOLUTION / HYGIENE instances (quick 122, thorough 1300; tools/c20_gen.py hygiene_instances): the identifier given to rec_lambda! as "
        "the recursion's name equals another name the same program uses under its ordinary meaning - a free fn the body calls (`tr`, `mix1`; for "
        "each such name also the shape whose inner fn has exactly the free fn's signature, so that a mis-resolved call still type-checks and shows "
        "as a difference in behaviour), an imported std fn (`min`), prelude functions/constructors/types/traits (`drop`, `Some`, `Ok`, `Box`, `Vec`, "
        "`String`, `Default`, `Into`, `Clone`; constructors also used as patterns), a type alias, a module, a const, a static, a tuple-struct "
        "constructor, std macros used around the closure (`format`, `vec`), `rec_lambda` itself, method names, locals of the enclosing fn (`f` = the "
        "variable bound to the closure, `out`) and of the body (`sh`, `x`, `a0v`), a raw identifier (`r#loop`), a loop label, each of its own captures "
        "(`c<j>`, shared and mutable, every position) and arguments (`a0`, last); NESTED rec_lambda! (a second recursive closure built, called twice "
        "with the first result fed back, and dropped inside the body before the outer recursive calls; same name as the outer one / another / a name "
        "clashing with a capture, argument, helper; one shape gives the two hidden fns the same signature); TWO LIVE closures in one scope used "
        "interleaved, sharing the shared captures, under the same or different names, with the other call syntax; a recursive call nested in an argument "
        "expression of another one, and a call site inside an ordinary closure of the body; HOSTILE SCOPE (the other direction): the macro invoked by "
        "absolute path `::rlib_lambda::rec_lambda!` inside a block that shadows the prelude (types, constructors, functions, traits), `std`/`core`/"
        "`alloc`/`rlib_lambda` as modules, 24 std macros and the crate's own macro names. In all instances a closure without a mutable capture is bound "
        "without `mut` (must be `Fn`), copied (must be `Copy`; both copies used) and called once through `&f`; one with a mutable capture once through `&mut f`. "
        "For every instance whose expansion is read, the hidden fn's REAL name goes into the Lean name-resolution model (driver line `names …`) "
        "together with the value names and `let`s of the body: generated and explicit resolution must agree; plain instances must expand to exactly "
        "one item (the hidden fn).")
ASSUMPTIONS = [
    "rustc's macro matcher (fragment parsers, follow sets, the `$dol` trick, hygiene), type checker and borrow checker are not modelled: "
    "that a shape compiles is established by compiling it, for the generated shapes only",
    "the Lean model of the three token munchers and of the local macro is hand-written from the macro source; it is tied to the code by "
    "comparing its predicted wiring with `cargo +nightly rustc -- -Zunpretty=expanded` of the generated programs on every run",
    "the oracle of the behavioural comparison is a hand-written explicit recursive fn generated next to each rec_lambda! instance "
    "(for nested / second live closures: explicit fns `ngo` / `go2` written the same way); it is the only oracle for the name-resolution instances",
    "name resolution: Rust's `macro_rules!` hygiene covers locals and labels only, so the property can hold only for programs that do not themselves "
    "use the (fixed) identifier of the hidden inner fn as a value, and whose nested inner closure does not call the OUTER recursion's macro - both "
    "fail on the unchanged rlib (docs/notes/C20.md, 'Findings on rlib'), are NOT generated, and are outside the hypotheses of names_resolve_as_written",
    "the Lean name-resolution model (resolveG/resolveCallG/resolveE: scopes = body lets, fn parameters, the block's hidden fn, enclosing scope; tokens of "
    "the local macro resolved at its definition) is a hand-written abstraction of rustc's resolver; it is tied to the code only through the hidden fn's "
    "name and the parameter list read from -Zunpretty=expanded",
]
TRUSTED_EXTRA = ["tools/c20_gen.py (program generator, reader of compiler diagnostics and of the expanded source)",
                 "cargo +nightly -Zunpretty=expanded pretty printer"]
MANIFEST = {
    "level": "proof (partial)",
    "text": ("Lean 4 theorems about a rule-by-rule model of rec_lambda!/_rec_lambda_0_/_1_/_2_ and the local call macro on abstract token "
             "streams: for ANY number of captures in any &/&mut interleaving (incl. none), any number >= 1 of arguments, with/without return "
             "type, both call syntaxes, pairwise distinct names: the expansion never gets stuck and ends after |caps|+|args|+2 steps "
             "(expand_total); the two arms of the local call macro, run as matchers on the call's tokens, reach the same inner call for both call "
             "syntaxes and every arity (call_total; the evaluator goes through them); the inner fn's parameter list, the recursive call's tail and the closure's tail are the same list (shared "
             "reversed, then mutable reversed) containing every capture exactly once with its declared mutability (wiring_consistent); "
             "positional binding gives every captured name back to that very variable (rebinds_self); for every abstract body (interaction "
             "tree reading names, writing mutable captures, calling itself in either call syntax), fuel, arguments and store the generated closure and the explicit "
             "recursion return the same value and final store (generated_eq_explicit); every identifier of the body other than the hidden fn's "
             "fixed name denotes in the generated code what it denotes in the explicit recursion, independently of the recursion's name, which names "
             "a macro only (names_resolve_as_written), and the callee and appended names of a recursive call resolve to the hidden fn and its own parameters "
             "whatever the body declares, provided no argument/capture is called like the hidden fn (call_resolves). PARTIAL: rustc itself is not "
             "modelled; compilation and behaviour are checked on generated programs (thorough tier: all 496 shapes x 4 bodies + 384 larger shapes + 1300 "
             "name-resolution instances = 3668; quick tier: 160 shapes, 496 instances + 122 name-resolution instances = 618), and the model's wiring "
             "and name resolution are compared with the real expansion of every instance (hidden fn's name, parameters, items declared)."),
    "note": ("Proof (partial). Proved: the macro wiring for unboundedly many captures/arguments and generated = explicit recursion in a small "
             "semantics of frames and references. Tested, not proved (named residue): rustc's macro matcher, type checker, borrow checker - "
             "every generated shape is compiled and run against a hand-written recursion (<= 4 captures, <= 4 arguments). Trusted: Lean kernel, "
             "axioms propext/Classical.choice/Quot.sound, the hand-written model (compared with -Zunpretty=expanded on every run), generator and "
             "diagnostics reader tools/c20_gen.py."),
    "technique": "Lean 4 proof of a hand-written macro model + generated-program differential (compile, run, expansion wiring) against the Rust crate",
    "design_ref": "DESIGN.md §6 C20",
}

HERE = os.path.dirname(os.path.abspath(__file__))
VERIF = os.path.dirname(HERE)


def _gen():
    spec = importlib.util.spec_from_file_location("c20_gen", os.path.join(VERIF, "tools", "c20_gen.py"))
    mod = importlib.util.module_from_spec(spec)
    spec.loader.exec_module(mod)
    return mod


def _strip_rust_comments(src):
    import re
    src = re.sub(r"/\*.*?\*/", " ", src, flags=re.S)
    return re.sub(r"//[^\n]*", "", src)


def extract(repo):
    """Side conditions read from the macro source (comments stripped): the public macro `rec_lambda` has the 2 arms the
    model has, and there are three helper macros with 4, 3 and 1 arms (whatever they are called)."""
    import re
    problems = []
    params = {}
    path = os.path.join(repo, "rlib", "lambda", "src", "lib.rs")
    try:
        src = _strip_rust_comments(open(path).read())
    except OSError as e:
        return {}, [f"cannot read {path}: {e}"]
    arms = {}
    for m in re.finditer(r"^\s*macro_rules!\s*(\w+)\s*\{", src, flags=re.M):
        # arms of the macro itself = `=>` at brace depth 1 of the definition
        depth, i, n = 0, m.end() - 1, 0
        while i < len(src):
            c = src[i]
            if c in "{([":
                depth += 1
            elif c in "})]":
                depth -= 1
                if depth == 0:
                    break
            elif c == "=" and src[i:i + 2] == "=>" and depth == 1:
                n += 1
            i += 1
        arms[m.group(1)] = n
    params["macro_arms"] = arms
    if arms.get("rec_lambda") != 2:
        problems.append(f"macro rec_lambda has {arms.get('rec_lambda')} arms in rlib/lambda/src/lib.rs, the Lean model (Model/Lambda.lean `step`) has 2")
    helpers = sorted(n for k, n in arms.items() if k != "rec_lambda")
    if helpers != [1, 3, 4]:
        problems.append(f"helper macros have arm counts {helpers} (by name: {arms}), the Lean model (`step`) has munchers with 4, 3 and 1 arms")
    return params, problems


def _driver(lines):
    drv = os.path.join(VERIF, "lean", ".lake", "build", "bin", DRIVER)
    r = subprocess.run([drv], input="".join(x + "\n" for x in lines), stdout=subprocess.PIPE, stderr=subprocess.PIPE, text=True, timeout=600)
    out = r.stdout.split("\n")
    if r.returncode != 0 or len(out) < len(lines):
        raise RuntimeError(f"drv_lambda failed rc={r.returncode}: {r.stderr[-500:]}")
    return out[:len(lines)]


def _wiring_part(model_raw):
    """`fn(..)->T rec(..) clo(..)` part of a driver answer (drops ` steps=N call=K:(..)`)."""
    k = model_raw.find(" steps=")
    return model_raw if k < 0 else model_raw[:k]


def extra(ctx):
    import veriflib as V
    G = _gen()
    repo, tier, seed, workdir, cov = ctx["repo"], ctx["tier"], ctx["seed"], ctx["workdir"], ctx["coverage"]
    findings = []
    t0 = time.time()
    shapes = G.shapes_for_tier(tier)
    if tier == "thorough" and len(shapes) != 31 * 16:
        raise V.Machinery(f"thorough tier generated {len(shapes)} shapes instead of 496")
    instances = [(s, t) for s in shapes for t in range(G.TEMPLATES)]
    # quick: + every pattern of 3 and 4 captures with a reduced cross product; thorough: + 5 and 6 captures, up to 6 arguments
    beyond = G.beyond_shapes(len(shapes)) if tier == "thorough" else G.quick_wide_shapes(len(shapes))
    instances += [(s, s.sid % G.TEMPLATES) for s in beyond]
    # name resolution / hygiene: the recursion's name equals another name the program uses (free fn, prelude name, type, module,
    # const, capture, argument, local), nested rec_lambda!, two live closures used interleaved
    hygiene = G.hygiene_instances(len(shapes) + len(beyond), tier)
    instances += hygiene
    by_sid = {s.sid: s for s in shapes + beyond + [s for s, _ in hygiene]}
    if len(by_sid) != len(shapes) + len(beyond) + len(hygiene):
        raise V.Machinery("shape numbers are not unique")
    nparts = 4 if tier == "thorough" else 2
    jobs = 4
    root = os.path.join(workdir, "c20ws")

    # ---- the Lean model's answer for every instance (the return type differs between templates) ----------------------
    lines = [s.descriptor(t) for s, t in instances]
    answers = _driver(lines)
    model = {}
    for (s, t), line, ans in zip(instances, lines, answers):
        pm = V.parse_model(ans)
        if pm is None or pm[2] == "any" or pm[1] != pm[2]:
            raise V.Machinery(f"drv_lambda: model and closed-form spec disagree (or shape out of domain) on `{line}`: {ans[:400]}")
        model[(s.sid, t)] = (pm[0], ans)
    cov["model_lines"] = len(answers)

    def case_of(sid, t):
        return by_sid[sid].case(t, seed)

    def confirm(sid, t):
        """Re-check one instance in a fresh single-instance crate: returns (compiles, G, E, first error)."""
        r2 = os.path.join(workdir, f"c20one_{sid}_{t}")
        s1 = by_sid[sid].with_sid(sid)
        G.write_workspace(r2, repo, [(s1, t)], 1, seed)
        ok, errs = G.cargo_build(r2, jobs)
        if not ok:
            return False, None, None, (errs[0][2] if errs else "?")
        problem, res = G.run_runner(r2)
        d = res.get((sid, t), {})
        return True, d.get("G"), d.get("E"), (problem or "")

    # ---- generate, compile (compilation success is part of the property) ---------------------------------------------
    live = list(instances)
    compile_failures = []
    build_s = 0.0
    ok = False
    for rnd in range(4):
        linemaps = G.write_workspace(root, repo, live, nparts, seed)
        tb = time.time()
        ok, errs = G.cargo_build(root, jobs)
        build_s += time.time() - tb
        if ok:
            break
        bad = {}
        crate_broken = None
        for part, line, msg, pkg, in_lambda in errs:
            loc = G.locate(linemaps, part, line)
            if loc is None:
                if "could not compile" in msg or "aborting due to" in msg:
                    continue
                if in_lambda:
                    # rlib_lambda itself does not compile, or an error inside the macros that cannot be attributed to one instance
                    crate_broken = crate_broken or msg
                    continue
                raise V.Machinery("generated workspace does not build and the error is neither inside a generated instance nor in rlib/lambda: " + msg[:800])
            sid, t, kind = loc
            if kind == "e":
                raise V.Machinery(f"generator bug: the hand-written explicit version of `{case_of(sid, t)}` does not compile: {msg[:800]}")
            bad.setdefault((sid, t), msg)
        if not bad and crate_broken:
            # "the generated closure compiles" fails for every shape: report the smallest one as the case
            s0, t0_ = min(live, key=lambda x: (len(x[0].caps), x[0].nargs, x[0].sid, x[1]))
            findings.append({"class": "violation", "what": "rlib_lambda does not compile: no rec_lambda! shape compiles",
                             "case": case_of(s0.sid, t0_),
                             "impl": "does not compile (error in rlib/lambda itself): " + " ".join(crate_broken.split())[:600]
                                     + f" ; replay: python3 tools/c20_gen.py --replay '{case_of(s0.sid, t0_)}' --repo {repo}",
                             "model": "compiles, result = explicit recursion ; " + model[(s0.sid, t0_)][1][:300]})
            compile_failures = [((s.sid, t), crate_broken) for s, t in live]
            live = []
            break
        if not bad:
            raise V.Machinery("generated workspace does not build, no error located: " + "\n".join(e[2] for e in errs)[:800])
        for k, msg in sorted(bad.items()):
            compile_failures.append((k, msg))
        live = [(s, t) for s, t in live if (s.sid, t) not in bad]
        if not live:
            break
    cov["cargo_build_generated_s"] = round(build_s, 2)
    cov["compile_failures"] = len(compile_failures)
    if compile_failures and not findings:
        # report the smallest failing shape, after confirming it in a crate of its own
        compile_failures.sort(key=lambda x: (len(by_sid[x[0][0]].caps), by_sid[x[0][0]].nargs, x[0]))
        for (sid, t), msg in compile_failures[:3]:
            cok, _, _, err1 = confirm(sid, t)
            if cok:
                V.log(f"compile failure of `{case_of(sid, t)}` not confirmed in a crate of its own")
                continue
            findings.append({"class": "violation", "what": "generated rec_lambda! shape does not compile",
                             "case": case_of(sid, t),
                             "impl": "does not compile: " + " ".join(err1.split())[:600]
                                     + f" ; {len(compile_failures)} of {len(instances)} instances fail to compile"
                                     + f" ; replay: python3 tools/c20_gen.py --replay '{case_of(sid, t)}' --repo {repo}",
                             "model": "compiles, result = explicit recursion ; " + model[(sid, t)][1][:300]})
            break
        if not findings:
            findings.append({"class": "broken", "kind": "correspondence",
                             "what": f"{len(compile_failures)} generated instances fail to compile inside the workspace but none of the first 3 fails in a crate of its own",
                             "detail": [case_of(sid, t) + " :: " + " ".join(msg.split())[:300] for (sid, t), msg in compile_failures[:3]]})
    if not ok and live and not findings:
        findings.append({"class": "broken", "kind": "correspondence",
                         "what": "the generated workspace still does not build after 4 rounds of removing failing instances; nothing was run"})

    # ---- run: generated vs explicit recursion ---------------------------------------------------------------------
    compared = 0
    nontrivial = 0
    res = {}
    diffs = []
    samples = []
    hist = {}
    if ok and live:
        problem, res = G.run_runner(root)
        if problem:
            raise V.Machinery("generated runner: " + problem)
        crashed = sum(1 for d in res.values() if d.get("G", "").startswith("crash("))
        cov["crashed_instances"] = crashed
        for s, t in live:
            d = res.get((s.sid, t))
            if not d or "G" not in d or "E" not in d:
                if crashed:
                    continue            # not reached: the run was given up after too many crashes
                raise V.Machinery(f"runner printed no result for `{case_of(s.sid, t)}`")
            if d["E"] == "panic" or d["E"].startswith("crash("):
                raise V.Machinery(f"generator bug: the hand-written explicit version of `{case_of(s.sid, t)}` panicked/crashed ({d['E'][:120]}); "
                                  "the templates must not panic, otherwise a panic on both sides would compare equal")
            compared += 1
            key = f"caps={len(s.caps)}"
            hist[key] = hist.get(key, 0) + 1
            hist[f"body={G.TEMPLATE_NAMES[t]}"] = hist.get(f"body={G.TEMPLATE_NAMES[t]}", 0) + 1
            for flag, on in (("hygiene:name-clash", s.hyg and s.nm != G.DEFAULT_NAME), ("hygiene:nested", s.nest is not None), ("hygiene:two-live", s.live2 is not None),
                             ("hygiene:hostile-scope", s.env is not None)):
                if on:
                    hist[flag] = hist.get(flag, 0) + 1
            if len(s.caps) >= 1:
                nontrivial += 1
            if d["G"] != d["E"]:
                diffs.append((s.sid, t, d["G"], d["E"]))
            elif len(samples) < 6 and compared in (1, 30, 100, 300, 700, 1400):
                samples.append({"case": case_of(s.sid, t), "impl": "generated: " + d["G"][:200], "model": "explicit: " + d["E"][:200]})
        diffs.sort(key=lambda x: (len(by_sid[x[0]].caps), by_sid[x[0]].nargs, x[0], x[1]))
        for sid, t, g, e in diffs[:3]:
            cok, g2, e2, err1 = confirm(sid, t)
            if cok and g2 == e2:
                V.log(f"difference on `{case_of(sid, t)}` not confirmed in a crate of its own")
                continue
            findings.append({"class": "violation", "what": "rec_lambda! closure differs from explicit recursion",
                             "case": case_of(sid, t),
                             "impl": f"generated: {(g2 or g)[:500]} ; {len(diffs)} of {compared} instances differ"
                                     + f" ; replay: python3 tools/c20_gen.py --replay '{case_of(sid, t)}' --repo {repo}",
                             "model": f"explicit: {(e2 or e)[:500]}"})
            break
    cov["behaviour_differences"] = len(diffs)
    if ok and live and compared != len(live) and not cov.get("crashed_instances"):
        raise V.Machinery(f"only {compared} of {len(live)} built instances were compared")

    # ---- the Lean semantic model (closureG over the munchers' expansion, evalE) run on the arith-i64 body ------------
    # same shapes, same initial captures, same three calls; compared with what the Rust program printed (minus trace hash)
    sem_compared = 0
    sem_mismatch = []
    if ok and live:
        # (not the hygiene instances: their body has a prologue and extra calls the Lean copy of the body does not have)
        sem = [(s, t) for s, t in live if t == 0 and not s.hyg and (s.sid, t) in res and not res[(s.sid, t)].get("G", "").startswith(("crash(", "panic"))]
        rl = []
        for s, t in sem:
            ins = G.call_inputs(0, seed, s)
            init = ",".join(G.cap_init(0, i) for i in range(len(s.caps))) or "-"
            rl.append(f"run {s.descriptor(0)} init={init} " + " ".join(",".join(row[:s.nargs]) for row in ins))
        for (s, t), line, ans in zip(sem, rl, _driver(rl) if rl else []):
            pm = V.parse_model(ans)
            if pm is None or pm[2] == "any" or pm[1] != pm[2]:
                raise V.Machinery(f"drv_lambda: generated and explicit evaluator of the Lean model disagree on `{line}`: {ans[:400]}")
            g = res[(s.sid, t)]["G"]
            g = g[:g.rfind("t=")]
            sem_compared += 1
            if g != pm[0] and g == res[(s.sid, t)]["E"][:len(g)]:
                sem_mismatch.append({"case": line, "rust": g[:300], "lean": pm[0][:300]})
    cov["semantic_model_runs_compared"] = sem_compared
    if sem_mismatch:
        findings.append({"class": "broken", "kind": "correspondence",
                         "what": f"the Lean evaluators (closureG/evalE on the arith-i64 body) and the Rust program differ on {len(sem_mismatch)} of "
                                 f"{sem_compared} instances although generated and explicit Rust agree (model of the body template out of date)",
                         "detail": sem_mismatch[:3]})

    # ---- the real expansion's wiring against the Lean model ---------------------------------------------------------
    exp_compared = 0
    exp_mismatch = []
    extra_items = []
    name_lines = []
    texp = time.time()
    if ok and live:
        with ThreadPoolExecutor(max_workers=3) as ex:
            outs = list(ex.map(lambda p: G.expanded_source(root, p), range(nparts)))
        for p, (rc, text, err) in enumerate(outs):
            if rc != 0:
                findings.append({"class": "broken", "what": f"cargo +nightly rustc -Zunpretty=expanded failed on generated part{p}",
                                 "detail": err[-600:]})
                continue
            blocks = G.split_expanded(text)
            for s, t in live[p::nparts]:
                if s.nest is not None or s.live2 is not None or s.env is not None:
                    continue            # two expansions / other items in one function: the reader handles one (the wiring is that of the plain shape)
                w, problem = G.wiring_of_expansion(blocks, s.sid, t)
                want = _wiring_part(model[(s.sid, t)][0])
                if problem:
                    exp_mismatch.append((s.sid, t, problem, want))
                    continue
                pat, rec_tails, rec_lens, _inner = w
                locs, uses = G.value_names(s, t)
                name_lines.append(((s.sid, t), f"names {_inner} {s.descriptor(t)} locals={','.join(locs)} uses={','.join(uses)}"))
                exp_compared += 1
                ncap = len(s.caps)
                if len(rec_tails) != 1 or any(n != s.nargs + ncap for n in rec_lens) or len(rec_lens) != G.rec_call_sites(s, t):
                    exp_mismatch.append((s.sid, t, f"recursive calls: tails {rec_tails}, argument counts {rec_lens}", want))
                    continue
                got = pat % rec_tails[0]
                if got != want:
                    exp_mismatch.append((s.sid, t, got, want))
                    continue
                # what the expansion introduces into the user's block: exactly one item, the hidden fn (Model: `emit`)
                items = G.expansion_items(blocks, s.sid, t)
                if not s.hyg and items != [("fn", _inner)]:
                    extra_items.append((s.sid, t, items))
        # self-test of the expansion reader: a textually mis-wired copy of a real expansion must be reported as such
        st_done = False
        for p, (rc, text, err) in enumerate(outs):
            if rc != 0 or st_done:
                continue
            blocks = G.split_expanded(text)
            for s, t in live[p::nparts]:
                if list(s.caps).count(True) >= 2 and s.nest is None and s.live2 is None and s.env is None:
                    blk = blocks.get(("g", s.sid, t), "")
                    m1, m2 = [f"&mut c{i}" for i in reversed(s.muts())][:2]
                    w0, _ = G.wiring_of_expansion({("g", s.sid, t): blk}, s.sid, t)
                    if not w0:
                        continue        # unreadable expansion: already reported above as a broken correspondence
                    k = blk.rfind(w0[3] + "(")
                    bad = blk[:k] + blk[k:].replace(m1, "\0").replace(m2, m1).replace("\0", m2)
                    w1, _ = G.wiring_of_expansion({("g", s.sid, t): bad}, s.sid, t)
                    if not w1 or w0[0] == w1[0] or w0[0].replace(m1, "\0").replace(m2, m1).replace("\0", m2).split(" clo(")[1] != w1[0].split(" clo(")[1]:
                        raise V.Machinery(f"self-test of the expansion reader failed on `{case_of(s.sid, t)}`: {w0} / {w1}")
                    cov["expansion_reader_selftest"] = "mis-wired copy detected"
                    st_done = True
                    break
    cov["expansion_s"] = round(time.time() - texp, 2)
    cov["expansions_compared"] = exp_compared
    cov["expansion_mismatches"] = len(exp_mismatch)
    if exp_mismatch:
        exp_mismatch.sort(key=lambda x: (len(by_sid[x[0]].caps), by_sid[x[0]].nargs, x[0], x[1]))
        findings.append({"class": "broken", "kind": "correspondence",
                         "what": f"wiring of the real expansion differs from the Lean model of the token munchers on {len(exp_mismatch)} of "
                                 f"{exp_compared} instances (Model/Lambda.lean no longer describes rlib/lambda/src/lib.rs)",
                         "detail": [{"case": case_of(sid, t), "expansion": got, "model": want} for sid, t, got, want in exp_mismatch[:5]]})
    # ---- name resolution: the Lean model (resolveG/resolveCallG vs resolveE) with the hidden fn's REAL name ------------------------
    name_clash = []
    if name_lines:
        for ((sid, t), line), ans in zip(name_lines, _driver([l for _, l in name_lines])):
            pm = V.parse_model(ans)
            if pm is None or pm[2] == "any":
                raise V.Machinery(f"drv_lambda: bad answer (or shape out of domain) on `{line}`: {ans[:400]}")
            if pm[1] != pm[2]:
                name_clash.append((sid, t, line.split()[1], pm[1], pm[2]))
    cov["name_resolution_lines"] = len(name_lines)
    cov["name_resolution_clashes"] = len(name_clash)
    if name_clash:
        name_clash.sort(key=lambda x: (len(by_sid[x[0]].caps), by_sid[x[0]].nargs, x[0], x[1]))
        findings.append({"class": "broken", "kind": "correspondence",
                         "what": f"name resolution: in {len(name_clash)} of {len(name_lines)} instances the inner fn of the real expansion has a name the program "
                                 "itself uses as a value; the Lean model (Props/C20 names_resolve_as_written / call_resolves need the hidden name to be "
                                 "distinct from them) predicts that the name is captured",
                         "detail": [{"case": case_of(sid, t), "hidden_fn_in_real_expansion": hid, "generated": g, "explicit": e}
                                    for sid, t, hid, g, e in name_clash[:5]]})
    cov["expansions_with_unexpected_items"] = len(extra_items)
    if extra_items:
        extra_items.sort(key=lambda x: (len(by_sid[x[0]].caps), by_sid[x[0]].nargs, x[0], x[1]))
        findings.append({"class": "broken", "kind": "correspondence",
                         "what": f"the real expansion of {len(extra_items)} plain instances declares items other than the one hidden fn the Lean model's "
                                 "`emit` describes (an item with a fixed name inside the user's block can capture a like-named name of the user's program)",
                         "detail": [{"case": case_of(sid, t), "items": [" ".join(x for x in it if x) for it in items]} for sid, t, items in extra_items[:5]]})
    if exp_compared and len(samples) < 8:
        s, t = live[0] if len(live) < 50 else live[49]
        samples.append({"case": case_of(s.sid, t), "impl": "expansion wiring = model wiring", "model": model[(s.sid, t)][1][:300]})

    cov["extra_evaluations"] = compared
    cov["extra_nontrivial"] = nontrivial
    cov["extra_samples"] = samples
    cov["shapes"] = len(shapes)
    cov["beyond_bound_shapes" if tier == "thorough" else "quick_wide_shapes_3_4_captures"] = len(beyond)
    cov["hygiene_instances"] = len(hygiene)
    cov["instances"] = len(instances)
    cov["generator_histogram_extra"] = hist
    cov["extra_s"] = round(time.time() - t0, 2)
    return findings
