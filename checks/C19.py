"""C19 — tensor indexing is a row-major bijection with per-dimension bounds checks (engine `tensor`)."""
ID = "C19"
ENGINE = "tensor"
CRATE = "e_tensor"
DRIVER = "drv_tensor"
DRIVER_MODULE = "Driver.Tensor"
PROPS = "RlibModel.Props.C19"
PROPS_SRC = "RlibModel.Props.C19Src"     # second tie: `src_*` theorems about the definitions regenerated from the source text
PROFILES = ["release", "debug"]   # debug: debug assertions on, unoptimised (code that misbehaves only under cfg!(debug_assertions)); a reduced generator (--profile debug)
SHRINK_SEP = ";"
RULE = ("cases: every shape of rank 0..4 with extents 1..5 (rank 4: extents <= 4 in the quick tier): every valid index and every index out of range in exactly one dimension with the other coordinates "
        "ranging over all valid values: get_index, and - independently of each other, on tensors built by from_vec / from_slice / new / read - t[idx] and "
        "t[idx]=v followed by a comparison of every cell with its old value (an aliasing write shows as a foreign cell); out-of-range values: quick d, d+1 "
        "and a sample, thorough every value whose flattened offset is still inside the storage (the aliasing case, 1.6M indices) plus 2d+1, 2^40, usize::MAX; "
        "constructors print shape and contents; views and S say only `panic` (the raw result keeps the coarse class reject/overflow); iter/iter_mut/into_iter order after writing code(idx) through IndexMut; every shape with extents 0..5: from_vec/from_slice "
        "with length n, n+1, n-1, 0, new, read, plus 17 shapes with extents up to usize::MAX whose product does not fit usize (must be rejected: "
        "panic:overflow in the checked build) or fits but is far from the length; == over all pairs of equal-rank shapes with equal element count (same data), same shape with one "
        "element changed, different counts; Writable bytes and Writer -> bytes -> chunked Reader -> Tensor::read round trip for i64 (incl. MIN/MAX) "
        "and String elements; read plans `rs ty chunk lead ; t dims data seps ; k tok sep ; …` (500, thorough 6000): two to five values - tensors of ranks 0..4 with different shapes and plain tokens - read "
        "from ONE chunked Reader over one input in which every element is followed by its own whitespace (blank, newline, tab, CR-LF, runs of them; nothing after the last), so a tensor ends "
        "inside a line, at a line end or before blank lines and the next value starts right there: every value read must be the value written, and is_eof afterwards; "
        "{:?} output of i64 tensors; histories `h D ; op ; …` over four Tensor<i64, D> variables (ranks 0..4): clone(), and clone_from for EVERY ordered pair of small shapes "
        "(same shape / another shape with the same element count / another count; rank 1 extents <= 6, rank 2 <= 4, rank 3 <= 3, rank 4 <= 2 in the quick tier), each followed by dims(), ==, iter, "
        "t[idx] / get_index / t[idx]=v at the last and a random valid index and at an index out of range in each dimension - for the source's shape and for the overwritten "
        "variable's old shape -, dim(i) for i in and out of range, Writable bytes, a write to the copy, the source afterwards, and clone_from back; plus 2500 (thorough 60000) random histories mixing all ops "
        "over shapes that are permutations of each other; a failing history is shrunk op by op. "
        "Element-generic histories `g D ty ; op ; …` over four Tensor<T, D> variables for T = i64, String, f64 (NaN, +0.0/-0.0, inf), (), a zero-sized struct, a zero-sized struct whose == is never true, "
        "and a record compared by key only (equal-comparing values distinguishable): per type and per pair of shapes (all pairs with the same element count, one with another count, the same shape; "
        "from_vec / from_slice / new / Tensor::read rotating, equal data two times in three) ==, != in both orders, with the SAME object on both sides, against a clone and against a copy rebuilt from "
        "dims() and into_iter().collect(), Tensor::new from a returned shape, {:?}, clone_from into the other shape followed by ==, !=, dims, indexing in and out of range, writes, Writable; "
        "iterators of iter / iter_mut / into_iter (the three must agree) after k x next and j x next_back (k + j below, at and beyond the length): count, len (+ size_hint), last, nth, nth_back, "
        "rev (= rfold), collect (= fold = for_each); 450 (thorough 8000) random histories per type mixing all ops; shapes beyond the small scope (4096, 99991, 64x64, 300x7, 16^3, 2x3x4x5, 17x1x19x3, 32x8x4x4 and rotations): "
        "offsets, ==/!= between rotated shapes, iterators consumed deep from both ends. Both build profiles: release (debug assertions off) and debug (on; reduced generator). "
        "non-trivial = distinct in-domain case whose shape has more than one element (histories: one that clones, compares, iterates or indexes)")
ASSUMPTIONS = [
    "the Lean model of rlib_tensor is hand-written; it is tied to the code by running both on the same cases",
    "Tensor<T, D> needs the rank at compile time: the correspondence covers ranks 0..4 (the theorems cover every rank)",
    "usize arithmetic is modelled as the checked build executes it (overflow = panic): get_index through getIndexU, the constructors' product through prodU; "
    "an unchecked build wraps instead (from_vec([2^32, 2^32], vec![]) is accepted there) - outside the property's stated quantifier, see docs/notes/C19.md",
    "element rendering/parsing (i64, String) is rlib_io's (C08/C09); the model takes the rendering of an element as a parameter",
    "read plans (rs cases): the model side tokenises the whole input (splitWs) and runs the model's read / tokRd item by item over the one token list - "
    "Tensor::read consumes exactly product-many tokens and nothing else; the spec side is the plan itself (the values written, eof=true); no new model definitions; "
    "Reader::read_line after a tensor is not exercised (the token-list reader has no lines; lines are C08's)",
    "Clone is modelled with value semantics (clone = same shape and elements; clone_from = the trait default `*self = source.clone()`); histories are run on Tensor<i64, D> "
    "with four variables; the spec side of a history (stepSpec) is proved equal to the model side for every history (hist_spec)",
    "element-generic histories (g cases): the model is polymorphic in the element type and in the element's == (no lawfulness assumed); the driver instantiates it at a sum type whose == is "
    "Rust's PartialEq of the harness' element types (i64, String: equality; f64: IEEE on Lean's Float - NaN != NaN, +0.0 == -0.0 - values taken from a fixed table of 11 literals and only moved, never computed; "
    "() and the zero-sized struct: always equal; the `nz` struct: never equal; records: by key); gStepSpec is proved equal to gStepModel for every element type, every == and every history (ghist_spec); "
    "the zero-sized structs, the record type and their Writable/Readable/Debug impls are harness code; f64, () and nz have no Writable/Readable (no `w` / `rdv` ops)",
    "the std iterators (slice::Iter, slice::IterMut, vec::IntoIter) are modelled as the not-yet-yielded window of the storage with next / next_back, the provided methods by their std definitions in terms of "
    "these two (proved equal to the closed forms over storage positions k <= p < len - j: iter_partial); the harness requires DoubleEndedIterator + ExactSizeIterator of whatever iter/iter_mut/into_iter return; "
    "next_back steps are capped at 300 per iterator (the list model's next_back is linear)",
]
MANIFEST = {
    "level": "proof",
    "text": ("Lean 4 theorems for every rank and all extents: get_index returns the row-major offset (below the product) for in-range indices, is "
             "injective, strictly monotone for the lexicographic order and onto; any index out of range in some dimension panics (assert) even when "
             "the flattened offset would be inside the storage; constructors reject zero extents / wrong lengths; the odometer of Writable terminates "
             "within product rounds and emits the elements in storage order separated by one blank inside the last dimension and by k newlines where "
             "k trailing blocks end; tokenising the written text gives the elements back, so write -> read is the identity; == holds iff shape and "
             "elements agree; with every usize operation checked, get_index never overflows when the product fits usize and the constructors reject every "
             "shape whose product does not; the Debug output is the same walk with bracket separators; clone / clone_from have value semantics (after a.clone_from(&b), whatever a was, "
             "a has b's shape and elements: indexing, ==, iteration and output are b's), dim(i) is the i-th extent, and every history of constructor / clone / clone_from / == / "
             "indexing / write / iter / output steps over several tensors shows exactly what the row-major specification says; for EVERY element type and every element == (not assumed reflexive: NaN; nor to "
             "distinguish values: zero-sized elements, records compared by key) t == u holds iff shapes and element counts agree and every pair of corresponding elements compares equal - nothing else, in particular "
             "not the identity or address of the operands -, != is its negation, an iterator after k next and j next_back calls holds storage positions k..len-j and count/len/last/nth/nth_back/rev/collect answer "
             "accordingly, and every element-generic history (all four constructors, rebuilding from returned shapes/elements, clone, clone_from, ==, !=, indexing, iterators, Writable, Debug) shows what the specification says. The hand-written model is tied to rlib_tensor by a differential correspondence run on every check."),
    "note": ("Trusted: Lean kernel, axioms propext/Classical.choice/Quot.sound, the hand-written model (checked against the code on the generated cases "
             "only, ranks 0..4, extents <= 5), harness and driver plumbing. Unchecked (wrapping) usize arithmetic is outside the model."),
    "technique": "Lean 4 proof of a hand-written model + differential correspondence check against the Rust crate",
    "design_ref": "DESIGN.md §6 C19",
}


def nontrivial(case, rec):
    toks = case.split()
    op = toks[0]
    if op == "h":
        return " cf " in case or " cl " in case
    if op == "rs":
        return case.count(";") >= 2      # at least two values read from the one reader
    if op == "g":
        return any(k in case for k in (" eq ", " ne ", " cf ", " itx ", " get "))
    try:
        d = {"ctor": 2, "write": 2, "rt": 3}.get(op, 1)
        dims = [] if toks[d] == "-" else [int(x) for x in toks[d].split(",")]
        n = 1
        for x in dims:
            n *= x
        return n > 1 or (op == "ctor" and len(dims) > 0)
    except (ValueError, IndexError):
        return True


# ---- second tie: constructors, get_index, dim(s), Index/IndexMut, == regenerated from the source text on every run (tools/rs2lean_typed.py) ----
TRANSLATED = ["from_vec", "from_slice", "new", "get_index", "dims", "dim", "Index::index", "IndexMut::index_mut", "PartialEq::eq"]
NOT_TRANSLATED = ["Tensor::read (rlib_io Reader)", "iter / iter_mut / into_iter (std iterator types)", "Writable::write and Debug::fmt (odometer over `idx.iter().zip(..).rposition(closure)`, writer calls)",
                  "#[derive(Clone)] (taken at face value: clone = the same shape and elements; covered by the differential histories)"]
ASSUMPTIONS.append(
    "second tie: fromVecU/fromSliceU/newU/getIndexU/dim/index/eq of the hand-written model are proved equal (theorems src_*_eq_model, through the embedding "
    "List Nat -> Array Int of shapes and indices; data is an Array over an abstract element type) to the definitions that tools/rs2lean_typed.py regenerates from the text of "
    "rlib/tensor/src/lib.rs on every run (Generated/TensorSrc.lean: [usize; D] = Array Int with checked indexing, contains/product = SrcVec.contains/product with checked "
    "usize multiplications, the `for i in (0..D).rev()` loop on fuel with its three usize operations checked); hypotheses: shape and index lists of length D (the Rust type), "
    "D + 1 <= fuel, and for index/index_mut positive extents whose product fits usize (the model's index uses unchecked arithmetic); trusted there: the translator, its reading "
    "of arrays/Vec (Generated/VecPrelude.lean, ArrPrelude.lean) and of a `&mut` place as its current value; NOT covered by the second tie (differential tie only): read, iterators, write, Debug, Clone")
MANIFEST["technique"] += " + source-to-Lean translation of rlib/tensor/src/lib.rs (constructors, get_index, dim, Index/IndexMut, ==) regenerated and proved equal to the model on every run"


def harness_args(params, profile):
    """`--profile debug`: the generator emits the histories in full and a sample of the bulk index streams."""
    return ["--profile", profile]


def extract(repo):
    """Translate <repo>/rlib/tensor/src/lib.rs into Generated/TensorSrc.lean (written only when its text changes).  A construct outside the
    translator's subset makes the second tie unavailable; the generated file then has no definitions, so the src_* theorems stop
    compiling as well (never a stale file left in place)."""
    import os
    import sys
    verif = os.path.dirname(os.path.dirname(os.path.abspath(__file__)))
    tools = os.path.join(verif, "tools")
    if tools not in sys.path:
        sys.path.insert(0, tools)
    import rs2lean_typed
    rel = "rlib/tensor/src/lib.rs"
    out = os.path.join(verif, "lean", "RlibModel", "Generated", "TensorSrc.lean")
    info, problems = rs2lean_typed.run(os.path.join(repo, rel), out, "Rlib.TensorSrc", rel, ID, "Tensor", TRANSLATED)
    params = {"translated_from": rel, "translated_functions": info.get("functions", []), "translated_loops": info.get("loops", []),
              "not_translated": NOT_TRANSLATED,
              "generated_file": "lean/RlibModel/Generated/TensorSrc.lean", "generated_file_rewritten": info.get("rewritten", False)}
    return params, problems


def extra(ctx):
    """Plain-words verdict on the second tie when the translation succeeded but the src_* module did not build (the generic check
    names the failing declarations).  Decided from the status the generic check recorded for this run - not from file times: after a
    run with a broken proof, restoring the generated text does not make lake touch the (still valid) .olean, so a time comparison
    (rs2lean.tie_findings) reports a stale file although everything builds."""
    import rs2lean
    ok = bool(ctx["params"].get("translated_functions"))
    status = ctx["coverage"].get("second_tie", {}).get("status")
    if ok and status == "broken":
        return [{"class": "broken", "kind": "proof", "nosearch": False,
                 "what": rs2lean.PROOF.format(src="rlib/tensor/src/lib.rs", lemmas="lean/RlibModel/Lemmas/TensorSrc.lean")}]
    return []
