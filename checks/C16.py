"""C16 — a treap stays heap-ordered (proved) and logarithmically shallow (measured) for any operation order (engine `treap`)."""
import json
import os
import re
import subprocess

ID = "C16"
ENGINE = "treap"
CRATE = "e_treap"
DRIVER = "drv_treap"
DRIVER_MODULE = "Driver.Treap"
PROPS = "RlibModel.Props.C16"
PROFILES = ["release", "debug"]   # debug: the same generators in smaller numbers against the debug build of rlib (cfg(debug_assertions), debug_assert!)
SHRINK_SEP = ";"
RULE = ("cases are histories `C16 <item> <stream> ; op ; op …` on a vector of live treaps (operation language and items as C03, incl. the "
        "round-3 operations move/take/dup/collect2 that re-use returned items, the item `key` with the trait's default update/push, priority "
        "policies with the ends of the priority type and the exhaustive scope over {0,1,MAX-1,MAX}). `ctl` (priorities written by the case into the "
        "public field): exhaustive priority assignments (ties included) for <=4 (<=5 thorough) nodes x split points x items x build orders "
        "+ random histories (small, and grown to 20-250 nodes), half of them with pairwise distinct priorities; after EVERY operation the "
        "heap order of every edge of every live treap is read through the public fields (explicit stack); at the end the shape of every "
        "live treap is printed — ALWAYS in the raw stream (so merge's tie rule is compared with the model), in the spec-level view when "
        "its priorities are distinct — against the Cartesian tree of the priority lists computed from the operations and reported sizes "
        "(`runP`). `own` (rlib's priorities, a fresh thread = fresh priority stream per case): random histories + explicit adversarial "
        "orders of 300 (quick) / up to 1500 (thorough) steps: sorted append, front insert, alternating ends, append with split-and-swap, "
        "random insert/remove, sequence assembled from one-element treaps (from_item; Treap::new()+insert_at), appends with a scratch "
        "Treap::new() merged through in between; heap order, the tie-tolerant edge invariant and the height bound after every operation. "
        "`big` (measured, rlib's priorities, self-contained: fresh thread per case, `burn k` moves the stream forward): append, front, alt, "
        "mid, rand, singles (Treap::new()+insert_at merged), fromitem, scratch, and three mixed histories with split-and-swap rotations, "
        "removals and cut-into-pieces-and-merge-back, at n = 10^3, 10^5 (+ one sorted append of 3*10^5) in quick / 10^3, 31623, 10^6 in "
        "thorough: size, heap order on every edge, height <= 5*log2(n+1)+20, >= 99.9 % pairwise distinct priorities. "
        "Wave 3 (seeded C16_m10) — the nodes of ONE treap are a SUBSEQUENCE of the thread's node creations: `strides S L` creates S*L nodes one "
        "after the other and, for EVERY stride s <= S (4096 quick / 16384 thorough) and two windows, links the nodes o, o+s, o+2s, ... (L = 256) into "
        "a treap with TreapNode::merge, checks heap order, size and the height bound, and takes it apart again through the public fields; "
        "`rr k c` fills k treaps round-robin (c rounds of appends; every treap checked, then all concatenated), `thin s c` appends c elements with "
        "s-1 scratch nodes created in between, `keep s` thins a long append/front run to every s-th element — k, s over powers of two, Fibonacci "
        "numbers and small multiples of them, primes, round decimal counts (2 .. 4181 quick, .. 65536 thorough) and random counts; two new explicit "
        "`own` patterns (round-robin over 2..21 live treaps; appends with scratch one-element treaps created and dropped in between). "
        "Wave 3: BOTH BUILD PROFILES — the same generators in smaller numbers also run against the debug build of rlib (cfg(debug_assertions), debug_assert!). "
        "Wave 4 (shared with C03, seeded C03_m13): the operation language has `inserttag` / `moveroot` (insert_at of an item that carries a pending "
        "modification: hand-built, or the root item of a modified one-element treap taken out of / cloned off the public `root` field); heap order and "
        "shapes are checked after them like after every other operation (`stepP` covers them; step_heap / step_inv / step_prios proved). "
        "non-trivial = distinct history that creates at least 3 nodes")
ASSUMPTIONS = [
    "the Lean model of rlib_treap (Model/Treap.lean) is hand-written; it is tied to the code by running both on the same histories",
    "the height bound is a MEASURED claim about the priorities rlib's generator actually draws (statistics of a PRNG are not a theorem); "
    "it is checked on adversarial histories up to 10^6 elements, not proved",
    "single-threaded use (concurrent construction is C17)",
    "the `big` stream (incl. the wave-3 operations strides/rr/thin/keep) is judged by an independent oracle inside the harness — a walk over the "
    "public priority/left/right fields with an explicit stack computing height, node count and heap order, compared with the bound the property "
    "states; the Lean driver only tracks the element count of these macro operations. What the measurement is about is proved: "
    "`history_shape` (the shape after any history is the Cartesian tree of the elements' creation priorities in sequence order) and, new, "
    "`monotone_prios_path` / `history_monotone_path` (strictly monotone in-order priorities => the treap is a path)",
]
MANIFEST = {
    "level": "proof (partial)",
    "text": ("Proved in Lean 4 for arbitrary items, predicates and priorities (ties included): merge, split_at, split_by, insert_at, "
             "remove_at keep min-heap order on every parent-child edge; first/last/collect/root modifiers do not change the shape; "
             "`heap_history`: after any history on any number of live treaps every live treap is heap-ordered. Shape, WITHOUT assuming "
             "distinct priorities (32-bit priorities repeat in big trees): merge's rule `ties -> right root` maintains the edge invariant "
             "HeapR (left child >= parent, right child > parent; `heapR_history`), HeapR alone makes the tree the Cartesian tree of its "
             "in-order priority sequence (`shape_canonical_ties`), and `history_shape`: after any history the in-order priority lists are "
             "plain list operations on the priorities of the inserted elements (`runP`: ++, take/drop, insert at k, eraseIdx; split_by "
             "for every predicate) and the shapes — hence heights — of all live treaps are the Cartesian trees of those lists: "
             "adversarial operation orders have no power beyond choosing positions; conversely (`monotone_prios_path`, `history_monotone_path`) a treap "
             "whose in-order priorities are strictly monotone is a path, so the height claim is a claim about SUBSEQUENCES of the thread's draws. The model is tied to rlib_treap by a differential "
             "run that reads priority/left/right of every node through the public fields (shapes are compared also with ties)."),
    "note": ("PARTIAL: `height <= 5*log2(n+1)+20` is TESTING, not proof — it depends on the randomness of the priorities drawn by the "
             "library's generator, which is a statistical fact about a PRNG. It is measured on adversarial histories (sorted append, front "
             "insert, alternating ends, middle insert, split-and-swap, random, sequences assembled from many one-element Treap objects, scratch "
             "treaps between operations, pieces merged back) up to 10^6 elements in the thorough tier, and on treaps whose nodes are a SUBSEQUENCE of "
             "the thread's creations (every arithmetic progression of creation indices with stride <= 4096 / 16384; k treaps filled round-robin, "
             "appends thinned by scratch creations, runs thinned afterwards, for k over powers of two, Fibonacci numbers, primes, random counts), together with a second measured "
             "observable (>= 99.9 % of the priorities of a big tree pairwise distinct); the measured heights and distinct counts are "
             "recorded in the evidence. The heap-order and canonical-shape theorems are the proved part and do not depend on it. "
             "Trusted: Lean kernel, axioms propext/Classical.choice/Quot.sound, the hand-written model, harness and driver plumbing."),
    "technique": "Lean 4 proof of a hand-written model + differential correspondence check + measured height on adversarial histories",
    "design_ref": "DESIGN.md §6 C16",
}


def nontrivial(case, rec):
    if " big " in case.split(";")[0] + " ":
        return True
    return case.count("item ") + case.count("insert ") >= 3


def extract(repo):
    """Where the priorities come from: recorded in the evidence; the width must be the one the harness writes."""
    problems = []
    params = {}
    p = os.path.join(repo, "rlib/treap/src/treap_node.rs")
    try:
        src = open(p).read()
    except OSError as e:
        return params, [f"cannot read {p}: {e}"]
    m = re.search(r"type\s+Priority\s*=\s*(\w+)\s*;", src)
    if m:
        params["priority_type"] = m.group(1)
        if m.group(1) != "u32":
            problems.append(f"Priority is {m.group(1)}, the harness writes u32 priorities")
    else:
        problems.append("`type Priority = …;` not found in treap_node.rs")
    m = re.search(r"fn\s+gen_priority\s*\(\)\s*->\s*Priority\s*\{(.*?)\n\}", src, flags=re.S)
    if m:
        body = " ".join(m.group(1).split())
        params["gen_priority_body"] = body[:300]
    else:
        problems.append("`fn gen_priority() -> Priority` not found in treap_node.rs")
    return params, problems


def harness_args(params, profile):
    return ["--focus", "C16", "--profile", profile]


def extra(ctx):
    """Record the measured heights (evidence only; the verdict comes from the `big` case lines)."""
    out = []
    pipes = ctx.get("pipes") or []
    if not pipes:
        return out
    sizes = [1000, 100000] if ctx["tier"] == "quick" else [1000, 31623, 1000000]
    try:
        r = subprocess.run([pipes[0].bin, "measure"] + [str(s) for s in sizes], stdout=subprocess.PIPE, stderr=subprocess.PIPE,
                           text=True, timeout=1800)
        rows = [json.loads(l) for l in r.stdout.split("\n") if l.startswith("{")]
        ctx["coverage"]["measured_heights"] = rows
        bad = [x for x in rows if not x.get("ok")]
        for x in bad[:1]:
            out.append({"class": "violation", "what": f"measured height exceeds the bound: {x}",
                        "case": f"C16 sum big ; {x['pattern']} {x['n']}" + (" 1" if x["pattern"] == "rand" else "")})
    except Exception as e:  # measurement is best-effort evidence
        ctx["coverage"]["measured_heights_error"] = str(e)
    return out
